#!/bin/bash
# Offline setup: checks the toolchain and warms the build cache for the current /repo tree.
# Everything is built from files under /verif and $VERIF_REPO (default /repo); nothing is fetched.
set -e
cd "$(dirname "$0")"
for t in gcc clang cmake ninja python3 objcopy; do
  command -v $t >/dev/null || { echo "setup: missing tool $t" >&2; exit 1; }
done
python3 - <<'PY'
import sys
sys.path.insert(0, '.')
from vlib import build
from vlib.props import PROPS
pairs = []
for pid, spec in sorted(PROPS.items()):
    for st in spec["stages"]:
        if "quick" in st.get("tiers", ("quick", "thorough")):
            p = (st["flavour"], st.get("L", 2048))
            if p not in pairs:
                pairs.append(p)
for p in pairs:
    build.ensure(*p)
print("setup: %d harness binaries ready under %s" % (len(pairs), build.SCRATCH))
PY
