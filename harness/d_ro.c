/* d_ro.c — driver "ro" (C18): read-only operations never write.
 * The tree is built inside zone 0 of the arena allocator, which is then
 * mprotect(PROT_READ)ed; each read-only function runs with a SIGSEGV handler
 * that records the faulting address (-> owning block and offset), re-enables
 * write access and returns, so the store completes and the run carries on.
 * Anything the operation itself allocates comes from zone 1. */
#define _GNU_SOURCE
#include <signal.h>
#include <sys/mman.h>
#include <ucontext.h>

#include "vh.h"

/* ------------------------------------------------ the read-only API, by index */
enum { RO_SERIALIZE, RO_SERIALIZE_TYPED, RO_SIZE, RO_SERIALIZE_SMALL, RO_TYPEOF, RO_ISA, RO_IS, RO_REFCOUNT, RO_INT, RO_FLOAT, RO_CTRL, RO_BYTESTRING, RO_STRING,
       RO_ARRAY, RO_MAP, RO_TAG, RO_N };
const char* const ro_names[RO_N] = {"cbor_serialize", "cbor_serialize_<type>", "cbor_serialized_size", "cbor_serialize(too small)", "cbor_typeof", "cbor_isa_*", "cbor_is_*", "cbor_refcount",
  "cbor_int_get_width/cbor_get_uint*/cbor_get_int", "cbor_float_get_width/cbor_float_get_float*", "cbor_ctrl_value/cbor_float_ctrl_is_ctrl/cbor_get_bool",
  "cbor_bytestring_length/handle/is_(in)definite/chunk_count/chunks_handle", "cbor_string_length/handle/codepoint_count/is_(in)definite/chunk_count/chunks_handle",
  "cbor_array_size/allocated/handle/is_(in)definite", "cbor_map_size/allocated/handle/is_(in)definite", "cbor_tag_value"};

static __thread volatile uint64_t ro_sink;
/* Applies read-only function group `fn` to `it` (if applicable to its type).
 * `out`/`outn`: caller-provided scratch outside the protected zone. */
bool ro_apply(int fn, const cbor_item_t* it, unsigned char* out, size_t outn) {
  uint64_t s = 0;
  cbor_type t = cbor_typeof(it);
  switch (fn) {
    case RO_SERIALIZE: s += cbor_serialize(it, out, outn); break;
    case RO_SERIALIZE_SMALL: {
      s += cbor_serialize(it, out, outn ? (outn - 1) / 2 : 0); s += cbor_serialize(it, out, 0);
      /* the refusal may come at any member: every buffer size below the item's own size, for items of up to 96 bytes
       * (and the typed serializer with each of them) */
      size_t sz = cbor_serialized_size(it);
      if (sz && sz <= 96 && sz <= outn) for (size_t n = 1; n < sz; n++) { s += cbor_serialize(it, out, n); if ((n & 3) == 1 && t == CBOR_TYPE_ARRAY) s += cbor_serialize_array(it, out, n); else if ((n & 3) == 1 && t == CBOR_TYPE_MAP) s += cbor_serialize_map(it, out, n); }
      break;
    }
    case RO_SERIALIZE_TYPED:
      switch (t) {
        case CBOR_TYPE_UINT: s += cbor_serialize_uint(it, out, outn); break;
        case CBOR_TYPE_NEGINT: s += cbor_serialize_negint(it, out, outn); break;
        case CBOR_TYPE_BYTESTRING: s += cbor_serialize_bytestring(it, out, outn); break;
        case CBOR_TYPE_STRING: s += cbor_serialize_string(it, out, outn); break;
        case CBOR_TYPE_ARRAY: s += cbor_serialize_array(it, out, outn); break;
        case CBOR_TYPE_MAP: s += cbor_serialize_map(it, out, outn); break;
        case CBOR_TYPE_TAG: s += cbor_serialize_tag(it, out, outn); break;
        case CBOR_TYPE_FLOAT_CTRL: s += cbor_serialize_float_ctrl(it, out, outn); break;
      }
      break;
    case RO_SIZE: s += cbor_serialized_size(it); break;
    case RO_TYPEOF: s += cbor_typeof(it); break;
    case RO_ISA: s += cbor_isa_uint(it) + cbor_isa_negint(it) + cbor_isa_bytestring(it) + cbor_isa_string(it) + cbor_isa_array(it) + cbor_isa_map(it) + cbor_isa_tag(it) + cbor_isa_float_ctrl(it); break;
    case RO_IS: s += cbor_is_int(it) + cbor_is_float(it) + cbor_is_bool(it) + cbor_is_null(it) + cbor_is_undef(it); break;
    case RO_REFCOUNT: s += cbor_refcount(it); break;
    case RO_INT:
      if (t != CBOR_TYPE_UINT && t != CBOR_TYPE_NEGINT) return false;
      s += cbor_int_get_width(it) + cbor_get_int(it);
      switch (cbor_int_get_width(it)) {
        case CBOR_INT_8: s += cbor_get_uint8(it); break;
        case CBOR_INT_16: s += cbor_get_uint16(it); break;
        case CBOR_INT_32: s += cbor_get_uint32(it); break;
        case CBOR_INT_64: s += cbor_get_uint64(it); break;
      }
      break;
    case RO_FLOAT:
      if (t != CBOR_TYPE_FLOAT_CTRL || cbor_float_ctrl_is_ctrl(it)) return false;
      s += cbor_float_get_width(it);
      s += (uint64_t)(cbor_float_get_float(it) != 0);
      if (cbor_float_get_width(it) == CBOR_FLOAT_16) s += (uint64_t)(cbor_float_get_float2(it) != 0);
      else if (cbor_float_get_width(it) == CBOR_FLOAT_32) s += (uint64_t)(cbor_float_get_float4(it) != 0);
      else s += (uint64_t)(cbor_float_get_float8(it) != 0);
      break;
    case RO_CTRL:
      if (t != CBOR_TYPE_FLOAT_CTRL) return false;
      s += cbor_float_ctrl_is_ctrl(it) + cbor_float_get_width(it);
      if (cbor_float_ctrl_is_ctrl(it)) { s += cbor_ctrl_value(it); if (cbor_is_bool(it)) s += cbor_get_bool(it); }
      break;
    case RO_BYTESTRING:
      if (t != CBOR_TYPE_BYTESTRING) return false;
      s += cbor_bytestring_is_definite(it) + cbor_bytestring_is_indefinite(it);
      /* length and handle are callable on either flavour (their only precondition is the major type) */
      s += cbor_bytestring_length(it) + (uintptr_t)cbor_bytestring_handle(it);
      if (cbor_bytestring_is_definite(it)) { if (cbor_bytestring_length(it) && cbor_bytestring_handle(it)) s += cbor_bytestring_handle(it)[0]; }
      else { s += cbor_bytestring_chunk_count(it) + (uintptr_t)cbor_bytestring_chunks_handle(it); }
      break;
    case RO_STRING:
      if (t != CBOR_TYPE_STRING) return false;
      s += cbor_string_is_definite(it) + cbor_string_is_indefinite(it);
      /* length, handle and code point count are callable on either flavour */
      s += cbor_string_length(it) + cbor_string_codepoint_count(it) + (uintptr_t)cbor_string_handle(it);
      if (cbor_string_is_indefinite(it)) { s += cbor_string_chunk_count(it) + (uintptr_t)cbor_string_chunks_handle(it); }
      break;
    case RO_ARRAY:
      if (t != CBOR_TYPE_ARRAY) return false;
      s += cbor_array_size(it) + cbor_array_allocated(it) + (uintptr_t)cbor_array_handle(it) + cbor_array_is_definite(it) + cbor_array_is_indefinite(it);
      break;
    case RO_MAP:
      if (t != CBOR_TYPE_MAP) return false;
      s += cbor_map_size(it) + cbor_map_allocated(it) + (uintptr_t)cbor_map_handle(it) + cbor_map_is_definite(it) + cbor_map_is_indefinite(it);
      break;
    case RO_TAG:
      if (t != CBOR_TYPE_TAG) return false;
      s += cbor_tag_value(it);
      break;
    default: return false;
  }
  ro_sink += s;
  return true;
}
int ro_count(void) { return RO_N; }

/* every node of the tree, pre-order, through the public struct only (no refcount traffic) */
typedef void (*node_cb)(const cbor_item_t*, void*);
void ro_each_node(const cbor_item_t* it, node_cb cb, void* ud) {
  if (!it) return;
  cb(it, ud);
  switch (cbor_typeof(it)) {
    case CBOR_TYPE_BYTESTRING: if (cbor_bytestring_is_indefinite(it)) for (size_t i = 0; i < cbor_bytestring_chunk_count(it); i++) ro_each_node(cbor_bytestring_chunks_handle(it)[i], cb, ud); break;
    case CBOR_TYPE_STRING: if (cbor_string_is_indefinite(it)) for (size_t i = 0; i < cbor_string_chunk_count(it); i++) ro_each_node(cbor_string_chunks_handle(it)[i], cb, ud); break;
    case CBOR_TYPE_ARRAY: for (size_t i = 0; i < cbor_array_size(it); i++) ro_each_node(cbor_array_handle(it)[i], cb, ud); break;
    case CBOR_TYPE_MAP: for (size_t i = 0; i < cbor_map_size(it); i++) { ro_each_node(cbor_map_handle(it)[i].key, cb, ud); ro_each_node(cbor_map_handle(it)[i].value, cb, ud); } break;
    case CBOR_TYPE_TAG: ro_each_node(it->metadata.tag_metadata.tagged_item, cb, ud); break;
    default: break;
  }
}

/* ------------------------------------------------------------ fault handler */
static volatile sig_atomic_t g_faults;
static void* volatile g_fault_addr;
static volatile int g_in_op;
static void on_segv(int sig, siginfo_t* si, void* uc) {
  (void)uc;
  if (g_in_op && ar_zone_of(si->si_addr) == 0) {
    if (g_faults == 0) g_fault_addr = si->si_addr;
    g_faults++;
    ar_freeze(false); /* let the store complete; the operation continues */
    return;
  }
  /* not ours: restore the default action and re-raise */
  signal(sig, SIG_DFL);
  raise(sig);
}

static uint64_t g_fn_calls[RO_N], g_trees, g_nodes, g_moved_roots;
struct run_ud { const cbor_item_t* root; unsigned char* out; size_t outn; const char* origin; };

static void field_of(const void* addr, char* buf, size_t cap) {
  uintptr_t base; size_t size;
  if (ar_block_of(addr, &base, &size)) {
    size_t off = (size_t)((uintptr_t)addr - base);
    const char* f = "";
    if (size >= sizeof(cbor_item_t) && size <= sizeof(cbor_item_t) + 8) {
      if (off >= offsetof(cbor_item_t, refcount) && off < offsetof(cbor_item_t, refcount) + sizeof(size_t)) f = " = the item's refcount field";
      else if (off < offsetof(cbor_item_t, refcount)) f = " = inside the item's metadata";
      else if (off >= offsetof(cbor_item_t, data)) f = " = the item's data pointer";
      else f = " = the item's type field";
    }
    snprintf(buf, cap, "offset %zu of a %zu-byte block%s", off, size, f);
  } else snprintf(buf, cap, "address %p", addr);
}

static void node_run(const cbor_item_t* it, void* ud_) {
  struct run_ud* ud = ud_;
  g_nodes++;
  for (int fn = 0; fn < RO_N; fn++) {
    /* whole-tree functions only from the root and from container/tag nodes; getters on every node */
    ar_freeze(true);
    ar_use_zone(1);
    g_faults = 0;
    g_in_op = 1;
    bool applied = ro_apply(fn, it, ud->out, ud->outn);
    g_in_op = 0;
    ar_use_zone(0);
    if (g_faults) {
      char where[160];
      field_of((void*)g_fault_addr, where, sizeof where);
      ar_freeze(false);
      struct vh_buf pr = {0};
      walk_print_item(it, &pr);
      vh_violation("write-during-read-only-operation", "%s on %s (tree from %s) stored to write-protected item memory: %s (%d faulting store(s))", ro_names[fn], (char*)pr.p, ud->origin, where, (int)g_faults);
      vb_free(&pr);
    }
    if (applied) g_fn_calls[fn]++;
  }
  ar_freeze(false);
}

static void tree_case(cbor_item_t* root, const char* origin) {
  size_t sz = cbor_serialized_size(root); /* unprotected here; checked under protection below */
  size_t outn = sz + 16;
  unsigned char* out = malloc(outn);
  struct run_ud ud = {root, out, outn, origin};
  /* image of the frozen zone before / after: bit-for-bit untouched also when no fault fires */
  struct vh_buf d0 = {0}, d1 = {0};
  walk_dump_item(root, &d0, WD_REFCOUNTS | WD_IDENTITY);
  ro_each_node(root, node_run, &ud);
  /* serialize_alloc allocates its output (zone 1) but must not touch the tree */
  ar_freeze(true);
  ar_use_zone(1);
  g_faults = 0; g_in_op = 1;
  unsigned char* ab = NULL; size_t abn = 0;
  cbor_serialize_alloc(root, &ab, &abn);
  g_in_op = 0;
  if (g_faults) { char where[160]; field_of((void*)g_fault_addr, where, sizeof where); vh_violation("write-during-read-only-operation", "cbor_serialize_alloc (tree from %s) stored to write-protected item memory: %s", origin, where); }
  ar_freeze(false);
  if (ab) _cbor_free(ab);
  ar_use_zone(0);
  walk_dump_item(root, &d1, WD_REFCOUNTS | WD_IDENTITY);
  if (d0.n != d1.n || memcmp(d0.p, d1.p, d0.n)) vh_violation("tree-changed", "contents or reference counts differ after the read-only operations (tree from %s)", origin);
  vb_free(&d0); vb_free(&d1);
  free(out);
  g_trees++;
}

static void ro_setup(void) {
  if (strcmp(O.prop, "C18") && strcmp(O.prop, "C12")) vh_die("driver ro: --prop must be C18 or C12");
  ref_selftest();
  ar_install();
  ar_reset();
  static uint8_t altstack[1 << 16];
  stack_t ss = {.ss_sp = altstack, .ss_size = sizeof altstack, .ss_flags = 0};
  sigaltstack(&ss, NULL);
  struct sigaction sa;
  memset(&sa, 0, sizeof sa);
  sa.sa_sigaction = on_segv;
  sa.sa_flags = SA_SIGINFO | SA_ONSTACK | SA_NODEFER;
  sigaction(SIGSEGV, &sa, NULL);
  /* positive control: the handler must see a deliberate store into the frozen zone */
  ar_use_zone(0);
  volatile unsigned char* probe = _cbor_malloc(32);
  ar_freeze(true);
  g_faults = 0; g_in_op = 1;
  probe[3] = 1;
  g_in_op = 0;
  if (g_faults != 1) vh_die("mprotect monitor failed its positive control (faults=%d)", (int)g_faults);
  ar_freeze(false);
  ar_reset();
}

/* descriptor: 'D' + input bytes | 'A' + u64 idx + u64 seed */
static void ro_case_input(const uint8_t* in, size_t n) {
  struct vh_buf d = {0};
  vb_u8(&d, 'D'); vb_put(&d, in, n);
  if (!vh_case(d.p, d.n)) { vb_free(&d); return; }
  ar_reset();
  uint8_t* ex = vh_exact(in, n);
  struct cbor_load_result r;
  cbor_item_t* it = cbor_load(ex, n, &r);
  free(ex);
  if (it) {
    char origin[120];
    snprintf(origin, sizeof origin, "cbor_load(%s)", vh_hex(in, n, 40));
    tree_case(it, origin);
    vh_nontrivial(vh_hash(d.p, d.n));
    cbor_decref(&it);
    if (AR_live) { vh_violation("leak", "%llu arena block(s) left", (unsigned long long)AR_live); }
  } else VH_COUNT("skipped.load_failed", 1);
  vb_free(&d);
}
static void ro_case_api(uint64_t u, uint64_t seed) {
  uint8_t desc[17] = {'A'};
  for (int i = 0; i < 8; i++) { desc[1 + i] = (uint8_t)(u >> (56 - 8 * i)); desc[9 + i] = (uint8_t)(seed >> (56 - 8 * i)); }
  if (!vh_case(desc, 17)) return;
  ar_reset();
  struct vh_rng r;
  uint64_t nsys = gen_systematic_count();
  vh_rng_seed(&r, seed * 0xc18 + u);
  struct gen_cfg cfg = {.max_nodes = 3 + (int)(u % 29), .max_depth = 7, .nonminimal = false, .assigned_simple_only = true};
  rnode* t = u < nsys ? gen_systematic(u) : gen_tree(&r, &cfg);
  if (!t) return;
  cbor_item_t* it = walk_build_from_ref(t);
  rn_free(t);
  if (it) {
    char origin[128];
    snprintf(origin, sizeof origin, "construction calls (tree #%llu)", (unsigned long long)u);
    /* a second reference to the root, as a tree shared between readers would have */
    if (u & 1) cbor_incref(it);
    /* one tree in four is a temporary handed on with cbor_move and not adopted yet (reference count 0): reading it is as
     * legitimate as reading any other item, and must neither write to it nor release it */
    bool moved = (u & 3) == 2;
    if (moved) { (void)cbor_move(it); snprintf(origin, sizeof origin, "construction calls (tree #%llu), root lent with cbor_move: reference count 0", (unsigned long long)u); g_moved_roots++; }
    tree_case(it, origin);
    if (moved) {
      if (cbor_refcount(it) != 0) vh_violation("tree-changed", "a root with reference count 0 has count %zu after the read-only operations", cbor_refcount(it));
      cbor_incref(it);
    }
    if (u & 1) { cbor_item_t* tmp = it; cbor_decref(&tmp); }
    vh_nontrivial(vh_hash(desc, 17));
    cbor_decref(&it);
    if (AR_live) vh_violation("leak", "%llu arena block(s) left", (unsigned long long)AR_live);
  } else VH_COUNT("skipped.build_failed", 1);
}

/* big nodes in the protected zone: anything an operation does only above a size threshold (shrink-to-fit, a scratch copy,
 * a different code path for long payloads) happens here and nowhere in the small generated trees */
static void ro_case_big(int kind) {
  uint8_t desc[2] = {'B', (uint8_t)kind};
  if (!vh_case(desc, 2)) return;
  static const char* const kn[] = {"chunked byte string of 3 x 24 MiB chunks", "chunked text string of 5 x 16 MiB chunks", "definite array of 5 x 16 MiB byte strings", "definite byte string of 70 MiB", "indefinite map with three 24 MiB text values"};
  ar_reset();
  size_t cap0 = AR_cap;
  AR_cap = (size_t)200 << 20;
  size_t unit = kind == 0 || kind == 4 ? (size_t)24 << 20 : kind == 3 ? (size_t)70 << 20 : (size_t)16 << 20;
  unsigned char* pay = malloc(unit);
  for (size_t i = 0; i < unit; i++) pay[i] = (uint8_t)('a' + (i * 5 + i / 977) % 26);
  cbor_item_t* sub = (kind == 1 || kind == 4) ? cbor_build_stringn((const char*)pay, unit) : cbor_build_bytestring(pay, unit);
  free(pay);
  cbor_item_t* root = NULL;
  bool ok = sub != NULL;
  if (ok) switch (kind) {
    case 0: root = cbor_new_indefinite_bytestring(); for (int i = 0; i < 3 && ok; i++) ok = cbor_bytestring_add_chunk(root, sub); break;
    case 1: root = cbor_new_indefinite_string(); for (int i = 0; i < 5 && ok; i++) ok = cbor_string_add_chunk(root, sub); break;
    case 2: root = cbor_new_definite_array(7); for (int i = 0; i < 5 && ok; i++) ok = cbor_array_push(root, sub); break;
    case 3: root = cbor_incref(sub); break;
    default: { root = cbor_new_indefinite_map(); cbor_item_t* k = cbor_build_uint8(3); for (int i = 0; i < 3 && ok; i++) ok = cbor_map_add(root, (struct cbor_pair){.key = k, .value = sub}); cbor_decref(&k); }
  }
  if (!root || !ok) { AR_cap = cap0; vh_die("ro big: building the %s failed", kn[kind]); }
  char origin[96];
  snprintf(origin, sizeof origin, "construction calls (%s)", kn[kind]);
  tree_case(root, origin);
  cbor_decref(&root);
  cbor_decref(&sub);
  AR_cap = cap0;
  if (AR_live) vh_violation("leak", "%llu arena block(s) left", (unsigned long long)AR_live);
  VH_COUNT("big_trees", 1);
  vh_nontrivial(vh_hash(desc, 2));
}


/* ------------------------------------------------------------------ C12: an out-of-range index is refused without touching memory
 * The array, its members and the value offered all live in the write-protected zone while cbor_array_replace / _set /
 * _get are called with indices from size upwards (set: from size + 1, since size appends). A store into any of them -
 * including one undone before returning - faults and is attributed. descriptor: 'X' + u64 case + u64 seed */
static uint64_t g_refused_calls[3], g_refused_cases;
static void ro_case_refused(uint64_t u, uint64_t seed) {
  uint8_t desc[17] = {'X'};
  for (int i = 0; i < 8; i++) { desc[1 + i] = (uint8_t)(u >> (56 - 8 * i)); desc[9 + i] = (uint8_t)(seed >> (56 - 8 * i)); }
  if (!vh_case(desc, 17)) return;
  ar_reset();
  ar_use_zone(0);
  /* u enumerates: capacity 0..8, fill 0..cap, definite / indefinite, what the value is (0 fresh integer, 1 fresh text,
   * 2 fresh array with members, 3 a member of the array, 4 the array itself, 5 an integer lent with cbor_move) */
  unsigned cap = (unsigned)(u % 9), fill = (unsigned)((u / 9) % 9), indef = (unsigned)((u / 81) & 1), vk = (unsigned)((u / 162) % 6);
  if (fill > cap) fill = cap;
  cbor_item_t* arr = indef ? cbor_new_indefinite_array() : cbor_new_definite_array(cap);
  if (!arr) vh_die("ro refused: building the array failed");
  for (unsigned i = 0; i < fill; i++) { cbor_item_t* m = i & 1 ? cbor_build_string("member") : cbor_build_uint16((uint16_t)(300 + i)); if (!m || !cbor_array_push(arr, m)) vh_die("ro refused: filling the array failed"); cbor_decref(&m); }
  if (vk == 3 && fill == 0) vk = 0;
  cbor_item_t* value = NULL;
  switch (vk) {
    case 0: case 5: value = cbor_build_uint32(70000); break;
    case 1: value = cbor_build_string("offered"); break;
    case 2: value = cbor_new_definite_array(2); { cbor_item_t* k = cbor_build_uint8(1); (void)cbor_array_push(value, k); cbor_decref(&k); } break;
    case 3: value = cbor_array_get(arr, fill / 2); break;
    default: value = cbor_incref(arr);
  }
  if (!value) vh_die("ro refused: building the value failed");
  if (vk == 5) (void)cbor_move(value); /* reference count 0: the callee is to take the only reference, if it takes any */
  size_t size = cbor_array_size(arr);
  struct vh_buf d0 = {0}, d1 = {0};
  walk_dump_item(arr, &d0, WD_REFCOUNTS | WD_IDENTITY);
  size_t rc_value = cbor_refcount(value);
  struct vh_rng r;
  vh_rng_seed(&r, seed * 0xc12 + u);
  const size_t idx[] = {size, size + 1, size + 2, size + 7, 1000, (size_t)1 << 32, ((size_t)1 << 32) + (size ? size - 1 : 0), (size_t)1 << 61, ((size_t)1 << 61) + (size ? size - 1 : 0), SIZE_MAX, SIZE_MAX - 1,
                        size + 1 + (size_t)vh_below(&r, 1u << 20), (size_t)vh_rand(&r) | size};
  static const char* const opn[3] = {"cbor_array_replace", "cbor_array_set", "cbor_array_get"};
  for (size_t k = 0; k < sizeof idx / sizeof idx[0]; k++) {
    for (int op = 0; op < 3; op++) {
      size_t ix = idx[k];
      if (ix < size || (op == 1 && ix == size)) continue; /* in range (set at size appends) */
      if (op == 2 && vk == 5) { /* fine: get takes no value */ }
      ar_freeze(true);
      ar_use_zone(1);
      g_faults = 0; g_in_op = 1;
      bool refused = op == 0 ? !cbor_array_replace(arr, ix, value) : op == 1 ? !cbor_array_set(arr, ix, value) : cbor_array_get(arr, ix) == NULL;
      g_in_op = 0;
      ar_use_zone(0);
      int faults = (int)g_faults;
      ar_freeze(false);
      g_refused_calls[op]++;
      if (!refused) { vh_violation("out-of-range-accepted", "%s(index %zu) on %s array of size %zu (capacity %zu) did not refuse", opn[op], ix, indef ? "an indefinite" : "a definite", size, cbor_array_allocated(arr)); goto out; }
      if (faults) {
        char where[160];
        field_of((void*)g_fault_addr, where, sizeof where);
        static const char* const vn[] = {"a fresh integer", "a fresh text string", "a fresh array", "a member of the array", "the array itself", "an integer lent with cbor_move"};
        vh_violation("refusal-touched-memory", "%s(index %zu) on %s array of size %zu was refused but stored to write-protected memory (array, members and the value - %s - are all protected): %s; %d faulting store(s)", opn[op], ix,
                     indef ? "an indefinite" : "a definite", size, vn[vk], where, faults);
        goto out;
      }
    }
  }
  walk_dump_item(arr, &d1, WD_REFCOUNTS | WD_IDENTITY);
  if (d0.n != d1.n || memcmp(d0.p, d1.p, d0.n) || cbor_refcount(value) != rc_value) vh_violation("refusal-changed-state", "array contents or reference counts differ after refused calls only (size %zu)", size);
out:
  vb_free(&d0); vb_free(&d1);
  if (vk == 5) cbor_incref(value);
  cbor_decref(&value);
  cbor_decref(&arr);
  if (AR_live) vh_violation("leak", "%llu arena block(s) left", (unsigned long long)AR_live);
  g_refused_cases++;
  vh_nontrivial(vh_hash(desc, 17));
}
static void ro_refused_run(void) {
  uint64_t n = 9 * 9 * 2 * 6, rounds = O.budget ? O.budget : (O.thorough ? 40 : 4);
  for (uint64_t u = 0; u < n * rounds; u++) if ((int)(u % (uint64_t)O.nshards) == O.shard) ro_case_refused(u % n, O.seed + u / n);
  vh_count_dyn("refused.cbor_array_replace", g_refused_calls[0]);
  vh_count_dyn("refused.cbor_array_set", g_refused_calls[1]);
  vh_count_dyn("refused.cbor_array_get", g_refused_calls[2]);
  vh_count_dyn("refused.arrays", g_refused_cases);
  vh_set_rule("each case is an array (capacity 0..8, fill 0..capacity, definite or indefinite) and a value (fresh integer / text / array, a member, the array itself, an integer lent with cbor_move) built inside an arena zone that is write-protected while cbor_array_replace / _set / _get are called with 13 out-of-range indices (size.., 2^32 and 2^61 aliases of valid slots, SIZE_MAX, random); a store into the zone faults and is attributed to block and field; contents and reference counts compared before / after; non-trivial = all calls made; distinct by case index and seed");
  vh_set_exhaustive(false);
}

static void ro_run(void) {
  ro_setup();
  if (!strcmp(O.prop, "C12")) { ro_refused_run(); return; }
  for (int kind = 0; kind < 5; kind++) if (kind % O.nshards == O.shard) ro_case_big(kind);
  uint64_t nsys = gen_systematic_count();
  uint64_t nrand = O.budget ? O.budget : (O.thorough ? 100000 : 10000);
  struct vh_buf x = {0};
  for (uint64_t u = 0; u < nsys + nrand; u++) {
    if ((int)(u % (uint64_t)O.nshards) != O.shard) continue;
    ro_case_api(u, O.seed);
    /* the same shape through the decoder (non-minimal heads, chunk boundaries as encoded) */
    struct vh_rng r;
    vh_rng_seed(&r, O.seed * 0x100000001b3ull + u);
    struct gen_cfg cfg = {.max_nodes = 3 + (int)(u % 23), .max_depth = 6, .nonminimal = true, .assigned_simple_only = true};
    rnode* t = u < nsys ? gen_systematic(u) : gen_tree(&r, &cfg);
    if (!t) continue;
    vb_reset(&x);
    ref_encode_src(t, &x);
    rn_free(t);
    if (x.n <= 100000) ro_case_input(x.p, x.n);
  }
  vb_free(&x);
  for (int fn = 0; fn < RO_N; fn++) { char nm[160]; snprintf(nm, sizeof nm, "calls.%s", ro_names[fn]); nm[60] = 0; vh_count_dyn(nm, g_fn_calls[fn]); }
  vh_count_dyn("trees", g_trees);
  vh_count_dyn("trees_whose_root_has_reference_count_0", g_moved_roots);
  vh_count_dyn("nodes_visited", g_nodes);
  vh_set_rule("each case is an item tree built (by construction calls or by cbor_load) inside an arena that is write-protected before every read-only function is run on every node; a store into the protected zone faults and is attributed to the written block/field; non-trivial = a tree was obtained; distinct by hash of the generator index / input");
  vh_set_exhaustive(false);
}
static void ro_exec(const uint8_t* d, size_t n) {
  ro_setup();
  if (n == 2 && d[0] == 'B') { ro_case_big(d[1]); return; }
  if (n == 17 && d[0] == 'X') { uint64_t u = 0, sd = 0; for (int i = 0; i < 8; i++) { u = u << 8 | d[1 + i]; sd = sd << 8 | d[9 + i]; } ro_case_refused(u, sd); return; }
  if (n >= 1 && d[0] == 'D') { ro_case_input(d + 1, n - 1); return; }
  if (n == 17 && d[0] == 'A') { uint64_t u = 0, s = 0; for (int i = 0; i < 8; i++) { u = u << 8 | d[1 + i]; s = s << 8 | d[9 + i]; } ro_case_api(u, s); return; }
  printf("unrecognised descriptor\n");
}
const struct vh_driver drv_ro = {"ro", ro_run, ro_exec, "read-only operations on write-protected trees (C18)"};
