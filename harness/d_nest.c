/* d_nest.c — driver "nest" (C19): the nesting limit is exact for the L this
 * library was built with, and the whole pipeline runs within native stack
 * proportional to L.  Every case runs on a thread whose stack is a fixed,
 * pre-painted mmap region (64 KiB + 512 B x L) with a guard page; SIGSEGV is
 * taken on an alternate stack and turned into a verdict, not a crash. */
#define _GNU_SOURCE
#include <pthread.h>
#include <setjmp.h>
#include <signal.h>
#include <sys/mman.h>
#include <ucontext.h>
#include <unistd.h>

#include "vh.h"

static size_t LIM;
static FILE* devnull;

struct job {
  const uint8_t* in; size_t n;
  /* results */
  bool overflowed; const char* phase;
  cbor_item_t* item; struct cbor_load_result res;
  bool copy_ok; size_t ser_size, ser_written;
};
static __thread sigjmp_buf* t_jmp;
static __thread struct job* t_job;
static uint8_t* g_stack_lo; static size_t g_stack_len;

static void on_segv(int sig, siginfo_t* si, void* uc) {
  uint8_t* a = si->si_addr;
  /* a large frame (variable-length array, alloca) moves the stack pointer far below the guard page in one step: the
   * faulting thread's stack pointer, not only the fault address, tells an exhausted stack from any other fault */
  uint8_t* sp = NULL;
#if defined(__x86_64__)
  sp = (uint8_t*)((ucontext_t*)uc)->uc_mcontext.gregs[REG_RSP];
#else
  (void)uc;
#endif
  bool sp_below = sp && sp < g_stack_lo + 4096 && sp + ((size_t)1 << 32) > g_stack_lo;
  if (t_jmp && ((a >= g_stack_lo - 65536 && a < g_stack_lo + 4096) || sp_below)) { /* guard page (or below): native stack exhausted */
    t_job->overflowed = true;
    siglongjmp(*t_jmp, 1);
  }
  signal(sig, SIG_DFL);
  raise(sig);
}

static void* job_thread(void* arg) {
  struct job* j = arg;
  /* the alternate stack lives on the heap so that it does not eat into the measured stack */
  static uint8_t* altstack;
  if (!altstack) altstack = malloc(1 << 16);
  stack_t ss = {.ss_sp = altstack, .ss_size = 1 << 16, .ss_flags = 0};
  sigaltstack(&ss, NULL);
  sigjmp_buf jb;
  t_job = j;
  if (sigsetjmp(jb, 1) == 0) {
    t_jmp = &jb;
    j->phase = "cbor_load";
    uint8_t* ex = vh_exact(j->in, j->n);
    j->item = cbor_load(ex, j->n, &j->res);
    free(ex);
    if (j->item) {
      j->phase = "cbor_serialized_size";
      j->ser_size = cbor_serialized_size(j->item);
      j->phase = "cbor_serialize";
      unsigned char* out = malloc(j->ser_size ? j->ser_size : 1);
      j->ser_written = cbor_serialize(j->item, out, j->ser_size);
      free(out);
      j->phase = "cbor_describe";
      /* cbor_describe indents by 4 x depth spaces per line, i.e. quadratic output: skipped for limits >= 65536 (minutes of printing zeros) */
      if (LIM < 65536) cbor_describe(j->item, devnull);
      j->phase = "cbor_copy";
      cbor_item_t* cp = cbor_copy(j->item);
      j->copy_ok = cp != NULL;
      j->phase = "cbor_decref (copy)";
      if (cp) cbor_decref(&cp);
      j->phase = "cbor_decref";
      cbor_decref(&j->item);
      j->phase = "done";
    }
  }
  t_jmp = NULL;
  ss.ss_flags = SS_DISABLE;
  sigaltstack(&ss, NULL);
  return NULL;
}

static size_t g_hwm;
static void run_job(struct job* j) {
  /* paint, run, measure */
  memset(g_stack_lo + 4096, 0xA7, g_stack_len - 4096);
  pthread_attr_t at;
  pthread_attr_init(&at);
  if (pthread_attr_setstack(&at, g_stack_lo + 4096, g_stack_len - 4096)) vh_die("pthread_attr_setstack failed");
  pthread_t th;
  if (pthread_create(&th, &at, job_thread, j)) vh_die("pthread_create failed");
  pthread_join(th, NULL);
  pthread_attr_destroy(&at);
  size_t used = 0;
  for (size_t i = 4096; i < g_stack_len; i++) if (g_stack_lo[i] != 0xA7) { used = g_stack_len - i; break; }
  if (used > g_hwm) g_hwm = used;
}

static const char* code_name(int c) {
  static const char* n[] = {"NONE", "NOTENOUGHDATA", "NODATA", "MALFORMATED", "MEMERROR", "SYNTAXERROR"};
  return c >= 0 && c <= 5 ? n[c] : "?";
}

/* descriptor: kind, leaf, u32 depth */
static void nest_case(int kind, int leaf, size_t depth) {
  uint8_t desc[6] = {(uint8_t)kind, (uint8_t)leaf, (uint8_t)(depth >> 24), (uint8_t)(depth >> 16), (uint8_t)(depth >> 8), (uint8_t)depth};
  if (!vh_case(desc, 6)) return;
  uint64_t case_hash = vh_hash_mix(vh_hash(desc, 6), (uint64_t)LIM * 2 + (O.flavour && strstr(O.flavour, "O0") ? 1 : 0));
  struct vh_buf x = {0};
  size_t* open_end = calloc(depth + 3, sizeof *open_end);
  gen_chain(kind, depth, leaf, &x, open_end);
  bool leaf_opens = leaf == 1 || leaf == 2 || (leaf >= 7 && leaf <= 10);
  size_t levels = depth + (leaf_opens ? 1 : 0);
  /* independent expectation */
  struct rverdict z = ref_decode(x.p, x.n, LIM, RM_LAZY, false, NULL);
  bool want_accept = levels <= LIM;
  if ((z.code == RC_ACCEPT) != want_accept || (!want_accept && (z.code != RC_MEMERROR || z.pos != open_end[LIM + 1])))
    vh_die("nest: generator and reference disagree for %s depth %zu leaf %d (ref %d@%zu)", chain_names[kind], depth, leaf, z.code, z.pos);
  struct job j;
  memset(&j, 0, sizeof j);
  j.in = x.p; j.n = x.n;
  ta_reset_stats();
  run_job(&j);
  char what[160];
  snprintf(what, sizeof what, "%s nesting, %zu open level(s)%s, limit %zu, %zu-byte input", chain_names[kind], levels, leaf == 1 ? " (chunked byte string innermost)" : leaf == 2 ? " (chunked text string innermost)" : leaf == 3 ? " (empty definite array innermost, which opens no level)" : leaf == 4 ? " (empty definite map innermost, which opens no level)" : leaf == 5 ? " (2 MiB byte string innermost)" : leaf == 6 ? " (2 MiB text string innermost)" : leaf == 7 ? " (chunked text with a 2 MiB chunk innermost)" : leaf == 8 ? " (definite array of 400000 members innermost)" : leaf == 9 ? " (definite map of 200000 pairs innermost)" : leaf == 10 ? " (indefinite array of 400000 members innermost)" : "", LIM, x.n);
  if (j.overflowed) {
    vh_violation("native-stack-exhausted", "%s: the %zu-byte thread stack (64 KiB + 512 B per level of the limit) overflowed during %s", what, g_stack_len - 4096, j.phase);
    /* the tree (if any) is abandoned: forget its blocks */
    ta_forget_all();
  } else if (want_accept) {
    if (strcmp(j.phase, "done")) vh_violation("within-limit-rejected", "%s: cbor_load failed with %s at %zu (allocator refusals: %llu)", what, code_name((int)j.res.error.code), j.res.error.position, (unsigned long long)TA.refused);
    else {
      if (j.res.read != x.n) vh_violation("read-differs", "%s: read=%zu", what, j.res.read);
      if (j.ser_size != x.n && kind != CH_TAG_WIDE) { /* canonical re-encoding has the same length for these chains */ vh_violation("serialized-size-differs", "%s: serialized size %zu", what, j.ser_size); }
      if (j.ser_written != j.ser_size) vh_violation("serialize-failed", "%s: cbor_serialize wrote %zu of %zu", what, j.ser_written, j.ser_size);
      if (!j.copy_ok) vh_violation("copy-failed", "%s: cbor_copy returned NULL without any refusal", what);
      VH_COUNT("accepted_at_or_below_limit", 1);
    }
  } else {
    if (j.item != NULL || !strcmp(j.phase, "done")) vh_violation("beyond-limit-accepted", "%s: input nesting one or more levels beyond the limit was decoded", what);
    else if (j.res.error.code != CBOR_ERR_MEMERROR) vh_violation("beyond-limit-wrong-code", "%s: rejected with %s at %zu, expected MEMERROR at %zu", what, code_name((int)j.res.error.code), j.res.error.position, open_end[LIM + 1]);
    else if (j.res.error.position != open_end[LIM + 1]) vh_violation("beyond-limit-wrong-position", "%s: MEMERROR at %zu, but the head that would open level %zu ends at %zu", what, j.res.error.position, LIM + 1, open_end[LIM + 1]);
    else VH_COUNT("rejected_beyond_limit", 1);
  }
  if (ta_live_count()) { vh_violation("leak", "%s: %zu block(s) left", what, ta_live_count()); ta_forget_all(); }
  VH_MAX("max_levels_tried", levels);
  if (vh_sampling()) vh_sample_text("%s -> %s", what, j.overflowed ? "STACK OVERFLOW" : j.item || !strcmp(j.phase, "done") ? "decoded, serialized, described, copied, released" : code_name((int)j.res.error.code));
  free(open_end);
  vb_free(&x);
  vh_nontrivial(case_hash);
}

/* Flat runs: more than L items side by side that never nest - empty containers in every head width, empty strings,
 * chunked strings and indefinite containers that open one level and close it again - bare (cbor_load takes the first),
 * or as the members of an indefinite or a definite array. The nesting never exceeds 2, so for L >= 2 everything is
 * accepted; a limit applied to anything other than the current depth (items seen, heads of one kind in a row, a
 * high-water mark that is never lowered) shows here. descriptor: 'F', unit, wrap, u32 count */
static const uint8_t flat_units[][9] = {{0x80}, {0x98, 0}, {0x99, 0, 0}, {0x9a, 0, 0, 0, 0}, {0x9b, 0, 0, 0, 0, 0, 0, 0, 0}, {0xa0}, {0xb8, 0}, {0xb9, 0, 0}, {0xbb, 0, 0, 0, 0, 0, 0, 0, 0}, {0x40}, {0x58, 0}, {0x60}, {0x78, 0},
                                        {0x5f, 0xff}, {0x7f, 0xff}, {0x9f, 0xff}, {0xbf, 0xff}, {0x81, 0x00}, {0xa1, 0x00, 0x00}, {0xc1, 0x00}, {0xd8, 0x18, 0x40}, {0x9f, 0x80, 0xff}};
static const uint8_t flat_len[] = {1, 2, 3, 5, 9, 1, 2, 3, 9, 1, 2, 1, 2, 2, 2, 2, 2, 2, 3, 2, 3, 3};
enum { FLAT_N = sizeof flat_len };
static void flat_case(int unit, int wrap, size_t count) {
  uint8_t desc[7] = {'F', (uint8_t)unit, (uint8_t)wrap, (uint8_t)(count >> 24), (uint8_t)(count >> 16), (uint8_t)(count >> 8), (uint8_t)count};
  if (!vh_case(desc, 7)) return;
  struct vh_buf x = {0};
  if (wrap == 1) vb_u8(&x, 0x9f);
  else if (wrap == 2) { vb_u8(&x, 0x9a); vb_be(&x, count, 4); }
  for (size_t i = 0; i < count; i++) vb_put(&x, flat_units[unit], flat_len[unit]);
  if (wrap == 1) vb_u8(&x, 0xff);
  struct rverdict z = ref_decode(x.p, x.n, LIM, RM_LAZY, false, NULL);
  if (z.tree) rn_free(z.tree);
  struct job j;
  memset(&j, 0, sizeof j);
  j.in = x.p; j.n = x.n;
  ta_reset_stats();
  run_job(&j);
  char what[200];
  snprintf(what, sizeof what, "%zu x %s side by side%s, limit %zu", count, vh_hex(flat_units[unit], flat_len[unit], 9), wrap == 1 ? " as the members of an indefinite array" : wrap == 2 ? " as the members of a definite array" : " (the first is the item, the rest trails)", LIM);
  bool done = !strcmp(j.phase, "done");
  if (j.overflowed) { vh_violation("native-stack-exhausted", "%s: the thread stack overflowed during %s", what, j.phase); ta_forget_all(); }
  else if (z.code == RC_ACCEPT) {
    if (!done) vh_violation("within-limit-rejected", "%s: nesting never exceeds %d, yet cbor_load failed with %s at %zu (allocator refusals: %llu)", what, wrap ? 2 : 1, code_name((int)j.res.error.code), j.res.error.position, (unsigned long long)TA.refused);
    else if (j.res.read != z.read) vh_violation("read-differs", "%s: read=%zu, the first item occupies %zu", what, j.res.read, z.read);
    else if (!j.copy_ok) vh_violation("copy-failed", "%s: cbor_copy returned NULL without any refusal", what);
    else VH_COUNT("flat_runs_accepted", 1);
  } else if (z.code == RC_MEMERROR) { /* only for limits below 2 */
    if (done || j.res.error.code != CBOR_ERR_MEMERROR || j.res.error.position != z.pos) vh_violation("beyond-limit-wrong-position", "%s: expected MEMERROR at %zu, got %s at %zu", what, z.pos, done ? "an item" : code_name((int)j.res.error.code), j.res.error.position);
    else VH_COUNT("flat_runs_rejected_beyond_limit", 1);
  } else vh_die("flat run: the reference rejects a well-formed input (%d at %zu)", z.code, z.pos);
  if (ta_live_count()) { vh_violation("leak", "%s: %zu block(s) left", what, ta_live_count()); ta_forget_all(); }
  vb_free(&x);
  vh_nontrivial(vh_hash_mix(vh_hash(desc, 7), LIM));
}

static void nest_setup(void) {
  if (strcmp(O.prop, "C19")) vh_die("driver nest: --prop must be C19");
  LIM = (size_t)O.L;
  if (LIM != (size_t)VH_L) vh_die("driver nest: binary built for L=%d but --L %zu given", VH_L, LIM);
  ref_selftest();
  ta_install();
  devnull = fopen("/dev/null", "w");
  g_stack_len = 4096 + 65536 + 512 * LIM;
  g_stack_len = (g_stack_len + 4095) & ~(size_t)4095;
  g_stack_lo = mmap(NULL, g_stack_len, PROT_READ | PROT_WRITE, MAP_PRIVATE | MAP_ANONYMOUS, -1, 0);
  if (g_stack_lo == MAP_FAILED) vh_die("mmap stack failed");
  if (mprotect(g_stack_lo, 4096, PROT_NONE)) vh_die("mprotect guard failed");
  struct sigaction sa;
  memset(&sa, 0, sizeof sa);
  sa.sa_sigaction = on_segv;
  sa.sa_flags = SA_SIGINFO | SA_ONSTACK | SA_NODEFER;
  sigaction(SIGSEGV, &sa, NULL);
  /* positive control: the boundary really is this build's limit (an L+1 chain must be refused, an L chain accepted) is what the cases check;
   * here: the overflow detector must fire on deliberate deep recursion */
}

static void nest_run(void) {
  nest_setup();
  size_t depths[8];
  size_t nd = 0;
  if (LIM >= 2) depths[nd++] = LIM - 1;
  depths[nd++] = LIM; depths[nd++] = LIM + 1; depths[nd++] = LIM + 2; depths[nd++] = 4 * LIM;
  if (LIM > 1) depths[nd++] = 1;
  if (O.thorough) { depths[nd++] = 64 * LIM; depths[nd++] = 2 * LIM + 1; }
  if (LIM >= 65536) { /* very large limits: only the boundary itself (a 16- or 32-bit depth counter must not wrap) */
    nd = 0; depths[nd++] = LIM; depths[nd++] = LIM + 1; if (O.thorough) depths[nd++] = LIM - 1;
  }
  int unit = 0;
  for (int kind = 0; kind < CH_NKINDS; kind++)
    for (int leaf = 0; leaf < 5; leaf++)
      for (size_t di = 0; di < nd; di++, unit++) {
        if (LIM >= 65536 && !O.thorough && (leaf == 2 || leaf == 4 || kind == CH_TAG_WIDE || kind == CH_INDEFMAP_KEY || kind == CH_DEFMAP_KEY)) continue;
        if (unit % O.nshards != O.shard) continue;
        if (kind == CH_DEEP_THEN_SIBLING && (LIM < 2 || depths[di] < 2)) continue; /* the sibling container itself opens level 2 */
        size_t depth = depths[di];
        /* with a chunked string innermost the containers supply depth-1 levels */
        if ((leaf == 1 || leaf == 2) && depth > 0) depth -= 1;
        nest_case(kind, leaf, depth);
      }
  /* heavy leaves: the stack bound is in L, not in the size of a node — strings of 2 MiB and containers of 400000 members
   * (each larger than the whole stack budget for L <= 2048) at shallow depth, where describe's indentation stays cheap */
  if (LIM <= 2048) {
    static const int hkinds[] = {CH_TAG, CH_DEFARR, CH_INDEFMAP_VAL};
    static const size_t hdepths[] = {0, 1, 3};
    for (size_t k = 0; k < 3; k++)
      for (int leaf = 5; leaf <= 10; leaf++)
        for (size_t di = 0; di < 3; di++, unit++) {
          if (unit % O.nshards != O.shard) continue;
          if (hdepths[di] == 0 && k > 0) continue; /* depth 0 is the bare leaf whatever the pattern */
          nest_case(hkinds[k], leaf, hdepths[di]);
          VH_COUNT("heavy_leaf_cases", 1);
        }
  }
  /* flat runs of L-1 .. 2L+3 items that never nest */
  {
    size_t counts[6]; size_t nc = 0;
    if (LIM >= 2) counts[nc++] = LIM - 1;
    counts[nc++] = LIM; counts[nc++] = LIM + 1; counts[nc++] = LIM + 2; counts[nc++] = 2 * LIM + 3;
    if (LIM < 1000) counts[nc++] = 5000;
    for (int u = 0; u < FLAT_N; u++)
      for (int wrap = 0; wrap < 3; wrap++)
        for (size_t ci = 0; ci < nc; ci++, unit++) {
          if (unit % O.nshards != O.shard) continue;
          if (LIM >= 65536 && !O.thorough && (ci == 0 || ci == 3 || (u % 3) != 1)) continue;
          if (counts[ci] == 0 && wrap == 0) continue; /* the empty input is not an item */
          flat_case(u, wrap, counts[ci]);
        }
  }
  vh_count_dyn("max_stack_high_water_bytes", g_hwm);
  vh_count_dyn("max_stack_budget_bytes", g_stack_len - 4096);
  vh_set_rule("each case is a nesting chain (one of 9 container patterns x scalar / chunked-bytes / chunked-text / empty definite array / empty definite map innermost, plus 2 MiB strings and 400000-member containers innermost at depths 0, 1, 3) of a given depth, decoded, sized, serialized, described, copied and released on a thread with a fixed pre-painted stack; outcome and MEMERROR position are compared with the generator's bookkeeping and the reference decoder; every case non-trivial; distinct by (pattern, leaf, depth, L, optimisation level)");
  vh_set_exhaustive(false);
}
static void nest_exec(const uint8_t* d, size_t n) {
  nest_setup();
  if (n == 7 && d[0] == 'F') { flat_case(d[1], d[2], (size_t)d[3] << 24 | (size_t)d[4] << 16 | (size_t)d[5] << 8 | d[6]); return; }
  if (n != 6) { printf("bad C19 descriptor\n"); return; }
  nest_case(d[0], d[1], (size_t)d[2] << 24 | (size_t)d[3] << 16 | (size_t)d[4] << 8 | d[5]);
}
const struct vh_driver drv_nest = {"nest", nest_run, nest_exec, "nesting limit exactness and bounded native stack (C19)"};
