/* vh_main.c — supervisor, shared state, breadcrumbs, result JSON, utilities. */
#define _GNU_SOURCE
#include <errno.h>
#include <fenv.h>
#include <fcntl.h>
#include <signal.h>
#include <stdarg.h>
#include <sys/mman.h>
#include <sys/stat.h>
#include <sys/time.h>
#include <sys/wait.h>
#include <time.h>
#include <unistd.h>

#include "vh.h"

struct vh_opts O;

/* ------------------------------------------------------------ shared state */
#define MAX_COUNTERS 384
#define NAME_LEN 64
#define MAX_VIOL 64
#define VIOL_DESC 131072
#define VIOL_MSG 2048
#define MAX_SAMPLES 12
#define SAMPLE_DESC 160
#define SAMPLE_TEXT 400
#define HSET_BITS 23
#define HSET_CAP (1u << HSET_BITS)
#define CRUMB_MAX 131072
#define MAX_NOTES 24

struct viol {
  char key[96];
  char msg[VIOL_MSG];
  uint32_t desc_len;   /* true length */
  uint32_t desc_kept;
  uint8_t desc[VIOL_DESC];
  uint64_t case_no;
};
struct sample {
  uint32_t len, kept;
  uint8_t desc[SAMPLE_DESC];
  char text[SAMPLE_TEXT];
  uint64_t case_no;
};
struct shared {
  uint64_t counters[MAX_COUNTERS];
  char names[MAX_COUNTERS][NAME_LEN];
  int ncounters;
  uint64_t evaluations, nontrivial_by_construction, hset_count, hset_overflow;
  uint64_t viol_total;
  int nviol;
  struct viol viol[MAX_VIOL];
  int nsamples;
  uint64_t sample_seen;
  struct sample samples[MAX_SAMPLES];
  char rule[1024];
  int exhaustive; /* -1 unset */
  int nnotes;
  char note_key[MAX_NOTES][48];
  char note_val[MAX_NOTES][512];
  /* breadcrumb */
  volatile uint64_t crumb_case_no;
  volatile uint32_t crumb_len;
  uint8_t crumb[CRUMB_MAX];
  int done;         /* child finished the driver normally */
  int machinery;    /* machinery failure flagged by child */
  char machinery_msg[512];
  uint64_t hset[HSET_CAP];
};
static struct shared* S;
uint64_t* vh_counters;

static uint64_t g_case_no;       /* cases announced so far in this child */
static uint64_t g_resume_after;  /* skip cases with number <= this (if g_resuming) */
static int g_resuming;
static int g_cur_sample = -1;
static struct vh_rng g_sample_rng;
static int g_is_child;
static char g_errpath[4096];
const char* vh_errpath(void) { return g_errpath; }

int vh_counter_id(const char* name) {
  for (int i = 0; i < S->ncounters; i++)
    if (strcmp(S->names[i], name) == 0) return i;
  if (S->ncounters >= MAX_COUNTERS) vh_die("too many counters");
  int i = S->ncounters++;
  snprintf(S->names[i], NAME_LEN, "%s", name);
  return i;
}
void vh_count_dyn(const char* name, uint64_t inc) { S->counters[vh_counter_id(name)] += inc; }

uint64_t vh_hash_mix(uint64_t h, uint64_t v) {
  h ^= v + 0x9e3779b97f4a7c15ull + (h << 6) + (h >> 2);
  h *= 0xff51afd7ed558ccdull;
  h ^= h >> 33;
  return h;
}
uint64_t vh_hash(const void* p, size_t n) {
  const uint8_t* b = p;
  uint64_t h = 0xcbf29ce484222325ull ^ (n * 0x100000001b3ull);
  size_t i = 0;
  for (; i + 8 <= n; i += 8) {
    uint64_t w;
    memcpy(&w, b + i, 8);
    h = vh_hash_mix(h, w);
  }
  uint64_t w = 0;
  for (size_t j = 0; i + j < n; j++) w |= (uint64_t)b[i + j] << (8 * j);
  h = vh_hash_mix(h, w ^ 0xabcdef);
  return h;
}

void vh_rng_seed(struct vh_rng* r, uint64_t seed) {
  uint64_t z = seed + 0x9e3779b97f4a7c15ull;
  for (int i = 0; i < 4; i++) {
    z += 0x9e3779b97f4a7c15ull;
    uint64_t x = z;
    x = (x ^ (x >> 30)) * 0xbf58476d1ce4e5b9ull;
    x = (x ^ (x >> 27)) * 0x94d049bb133111ebull;
    r->s[i] = x ^ (x >> 31);
  }
}
static inline uint64_t rotl(uint64_t x, int k) { return (x << k) | (x >> (64 - k)); }
uint64_t vh_rand(struct vh_rng* r) {
  uint64_t* s = r->s;
  uint64_t result = rotl(s[1] * 5, 7) * 9, t = s[1] << 17;
  s[2] ^= s[0]; s[3] ^= s[1]; s[1] ^= s[2]; s[0] ^= s[3];
  s[2] ^= t; s[3] = rotl(s[3], 45);
  return result;
}

/* One lazily mapped region of 2^33 + 2 MiB (MAP_NORESERVE: only touched pages cost memory) for the cases where the
 * caller's buffer itself is larger than 4 GiB. */
uint8_t* vh_huge_region(size_t* len) {
  static uint8_t* base;
  static const size_t L = ((size_t)1 << 33) + ((size_t)2 << 20);
  if (!base) {
    base = mmap(NULL, L, PROT_READ | PROT_WRITE, MAP_PRIVATE | MAP_ANONYMOUS | MAP_NORESERVE, -1, 0);
    if (base == MAP_FAILED) { base = NULL; return NULL; }
  }
  if (len) *len = L;
  return base;
}

void vh_ambient_scramble(uint64_t k) {
  static const int errs[] = {0, ERANGE, EDOM, ENOMEM, EINVAL, EINTR, EILSEQ, EOVERFLOW};
  static const int rounds[] = {FE_TONEAREST, FE_UPWARD, FE_DOWNWARD, FE_TOWARDZERO};
  fesetround(rounds[(k >> 3) & 3]);
#if defined(__x86_64__) || defined(__i386__)
  { /* flush-to-zero / denormals-are-zero: the start-up state of anything linked with -ffast-math */
    unsigned csr = __builtin_ia32_stmxcsr() & ~0x8040u;
    unsigned sel = (unsigned)(k >> 5) & 3;
    if (sel & 1) csr |= 0x8000u; /* FTZ */
    if (sel & 2) csr |= 0x0040u; /* DAZ */
    __builtin_ia32_ldmxcsr(csr);
  }
#endif
  errno = errs[k & 7];
}
void vh_ambient_restore(void) {
  fesetround(FE_TONEAREST);
#if defined(__x86_64__) || defined(__i386__)
  __builtin_ia32_ldmxcsr(__builtin_ia32_stmxcsr() & ~0x8040u);
#endif
  errno = 0;
}

uint8_t* vh_exact(const uint8_t* p, size_t n) {
  uint8_t* q = malloc(n);
  if (!q && n) vh_die("out of memory in vh_exact(%zu)", n);
  if (n) memcpy(q, p, n);
  return q;
}

/* The same, starting k bytes into the block: the end still coincides with the end of the block (red zone), the start has
 * the alignment the caller chose. malloc alone only ever yields 16-byte aligned starts. Free *base, not the result. */
uint8_t* vh_exact_mis(const uint8_t* p, size_t n, unsigned k, void** base) {
  uint8_t* q = malloc(n + k);
  if (!q) vh_die("out of memory in vh_exact_mis(%zu)", n);
  *base = q;
  if (n) memcpy(q + k, p, n);
  return q + k;
}

void vb_reserve(struct vh_buf* b, size_t extra) {
  if (b->n + extra <= b->cap) return;
  size_t nc = b->cap ? b->cap * 2 : 256;
  while (nc < b->n + extra) nc *= 2;
  b->p = realloc(b->p, nc);
  if (!b->p) vh_die("out of memory in vb_reserve");
  b->cap = nc;
}
void vb_put(struct vh_buf* b, const void* p, size_t n) {
  if (!n) return;
  vb_reserve(b, n);
  memcpy(b->p + b->n, p, n);
  b->n += n;
}
void vb_u8(struct vh_buf* b, uint8_t v) { vb_put(b, &v, 1); }
void vb_u64(struct vh_buf* b, uint64_t v) { vb_put(b, &v, 8); }
void vb_be(struct vh_buf* b, uint64_t v, int nbytes) {
  for (int i = nbytes - 1; i >= 0; i--) vb_u8(b, (uint8_t)(v >> (8 * i)));
}
void vb_printf(struct vh_buf* b, const char* fmt, ...) {
  char tmp[1024];
  va_list ap;
  va_start(ap, fmt);
  int k = vsnprintf(tmp, sizeof tmp, fmt, ap);
  va_end(ap);
  if (k < 0) return;
  if ((size_t)k >= sizeof tmp) k = sizeof tmp - 1;
  vb_put(b, tmp, (size_t)k);
}
void vb_reset(struct vh_buf* b) { b->n = 0; }
void vb_free(struct vh_buf* b) { free(b->p); b->p = NULL; b->n = b->cap = 0; }

char* vh_hex(const uint8_t* p, size_t n, size_t maxbytes) {
  static char ring[8][2 * 600 + 32];
  static int ri;
  char* out = ring[ri++ & 7];
  if (maxbytes > 600) maxbytes = 600;
  size_t k = n < maxbytes ? n : maxbytes;
  for (size_t i = 0; i < k; i++) sprintf(out + 2 * i, "%02x", p[i]);
  out[2 * k] = 0;
  if (k < n) sprintf(out + 2 * k, "...(+%zu)", n - k);
  return out;
}
size_t vh_unhex(const char* s, uint8_t** out) {
  size_t n = strlen(s) / 2;
  uint8_t* p = malloc(n ? n : 1);
  for (size_t i = 0; i < n; i++) {
    unsigned v = 0;
    sscanf(s + 2 * i, "%2x", &v);
    p[i] = (uint8_t)v;
  }
  *out = p;
  return n;
}

void vh_die(const char* fmt, ...) {
  char msg[512];
  va_list ap;
  va_start(ap, fmt);
  vsnprintf(msg, sizeof msg, fmt, ap);
  va_end(ap);
  fprintf(stderr, "vh: MACHINERY FAILURE: %s\n", msg);
  if (S) {
    S->machinery = 1;
    snprintf(S->machinery_msg, sizeof S->machinery_msg, "%s", msg);
  }
  _exit(2);
}

void vh_set_rule(const char* rule) { snprintf(S->rule, sizeof S->rule, "%s", rule); }
void vh_set_exhaustive(bool b) { S->exhaustive = b ? 1 : 0; }
void vh_note(const char* key, const char* fmt, ...) {
  int i;
  for (i = 0; i < S->nnotes; i++)
    if (!strcmp(S->note_key[i], key)) break;
  if (i == S->nnotes) {
    if (S->nnotes >= MAX_NOTES) return;
    S->nnotes++;
    snprintf(S->note_key[i], sizeof S->note_key[i], "%s", key);
  }
  va_list ap;
  va_start(ap, fmt);
  vsnprintf(S->note_val[i], sizeof S->note_val[i], fmt, ap);
  va_end(ap);
}

static void crumb_write(const uint8_t* desc, size_t n) {
  size_t k = n < CRUMB_MAX ? n : CRUMB_MAX;
  S->crumb_len = 0;
  __sync_synchronize();
  memcpy(S->crumb, desc, k);
  S->crumb_case_no = g_case_no;
  __sync_synchronize();
  S->crumb_len = (uint32_t)n;
}

bool vh_case(const uint8_t* desc, size_t n) {
  g_case_no++;
  g_cur_sample = -1;
  if (g_resuming) {
    if (g_case_no <= g_resume_after) return false;
    g_resuming = 0;
  }
  crumb_write(desc, n);
  S->evaluations++;
  /* sampling: first 4 cases, then reservoir over the remaining slots */
  uint64_t seen = S->sample_seen++;
  int slot = -1;
  if (S->nsamples < 4) slot = S->nsamples++;
  else if (S->nsamples < MAX_SAMPLES) {
    /* fill the reservoir sparsely so early cases do not dominate */
    if ((seen & (seen - 1)) == 0 || vh_below(&g_sample_rng, 1000) == 0) slot = S->nsamples++;
  } else {
    uint64_t j = vh_below(&g_sample_rng, seen + 1);
    if (j < MAX_SAMPLES - 4 && vh_below(&g_sample_rng, 64) == 0) slot = 4 + (int)j;
  }
  if (slot >= 0) {
    struct sample* s = &S->samples[slot];
    s->len = (uint32_t)n;
    s->kept = (uint32_t)(n < SAMPLE_DESC ? n : SAMPLE_DESC);
    memcpy(s->desc, desc, s->kept);
    s->text[0] = 0;
    s->case_no = g_case_no;
    g_cur_sample = slot;
  }
  return true;
}
bool vh_sampling(void) { return g_cur_sample >= 0 || O.replay_hex != NULL; }
void vh_sample_text(const char* fmt, ...) {
  va_list ap;
  va_start(ap, fmt);
  if (g_cur_sample >= 0) vsnprintf(S->samples[g_cur_sample].text, SAMPLE_TEXT, fmt, ap);
  else if (O.replay_hex) { vprintf(fmt, ap); printf("\n"); }
  va_end(ap);
}

void vh_nontrivial(uint64_t h) {
  if (h == 0) h = 1;
  uint32_t i = (uint32_t)(h >> (64 - HSET_BITS));
  for (uint32_t probe = 0; probe < 64; probe++) {
    uint64_t v = S->hset[i];
    if (v == h) return;
    if (v == 0) {
      if (S->hset_count >= HSET_CAP / 2) { S->hset_overflow++; return; }
      S->hset[i] = h;
      S->hset_count++;
      return;
    }
    i = (i + 1) & (HSET_CAP - 1);
  }
  S->hset_overflow++;
}
void vh_nontrivial_distinct(void) { S->nontrivial_by_construction++; }

uint64_t vh_violation_count(void) { return S->viol_total; }
void vh_violation(const char* key, const char* fmt, ...) {
  S->viol_total++;
  char cname[NAME_LEN];
  snprintf(cname, sizeof cname, "violations.%s", key);
  vh_count_dyn(cname, 1);
  if (O.replay_hex || O.verbose) {
    va_list ap;
    va_start(ap, fmt);
    printf("MONITOR VIOLATION [%s]: ", key);
    vprintf(fmt, ap);
    printf("\n");
    va_end(ap);
  }
  /* keep at most 4 witnesses per key */
  int same = 0;
  for (int i = 0; i < S->nviol; i++)
    if (!strcmp(S->viol[i].key, key)) same++;
  if (same >= 4 || S->nviol >= MAX_VIOL) return;
  struct viol* v = &S->viol[S->nviol];
  snprintf(v->key, sizeof v->key, "%s", key);
  va_list ap;
  va_start(ap, fmt);
  vsnprintf(v->msg, sizeof v->msg, fmt, ap);
  va_end(ap);
  v->desc_len = S->crumb_len;
  v->desc_kept = v->desc_len < VIOL_DESC ? v->desc_len : VIOL_DESC;
  memcpy(v->desc, S->crumb, v->desc_kept);
  v->case_no = g_case_no;
  __sync_synchronize();
  S->nviol++;
}

/* --------------------------------------------------------------- JSON out */
static void js_str(FILE* f, const char* s) {
  fputc('"', f);
  for (; *s; s++) {
    unsigned char c = (unsigned char)*s;
    if (c == '"' || c == '\\') fprintf(f, "\\%c", c);
    else if (c == '\n') fputs("\\n", f);
    else if (c == '\t') fputs("\\t", f);
    else if (c < 0x20 || c >= 0x7f) fprintf(f, "\\u%04x", c);
    else fputc(c, f);
  }
  fputc('"', f);
}
static void js_hex(FILE* f, const uint8_t* p, size_t n) {
  fputc('"', f);
  for (size_t i = 0; i < n; i++) fprintf(f, "%02x", p[i]);
  fputc('"', f);
}

static void write_result(double wall, int restarts, const char* status) {
  char tmp[4096];
  snprintf(tmp, sizeof tmp, "%s.tmp", O.out);
  FILE* f = fopen(tmp, "w");
  if (!f) { perror("result"); _exit(2); }
  fprintf(f, "{\n \"driver\": "); js_str(f, O.driver);
  fprintf(f, ",\n \"prop\": "); js_str(f, O.prop ? O.prop : "");
  fprintf(f, ",\n \"stage\": "); js_str(f, O.stage ? O.stage : "");
  fprintf(f, ",\n \"flavour\": "); js_str(f, O.flavour ? O.flavour : "");
  fprintf(f, ",\n \"status\": "); js_str(f, status);
  fprintf(f, ",\n \"shard\": %d, \"nshards\": %d, \"seed\": %llu, \"thorough\": %d", O.shard, O.nshards,
          (unsigned long long)O.seed, O.thorough);
  fprintf(f, ",\n \"wall_s\": %.3f, \"restarts\": %d", wall, restarts);
  fprintf(f, ",\n \"evaluations\": %llu", (unsigned long long)S->evaluations);
  fprintf(f, ",\n \"nontrivial_by_construction\": %llu", (unsigned long long)S->nontrivial_by_construction);
  fprintf(f, ",\n \"nontrivial_hashed\": %llu, \"hash_overflow\": %llu", (unsigned long long)S->hset_count,
          (unsigned long long)S->hset_overflow);
  fprintf(f, ",\n \"exhaustive\": %s", S->exhaustive == 1 ? "true" : S->exhaustive == 0 ? "false" : "null");
  fprintf(f, ",\n \"rule\": "); js_str(f, S->rule);
  fprintf(f, ",\n \"machinery_failure\": %s", S->machinery ? "true" : "false");
  fprintf(f, ",\n \"machinery_msg\": "); js_str(f, S->machinery_msg);
  fprintf(f, ",\n \"counters\": {");
  for (int i = 0; i < S->ncounters; i++) {
    fprintf(f, "%s\n  ", i ? "," : "");
    js_str(f, S->names[i]);
    fprintf(f, ": %llu", (unsigned long long)S->counters[i]);
  }
  fprintf(f, "\n },\n \"notes\": {");
  for (int i = 0; i < S->nnotes; i++) {
    fprintf(f, "%s\n  ", i ? "," : "");
    js_str(f, S->note_key[i]); fputs(": ", f); js_str(f, S->note_val[i]);
  }
  fprintf(f, "\n },\n \"samples\": [");
  for (int i = 0; i < S->nsamples; i++) {
    struct sample* s = &S->samples[i];
    fprintf(f, "%s\n  {\"case_no\": %llu, \"len\": %u, \"desc\": ", i ? "," : "", (unsigned long long)s->case_no, s->len);
    js_hex(f, s->desc, s->kept);
    fprintf(f, ", \"text\": "); js_str(f, s->text);
    fprintf(f, "}");
  }
  fprintf(f, "\n ],\n \"violations_total\": %llu,\n \"violations\": [", (unsigned long long)S->viol_total);
  for (int i = 0; i < S->nviol; i++) {
    struct viol* v = &S->viol[i];
    fprintf(f, "%s\n  {\"key\": ", i ? "," : ""); js_str(f, v->key);
    fprintf(f, ", \"msg\": "); js_str(f, v->msg);
    fprintf(f, ", \"case_no\": %llu, \"desc_len\": %u, \"desc\": ", (unsigned long long)v->case_no, v->desc_len);
    js_hex(f, v->desc, v->desc_kept);
    fprintf(f, "}");
  }
  fprintf(f, "\n ]\n}\n");
  fclose(f);
  rename(tmp, O.out);
  /* distinct-hash file for cross-shard union */
  if (S->hset_count) {
    snprintf(tmp, sizeof tmp, "%s.hashes", O.out);
    FILE* h = fopen(tmp, "wb");
    if (h) {
      for (uint32_t i = 0; i < HSET_CAP; i++)
        if (S->hset[i]) fwrite(&S->hset[i], 8, 1, h);
      fclose(h);
    }
  }
}

/* ------------------------------------------------------------- supervisor */
static double now_s(void) {
  struct timespec ts;
  clock_gettime(CLOCK_MONOTONIC, &ts);
  return ts.tv_sec + ts.tv_nsec * 1e-9;
}

static const struct vh_driver* find_driver(const char* name) {
  for (int i = 0; vh_drivers[i]; i++)
    if (!strcmp(vh_drivers[i]->name, name)) return vh_drivers[i];
  return NULL;
}

static void read_tail(const char* path, char* out, size_t cap) {
  out[0] = 0;
  FILE* f = fopen(path, "r");
  if (!f) return;
  /* keep the interesting lines: sanitizer ERROR/SUMMARY, assertion text, first frames */
  char line[1024];
  size_t used = 0;
  int frames = 0;
  while (fgets(line, sizeof line, f)) {
    int keep = 0;
    if (strstr(line, "ERROR:") || strstr(line, "SUMMARY:") || strstr(line, "runtime error") ||
        strstr(line, "Assertion") || strstr(line, "WARNING: ThreadSanitizer") || strstr(line, "free():") ||
        strstr(line, "malloc():") || strstr(line, "corrupted") || strstr(line, "vh:"))
      keep = 1;
    else if (strstr(line, "    #") && frames < 10) { keep = 1; frames++; }
    if (keep) {
      size_t l = strlen(line);
      if (used + l + 1 >= cap) break;
      memcpy(out + used, line, l);
      used += l;
      out[used] = 0;
    }
  }
  fclose(f);
}

/* classify a dead child into a stable key */
static void crash_key(int status, const char* errtxt, char* key, size_t cap) {
  const char* what = "crash";
  char detail[96] = "";
  const char* p;
  if (strstr(errtxt, "Assertion")) {
    what = "assert";
    /* name the assertion: file:line */
    const char* q = strstr(errtxt, "/src/");
    if (q) { sscanf(q + 5, "%80[^: ]", detail); const char* c = strchr(q, ':'); if (c) { size_t l = strlen(detail); snprintf(detail + l, sizeof detail - l, ":%d", atoi(c + 1)); } }
  } else if ((p = strstr(errtxt, "AddressSanitizer: "))) {
    sscanf(p + 18, "%80[^ \n]", detail);
    what = "asan";
  } else if ((p = strstr(errtxt, "runtime error: "))) {
    /* UBSan: take the first words of the message */
    snprintf(detail, sizeof detail, "%.60s", p + 15);
    for (char* q = detail; *q; q++)
      if (*q == '\n') { *q = 0; break; } else if (*q == ' ') *q = '-';
    what = "ubsan";
  } else if (strstr(errtxt, "free():") || strstr(errtxt, "malloc():") || strstr(errtxt, "corrupted")) {
    what = "glibc-heap-abort";
  } else if (strstr(errtxt, "ThreadSanitizer")) {
    what = "tsan";
  }
  if (WIFSIGNALED(status)) snprintf(key, cap, "%s%s%s-sig%d", what, detail[0] ? ":" : "", detail, WTERMSIG(status));
  else snprintf(key, cap, "%s%s%s-exit%d", what, detail[0] ? ":" : "", detail, WEXITSTATUS(status));
}

static void add_crash_violation(const char* key, const char* msg, uint64_t case_no) {
  S->viol_total++;
  char cname[NAME_LEN];
  snprintf(cname, sizeof cname, "violations.%.40s", key);
  vh_count_dyn(cname, 1);
  if (S->nviol >= MAX_VIOL) return;
  struct viol* v = &S->viol[S->nviol];
  snprintf(v->key, sizeof v->key, "%s", key);
  snprintf(v->msg, sizeof v->msg, "%s", msg);
  v->desc_len = S->crumb_len;
  v->desc_kept = v->desc_len < VIOL_DESC ? v->desc_len : VIOL_DESC;
  memcpy(v->desc, S->crumb, v->desc_kept);
  v->case_no = case_no;
  S->nviol++;
}

static void child_main(const struct vh_driver* d, uint64_t resume_after, int resuming, const char* errpath) {
  g_is_child = 1;
  snprintf(g_errpath, sizeof g_errpath, "%s", errpath);
  int fd = open(errpath, O_WRONLY | O_CREAT | O_TRUNC, 0644);
  if (fd >= 0) { dup2(fd, 2); close(fd); }
  g_case_no = 0;
  g_resume_after = resume_after;
  g_resuming = resuming;
  vh_rng_seed(&g_sample_rng, O.seed ^ 0x5a5a5a5a ^ (uint64_t)O.shard);
  d->run();
  S->done = 1;
  fflush(NULL);
#ifdef VH_COV
  { extern void __gcov_dump(void); __gcov_dump(); }
#endif
  _exit(0);
}

static void usage(void) {
  fprintf(stderr, "usage: vh <driver> [--prop ID] [--stage S] [--tier quick|thorough] [--seed N] [--shard i --nshards n]\n"
                  "          [--budget N] [--budget2 N] [--out FILE] [--replay HEX] [--hang-secs N] [--flavour F] [--L N]\n"
                  "       vh merge-hashes FILE...   (prints the size of the union)\ndrivers:\n");
  for (int i = 0; vh_drivers[i]; i++) fprintf(stderr, "  %-10s %s\n", vh_drivers[i]->name, vh_drivers[i]->help);
}

static int cmp_u64(const void* a, const void* b) {
  uint64_t x = *(const uint64_t*)a, y = *(const uint64_t*)b;
  return x < y ? -1 : x > y;
}
static int merge_hashes(int argc, char** argv) {
  size_t cap = 1 << 20, n = 0;
  uint64_t* all = malloc(cap * 8);
  for (int i = 0; i < argc; i++) {
    FILE* f = fopen(argv[i], "rb");
    if (!f) continue;
    uint64_t v;
    while (fread(&v, 8, 1, f) == 1) {
      if (n == cap) { cap *= 2; all = realloc(all, cap * 8); }
      all[n++] = v;
    }
    fclose(f);
  }
  qsort(all, n, 8, cmp_u64);
  size_t u = 0;
  for (size_t i = 0; i < n; i++)
    if (i == 0 || all[i] != all[i - 1]) u++;
  printf("%zu\n", u);
  free(all);
  return 0;
}

/* CPU seconds consumed so far by process `pid` (all its threads) and its scheduler state, from /proc. The watchdog's
 * wall-clock period says nothing on a loaded machine: "no progress" counts as a hang only if the child burned CPU for
 * most of that period (a loop that does not end) or slept through it (blocked); a child that was runnable but got little
 * CPU is being starved, and the period starts again. */
static double child_cpu(pid_t pid, char* state) {
  char path[64], buf[1024];
  snprintf(path, sizeof path, "/proc/%d/stat", (int)pid);
  FILE* f = fopen(path, "r");
  *state = '?';
  if (!f) return -1;
  size_t n = fread(buf, 1, sizeof buf - 1, f);
  fclose(f);
  buf[n] = 0;
  char* rp = strrchr(buf, ')');
  unsigned long long ut = 0, st = 0;
  if (!rp || sscanf(rp + 2, "%c %*d %*d %*d %*d %*d %*u %*u %*u %*u %*u %llu %llu", state, &ut, &st) != 3) return -1;
  return (double)(ut + st) / (double)sysconf(_SC_CLK_TCK);
}

int main(int argc, char** argv) {
  if (argc < 2) { usage(); return 2; }
  if (!strcmp(argv[1], "merge-hashes")) return merge_hashes(argc - 2, argv + 2);
  memset(&O, 0, sizeof O);
  O.driver = argv[1];
  O.nshards = 1;
  O.seed = 1;
  O.hang_secs = 600;
  O.L = 2048;
  const char* tier = getenv("VERIF_TIER");
  if (tier && !strcmp(tier, "thorough")) O.thorough = 1;
  for (int i = 2; i < argc; i++) {
    const char* a = argv[i];
    const char* v = i + 1 < argc ? argv[i + 1] : NULL;
#define ARG(name) (!strcmp(a, name) && v && (i++, 1))
    if (ARG("--prop")) O.prop = v;
    else if (ARG("--stage")) O.stage = v;
    else if (ARG("--tier")) O.thorough = !strcmp(v, "thorough");
    else if (ARG("--seed")) O.seed = strtoull(v, NULL, 0);
    else if (ARG("--shard")) O.shard = atoi(v);
    else if (ARG("--nshards")) O.nshards = atoi(v);
    else if (ARG("--budget")) O.budget = strtoull(v, NULL, 0);
    else if (ARG("--budget2")) O.budget2 = strtoull(v, NULL, 0);
    else if (ARG("--out")) O.out = v;
    else if (ARG("--replay")) O.replay_hex = v;
    else if (ARG("--hang-secs")) O.hang_secs = atoi(v);
    else if (ARG("--flavour")) O.flavour = v;
    else if (ARG("--L")) O.L = atol(v);
    else if (!strcmp(a, "--verbose")) O.verbose = 1;
    else { fprintf(stderr, "vh: bad argument %s\n", a); usage(); return 2; }
  }
  if (!O.stage) O.stage = "";
  if (!O.prop) O.prop = "";
  const struct vh_driver* d = find_driver(O.driver);
  if (!d) { usage(); return 2; }

  S = mmap(NULL, sizeof *S, PROT_READ | PROT_WRITE, MAP_SHARED | MAP_ANONYMOUS, -1, 0);
  if (S == MAP_FAILED) { perror("mmap"); return 2; }
  S->exhaustive = -1;
  vh_counters = S->counters;
  setvbuf(stdout, NULL, _IOLBF, 0);

  if (O.replay_hex) {
    /* single case, in-process, verbose: sanitizer reports go straight to stderr */
    uint8_t* desc;
    size_t n = vh_unhex(O.replay_hex, &desc);
    vh_rng_seed(&g_sample_rng, 1);
    ref_selftest();
    printf("replay: driver=%s prop=%s stage=%s flavour=%s desc=%s\n", O.driver, O.prop, O.stage,
           O.flavour ? O.flavour : "?", vh_hex(desc, n, 256));
    g_case_no = 0;
    crumb_write(desc, n);
    S->evaluations++;
    d->exec(desc, n);
    printf("replay: %llu monitor violation(s)\n", (unsigned long long)S->viol_total);
    return S->viol_total ? 1 : 0;
  }
  if (!O.out) { fprintf(stderr, "vh: --out required\n"); return 2; }

  double t0 = now_s();
  int restarts = 0;
  uint64_t resume_after = 0;
  int resuming = 0;
  const char* status = "ok";
  char errpath[4096];
  int hang_retries = 0;
  for (;;) {
    snprintf(errpath, sizeof errpath, "%s.err.%d", O.out, restarts);
    fflush(NULL);
    pid_t pid = fork();
    if (pid < 0) { perror("fork"); return 2; }
    if (pid == 0) child_main(d, resume_after, resuming, errpath);
    /* wait with a progress watchdog */
    int st = 0;
    uint64_t last_no = (uint64_t)-1;
    double last_change = now_s();
    int hung = 0, starved = 0;
    char cstate;
    double cpu_at_change = 0;
    bool slept_throughout = true;
    for (;;) {
      pid_t r = waitpid(pid, &st, WNOHANG);
      if (r == pid) break;
      if (r < 0 && errno != EINTR) { perror("waitpid"); return 2; }
      uint64_t cn = S->crumb_case_no + S->evaluations;
      if (cn != last_no) { last_no = cn; last_change = now_s(); cpu_at_change = -1; slept_throughout = true; starved = 0; }
      else if (now_s() - last_change > 1.0 && cpu_at_change < 0) { cpu_at_change = child_cpu(pid, &cstate); if (cpu_at_change < 0) cpu_at_change = 0; } /* sampled only when a case takes longer than a second */
      else if (now_s() - last_change > O.hang_secs) {
        double used = child_cpu(pid, &cstate) - (cpu_at_change < 0 ? 0 : cpu_at_change);
        bool busy = used >= 0.6 * O.hang_secs, blocked = used < 0.05 * O.hang_secs && cstate == 'S' && slept_throughout;
        if (!busy && !blocked && starved < 10) { /* runnable but short of CPU: not a hang, the period starts again */
          starved++;
          last_change = now_s();
          cpu_at_change = -1;
          continue;
        }
        kill(pid, SIGKILL);
        waitpid(pid, &st, 0);
        hung = 1;
        break;
      }
      if (now_s() - last_change > 2.0 && ((uint64_t)(now_s() * 2) & 1)) { char c2; if (child_cpu(pid, &c2) >= 0 && c2 != 'S') slept_throughout = false; }
      struct timespec ts = {0, 20 * 1000 * 1000};
      nanosleep(&ts, NULL);
    }
    if (!hung && WIFEXITED(st) && WEXITSTATUS(st) == 0 && S->done) { unlink(errpath); break; }
    if (S->machinery || (WIFEXITED(st) && WEXITSTATUS(st) == 2 && !hung)) {
      status = "machinery";
      if (!S->machinery) { S->machinery = 1; char t[400]; read_tail(errpath, t, sizeof t); snprintf(S->machinery_msg, sizeof S->machinery_msg, "child exit 2: %s", t); }
      break;
    }
    char errtxt[VIOL_MSG - 200];
    read_tail(errpath, errtxt, sizeof errtxt);
    char key[96], msg[VIOL_MSG];
    if (hung) {
      /* watchdog fired: re-run the same case once in a fresh child before believing it */
      if (hang_retries < 1) {
        hang_retries++;
        resume_after = S->crumb_case_no - 1;
        resuming = 1;
        restarts++;
        continue;
      }
      if (strcmp(O.prop, "C01") != 0 || starved >= 10) {
        /* termination is only C01's property; elsewhere a double hang is inconclusive - and so is, anywhere, a child that
         * was neither burning CPU nor asleep through ten watchdog periods (a starved machine) */
        status = "hang-inconclusive";
        S->machinery = 1;
        snprintf(S->machinery_msg, sizeof S->machinery_msg, "no progress for %d s (twice) at case #%llu desc=%s",
                 O.hang_secs, (unsigned long long)S->crumb_case_no, vh_hex(S->crumb, S->crumb_len < CRUMB_MAX ? S->crumb_len : CRUMB_MAX, 64));
        break;
      }
      snprintf(key, sizeof key, "hang");
      snprintf(msg, sizeof msg, "no progress for %d s (twice, fresh process) at case #%llu", O.hang_secs, (unsigned long long)S->crumb_case_no);
    } else {
      crash_key(st, errtxt, key, sizeof key);
      snprintf(msg, sizeof msg, "child died at case #%llu: %s", (unsigned long long)S->crumb_case_no, errtxt);
    }
    hang_retries = 0;
    add_crash_violation(key, msg, S->crumb_case_no);
    if (S->crumb_case_no == 0 && S->evaluations == 0) {
      /* died before the first case: cannot make progress */
      status = "died-before-first-case";
      S->machinery = 1;
      snprintf(S->machinery_msg, sizeof S->machinery_msg, "child died before first case: %.400s", errtxt);
      break;
    }
    resume_after = S->crumb_case_no;
    resuming = 1;
    restarts++;
    if (restarts > 24) { status = "too-many-crashes"; break; }
  }
  write_result(now_s() - t0, restarts, status);
  if (S->machinery) return 2;
  return S->viol_total ? 1 : 0;
}
