/* vh_gen.c — case generators: random and systematic reference trees, and the
 * single-edit neighbourhood of an encoding. */
#include "vh.h"

const uint8_t gen_alphabet[16] = {0x00, 0x18, 0x41, 0x61, 0x5F, 0x7F, 0x80, 0x81, 0x82, 0x9F, 0xA1, 0xBF, 0xC0, 0xFF, 0xF4, 0x1C};
const uint64_t gen_boundaries[] = {0, 1, 22, 23, 24, 25, 254, 255, 256, 257, 65534, 65535, 65536, 65537,
                                   0xfffffffeull, 0xffffffffull, 0x100000000ull, 0x100000001ull,
                                   0x7fffffffffffffffull, 0x8000000000000000ull, 0xfffffffffffffffeull, 0xffffffffffffffffull};
const int gen_nboundaries = (int)(sizeof gen_boundaries / sizeof gen_boundaries[0]);

static int minw(uint64_t v) { return v < 24 ? 0 : v <= 0xff ? 1 : v <= 0xffff ? 2 : v <= 0xffffffffull ? 4 : 8; }
static uint8_t pick_headw(struct vh_rng* r, uint64_t v, bool nonminimal) {
  if (!nonminimal || vh_below(r, 4)) return 255;
  static const int ws[5] = {0, 1, 2, 4, 8};
  int m = minw(v);
  for (;;) { int w = ws[vh_below(r, 5)]; if (w >= m) return (uint8_t)w; }
}

static uint64_t rand_val(struct vh_rng* r, int width) {
  static const uint64_t maxs[4] = {0xff, 0xffff, 0xffffffffull, 0xffffffffffffffffull};
  uint64_t v;
  switch (vh_below(r, 3)) {
    case 0: v = gen_boundaries[vh_below(r, (uint64_t)gen_nboundaries)]; break;
    case 1: v = vh_below(r, 64); break;
    default: v = vh_rand(r) >> vh_below(r, 64); break;
  }
  return v & maxs[width];
}

static void fill_text(struct vh_rng* r, uint8_t* p, size_t n) {
  /* mostly valid UTF-8 of mixed widths, sometimes raw bytes */
  if (vh_below(r, 5) == 0) { for (size_t i = 0; i < n; i++) p[i] = (uint8_t)vh_rand(r); return; }
  size_t i = 0;
  while (i < n) {
    size_t left = n - i;
    unsigned k = (unsigned)vh_below(r, 4) + 1;
    if (k > left) k = 1;
    if (k == 1) p[i] = (uint8_t)(0x20 + vh_below(r, 0x5f));
    else if (k == 2) { p[i] = (uint8_t)(0xc2 + vh_below(r, 30)); p[i + 1] = (uint8_t)(0x80 + vh_below(r, 64)); }
    else if (k == 3) { p[i] = 0xe1; p[i + 1] = (uint8_t)(0x80 + vh_below(r, 64)); p[i + 2] = (uint8_t)(0x80 + vh_below(r, 64)); }
    else { p[i] = 0xf1; p[i + 1] = (uint8_t)(0x80 + vh_below(r, 64)); p[i + 2] = (uint8_t)(0x80 + vh_below(r, 64)); p[i + 3] = (uint8_t)(0x80 + vh_below(r, 64)); }
    i += k;
  }
}

static rnode* gen_string(struct vh_rng* r, int kind, bool nonminimal) {
  rnode* n = rn_new(kind);
  static const size_t lens[] = {0, 0, 1, 1, 2, 3, 5, 8, 23, 24, 25, 40, 255, 256, 300};
  size_t len = lens[vh_below(r, 12 + (vh_below(r, 8) == 0 ? 3 : 0))];
  if (vh_below(r, 400) == 0) len = 65536 + vh_below(r, 8);
  n->len = len;
  n->bytes = malloc(len ? len : 1);
  if (kind == R_TEXT) fill_text(r, n->bytes, len);
  else for (size_t i = 0; i < len; i++) n->bytes[i] = (uint8_t)vh_rand(r);
  n->headw = pick_headw(r, len, nonminimal);
  return n;
}

static rnode* gen_node(struct vh_rng* r, const struct gen_cfg* cfg, int* budget, int depth) {
  (*budget)--;
  int choice;
  bool leaf_only = *budget <= 0 || depth >= cfg->max_depth;
  choice = (int)vh_below(r, leaf_only ? 8 : 14);
  rnode* n;
  switch (choice) {
    case 0: n = rn_new(R_UINT); n->width = (uint8_t)vh_below(r, 4); n->val = rand_val(r, n->width);
      n->headw = (n->width == 0 && n->val < 24 && cfg->nonminimal && vh_below(r, 4) == 0) ? 1 : 0; if (n->width == 0 && n->val >= 24) n->headw = 1; return n;
    case 1: n = rn_new(R_NEGINT); n->width = (uint8_t)vh_below(r, 4); n->val = rand_val(r, n->width);
      n->headw = (n->width == 0 && n->val < 24 && cfg->nonminimal && vh_below(r, 4) == 0) ? 1 : 0; if (n->width == 0 && n->val >= 24) n->headw = 1; return n;
    case 2: return gen_string(r, R_BYTES, cfg->nonminimal);
    case 3: return gen_string(r, R_TEXT, cfg->nonminimal);
    case 4: {
      n = rn_new(R_FLOAT);
      n->width = (uint8_t)(1 + vh_below(r, 3));
      uint64_t v = vh_rand(r);
      if (vh_below(r, 3) == 0) { /* special classes */
        static const uint64_t h[] = {0, 0x8000, 0x3c00, 0x7c00, 0xfc00, 0x7e00, 0x7e01, 0xfe00, 0x0001, 0x03ff, 0x0400, 0x7bff};
        static const uint64_t s[] = {0, 0x80000000u, 0x3f800000u, 0x7f800000u, 0xff800000u, 0x7fc00000u, 0x7f800001u, 0xffc00001u, 1, 0x007fffff, 0x00800000, 0x7f7fffff};
        static const uint64_t d[] = {0, 0x8000000000000000ull, 0x3ff0000000000000ull, 0x7ff0000000000000ull, 0xfff0000000000000ull, 0x7ff8000000000000ull, 0x7ff0000000000001ull, 0xfff8000000000001ull, 1, 0x000fffffffffffffull, 0x0010000000000000ull, 0x7fefffffffffffffull};
        int i = (int)vh_below(r, 12);
        v = n->width == 1 ? h[i] : n->width == 2 ? s[i] : d[i];
      }
      n->val = n->width == 1 ? (v & 0xffff) : n->width == 2 ? (v & 0xffffffffu) : v;
      return n;
    }
    case 5:
      n = rn_new(R_SIMPLE);
      /* the construction API accepts any simple value 0..255; only false/true/null/undefined come out of the decoder */
      if (!cfg->assigned_simple_only && vh_below(r, 2)) { static const uint8_t edge[] = {0, 1, 19, 24, 25, 31, 32, 99, 254, 255}; n->val = vh_below(r, 2) ? edge[vh_below(r, sizeof edge)] : vh_below(r, 256); }
      else n->val = 20 + vh_below(r, 4);
      return n;
    case 6: { /* empty containers / zero-chunk strings */
      int k = (int)vh_below(r, 6);
      n = rn_new(k < 2 ? R_ARRAY : k < 4 ? R_MAP : k == 4 ? R_BYTES : R_TEXT);
      n->indef = (k & 1) || k >= 4;
      if (!n->indef) n->headw = pick_headw(r, 0, cfg->nonminimal);
      return n;
    }
    case 7: n = rn_new(R_UINT); n->width = 0; n->val = vh_below(r, 24); n->headw = 0; return n;
    case 8: case 9: { /* array */
      n = rn_new(R_ARRAY);
      n->indef = (uint8_t)vh_below(r, 2);
      size_t k = vh_below(r, 5) + (vh_below(r, 16) == 0 ? 24 : 0);
      for (size_t i = 0; i < k && *budget > 0; i++) rn_add(n, gen_node(r, cfg, budget, depth + 1));
      if (!n->indef) n->headw = pick_headw(r, n->nkids, cfg->nonminimal);
      return n;
    }
    case 10: case 11: { /* map */
      n = rn_new(R_MAP);
      n->indef = (uint8_t)vh_below(r, 2);
      size_t k = vh_below(r, 4) + (vh_below(r, 24) == 0 ? 24 : 0);
      for (size_t i = 0; i < k && *budget > 0; i++) {
        rn_add(n, gen_node(r, cfg, budget, depth + 1));
        rn_add(n, gen_node(r, cfg, budget, depth + 1));
      }
      if (!n->indef) n->headw = pick_headw(r, n->nkids / 2, cfg->nonminimal);
      return n;
    }
    case 12: { /* tag */
      n = rn_new(R_TAG);
      n->val = rand_val(r, 3);
      n->headw = pick_headw(r, n->val, cfg->nonminimal);
      rn_add(n, gen_node(r, cfg, budget, depth + 1));
      return n;
    }
    default: { /* chunked string */
      int kind = vh_below(r, 2) ? R_BYTES : R_TEXT;
      n = rn_new(kind);
      n->indef = 1;
      size_t k = vh_below(r, 4);
      for (size_t i = 0; i < k; i++) { rn_add(n, gen_string(r, kind, cfg->nonminimal)); (*budget)--; }
      return n;
    }
  }
}
rnode* gen_tree(struct vh_rng* r, const struct gen_cfg* cfg) {
  int budget = 1 + (int)vh_below(r, (uint64_t)cfg->max_nodes);
  return gen_node(r, cfg, &budget, 0);
}

/* ------------------------------------------------------- systematic family
 * leaf variants x contexts, and context x context x small leaf set. */
static rnode* mk_int(int kind, int width, uint64_t v, int headw) { rnode* n = rn_new(kind); n->width = (uint8_t)width; n->val = v; n->headw = (uint8_t)headw; return n; }
static rnode* mk_str(int kind, size_t len, int headw, int flavour) {
  rnode* n = rn_new(kind);
  n->len = len;
  n->bytes = malloc(len ? len : 1);
  for (size_t i = 0; i < len; i++) n->bytes[i] = flavour == 0 ? (uint8_t)('a' + i % 26) : (uint8_t)(0x80 + i * 7);
  if (flavour == 2 && len >= 2) { n->bytes[0] = 0xc3; n->bytes[1] = 0xbc; }
  n->headw = (uint8_t)headw;
  return n;
}
static rnode* mk_float(int width, uint64_t bits) { rnode* n = rn_new(R_FLOAT); n->width = (uint8_t)width; n->val = bits; return n; }

static rnode** g_leaves;
static size_t g_nleaves;
static void leaf_add(rnode* n) { g_leaves = realloc(g_leaves, (g_nleaves + 1) * sizeof *g_leaves); g_leaves[g_nleaves++] = n; }
static void leaves_init(void) {
  if (g_leaves) return;
  static const uint64_t maxs[4] = {0xff, 0xffff, 0xffffffffull, 0xffffffffffffffffull};
  for (int kind = R_UINT; kind <= R_NEGINT; kind++)
    for (int w = 0; w < 4; w++)
      for (int i = 0; i < gen_nboundaries; i++) {
        uint64_t v = gen_boundaries[i];
        if (v > maxs[w]) continue;
        leaf_add(mk_int(kind, w, v, w == 0 && v >= 24 ? 1 : 0));
        if (w == 0 && v < 24) leaf_add(mk_int(kind, w, v, 1)); /* non-minimal 0x18 form */
      }
  static const size_t lens[] = {0, 1, 2, 23, 24, 255, 256};
  static const int hws[] = {255, 1, 2, 4, 8};
  for (int kind = R_BYTES; kind <= R_TEXT; kind++)
    for (size_t li = 0; li < sizeof lens / sizeof lens[0]; li++)
      for (size_t hi = 0; hi < 5; hi++) {
        if (hws[hi] != 255 && hws[hi] < minw(lens[li])) continue;
        if (lens[li] > 24 && hi > 2) continue;
        for (int fl = 0; fl < (kind == R_TEXT ? 3 : 1); fl++) leaf_add(mk_str(kind, lens[li], hws[hi], fl));
      }
  for (int kind = R_BYTES; kind <= R_TEXT; kind++)
    for (int chunks = 0; chunks <= 3; chunks++) {
      rnode* n = rn_new(kind);
      n->indef = 1;
      static const size_t cl[] = {0, 1, 24};
      for (int c = 0; c < chunks; c++) rn_add(n, mk_str(kind, cl[c], c == 2 ? 2 : 255, 0));
      leaf_add(n);
    }
  for (int kind = R_ARRAY; kind <= R_MAP; kind++) {
    for (size_t hi = 0; hi < 5; hi++) { rnode* n = rn_new(kind); n->headw = (uint8_t)hws[hi]; leaf_add(n); }
    rnode* n = rn_new(kind); n->indef = 1; leaf_add(n);
  }
  static const uint64_t h[] = {0, 0x8000, 0x3c00, 0x7c00, 0xfc00, 0x7e00, 0x7c01, 0xfe00, 0x0001, 0x03ff, 0x0400, 0x7bff, 0x3555};
  static const uint64_t s[] = {0, 0x80000000u, 0x3f800000u, 0x7f800000u, 0xff800000u, 0x7fc00000u, 0x7f800001u, 0xffc00001u, 1, 0x007fffff, 0x00800000, 0x7f7fffff, 0x3eaaaaabu};
  static const uint64_t d[] = {0, 0x8000000000000000ull, 0x3ff0000000000000ull, 0x7ff0000000000000ull, 0xfff0000000000000ull, 0x7ff8000000000000ull, 0x7ff0000000000001ull, 0xfff8000000000001ull, 1, 0x000fffffffffffffull, 0x0010000000000000ull, 0x7fefffffffffffffull, 0x3fd5555555555555ull};
  for (size_t i = 0; i < sizeof h / sizeof h[0]; i++) { leaf_add(mk_float(1, h[i])); leaf_add(mk_float(2, s[i])); leaf_add(mk_float(3, d[i])); }
  for (int v = 20; v <= 23; v++) { rnode* n = rn_new(R_SIMPLE); n->val = (uint64_t)v; leaf_add(n); }
}
#define NCTX 17
static rnode* small_leaf(int i) {
  switch (i % 4) { case 0: return mk_int(R_UINT, 0, 0, 0); case 1: return mk_str(R_TEXT, 1, 255, 0); case 2: { rnode* n = rn_new(R_SIMPLE); n->val = 22; return n; } default: return mk_int(R_NEGINT, 1, 300, 0); }
}
static rnode* wrap_ctx(int cx, rnode* x) {
  rnode* n;
  switch (cx) {
    case 0: return x; /* top level */
    case 1: n = rn_new(R_ARRAY); rn_add(n, x); return n;
    case 2: n = rn_new(R_ARRAY); rn_add(n, small_leaf(0)); rn_add(n, x); rn_add(n, small_leaf(1)); return n;
    case 3: n = rn_new(R_ARRAY); n->indef = 1; rn_add(n, x); return n;
    case 4: n = rn_new(R_ARRAY); n->indef = 1; rn_add(n, small_leaf(2)); rn_add(n, x); return n;
    case 5: n = rn_new(R_MAP); rn_add(n, x); rn_add(n, small_leaf(0)); return n;             /* key */
    case 6: n = rn_new(R_MAP); rn_add(n, small_leaf(1)); rn_add(n, x); return n;             /* value */
    case 7: n = rn_new(R_MAP); n->indef = 1; rn_add(n, x); rn_add(n, small_leaf(2)); return n;
    case 8: n = rn_new(R_MAP); n->indef = 1; rn_add(n, small_leaf(3)); rn_add(n, x); return n;
    case 9: n = rn_new(R_MAP); rn_add(n, small_leaf(0)); rn_add(n, small_leaf(1)); rn_add(n, x); rn_add(n, small_leaf(2)); return n; /* second key */
    case 10: n = rn_new(R_TAG); n->val = 1; rn_add(n, x); return n;
    case 11: n = rn_new(R_TAG); n->val = 24; rn_add(n, x); return n;
    case 12: n = rn_new(R_TAG); n->val = 65536; n->headw = 8; rn_add(n, x); return n;
    case 13: n = rn_new(R_TAG); n->val = 0xffffffffffffffffull; rn_add(n, x); return n;
    case 14: n = rn_new(R_ARRAY); n->headw = 2; for (int i = 0; i < 24; i++) rn_add(n, i == 23 ? x : small_leaf(i)); return n;
    case 15: n = rn_new(R_MAP); n->indef = 1; for (int i = 0; i < 3; i++) { rn_add(n, small_leaf(i)); rn_add(n, i == 1 ? x : small_leaf(i + 1)); } return n;
    default: n = rn_new(R_ARRAY); n->headw = 1; rn_add(n, small_leaf(0)); rn_add(n, x); return n;
  }
}
/* third family: every string length 0..320 (and a few large ones) and every member count 0..40 plus sign/width
 * boundaries in the middle of the ranges (127/128/129, 255..257, 300), at top level and inside an array */
static const size_t big_lens[] = {511, 512, 1000, 4095, 4096, 32767, 32768, 65535, 65536, 65537, 100000};
static const size_t counts[] = {0, 1, 2, 3, 4, 5, 6, 7, 8, 9, 10, 11, 12, 13, 14, 15, 16, 17, 18, 19, 20, 21, 22, 23, 24, 25, 26, 27, 28, 29, 30, 31, 32, 33, 40,
                                63, 64, 65, 100, 127, 128, 129, 200, 255, 256, 257, 300,
                                /* wide containers: capacity doubling passes 512, 1024, 2048, 4096; slack thresholds sit in between */
                                511, 512, 513, 1000, 1024, 1025, 1100, 1536, 2048, 2049, 3000, 4096, 4097, 5000};
#define NLEN (321 + sizeof big_lens / sizeof big_lens[0])
#define NCNT (sizeof counts / sizeof counts[0])
/* fourth family: strings filled with one byte value (classic trouble for scanners that back up or skip ahead, for
 * format strings and for escaping code) at lengths across every head width and typical internal buffer sizes */
static const uint8_t fills[] = {0x80, 0xbf, 0xff, 0x00, 0x0a, '%', 0xc3, 0xe2, 0xf0, 0x7f, '\\', '"'};
static const size_t fill_lens[] = {1, 2, 23, 24, 255, 256, 257, 511, 512, 513, 1023, 1024, 1025, 1026, 2048, 4097, 8192, 65536};
#define NFILL ((uint64_t)(sizeof fills) * (sizeof fill_lens / sizeof fill_lens[0]) * 2 * 2)
#define FAM3 ((uint64_t)(NLEN * 2 * 2 + NCNT * 6 * 2) + NFILL)

/* fifth family: a dictionary of well-known encodings — every example of RFC 8949 Appendix A that lies within the profile,
 * the RFC 9277 labels (self-described CBOR, the CBOR sequence label, tag 55801), registered tag idioms (bignums, decimal
 * fractions, encoded CBOR, URIs, UUIDs, sets, COSE shapes). Constants a format-aware implementation might special-case. */
static const char* const dict_hex[] = {
  "00",
  "01",
  "0a",
  "17",
  "1818",
  "1819",
  "1864",
  "1903e8",
  "1a000f4240",
  "1b000000e8d4a51000",
  "1bffffffffffffffff",
  "c249010000000000000000",
  "3bffffffffffffffff",
  "c349010000000000000000",
  "20",
  "29",
  "3863",
  "3903e7",
  "f90000",
  "f98000",
  "f93c00",
  "fb3ff199999999999a",
  "f93e00",
  "f97bff",
  "fa47c35000",
  "fa7f7fffff",
  "fb7e37e43c8800759c",
  "f90001",
  "f90400",
  "f9c400",
  "fbc010666666666666",
  "f97c00",
  "f97e00",
  "f9fc00",
  "fa7f800000",
  "fa7fc00000",
  "faff800000",
  "fb7ff0000000000000",
  "fb7ff8000000000000",
  "fbfff0000000000000",
  "f4",
  "f5",
  "f6",
  "f7",
  "c074323031332d30332d32315432303a30343a30305a",
  "c11a514b67b0",
  "c1fb41d452d9ec200000",
  "d74401020304",
  "d818456449455446",
  "d82076687474703a2f2f7777772e6578616d706c652e636f6d",
  "40",
  "4401020304",
  "60",
  "6161",
  "6449455446",
  "62225c",
  "62c3bc",
  "63e6b0b4",
  "64f0908591",
  "80",
  "83010203",
  "8301820203820405",
  "98190102030405060708090a0b0c0d0e0f101112131415161718181819",
  "a0",
  "a201020304",
  "a26161016162820203",
  "826161a161626163",
  "a56161614161626142616361436164614461656145",
  "5f42010243030405ff",
  "7f657374726561646d696e67ff",
  "9fff",
  "9f018202039f0405ffff",
  "9f01820203820405ff",
  "83018202039f0405ff",
  "83019f0203ff820405",
  "9f0102030405060708090a0b0c0d0e0f101112131415161718181819ff",
  "bf61610161629f0203ffff",
  "826161bf61626163ff",
  "bf6346756ef563416d7421ff",
  "d9d9f700",
  "d9d9f7a0",
  "d9d9f7d9d9f700",
  "d9d9f783010203",
  "d9d9f843424f52",
  "d9d9f943424f52",
  "d9d9f84443424f52",
  "d9d9f8420f52",
  "da43424f5200",
  "da63740101d9d9f700",
  "d9d9f7d9d9f843424f52",
  "c24100",
  "c240",
  "c34100",
  "c48221196ab3",
  "c5822003",
  "d5a0",
  "d64100",
  "d81c00",
  "d81d00",
  "d8255000112233445566778899aabbccddeeff",
  "d9010280",
  "d9010283010203",
  "d8184101",
  "d82a00",
  "d8404401020304",
  "d9011080",
  "d28443a10126a1044231314040",
  "d18443a10101a1054c02d1f7e6f26c43d4868d87ce4040",
  "d83d00",
  "d8636161",
  "d903e800"};
#define NDICT (sizeof dict_hex / sizeof dict_hex[0])
static rnode* family_dict(uint64_t i) {
  int ctx = (int)(i & 1);
  const char* h = dict_hex[(i >> 1) % NDICT];
  size_t n = strlen(h) / 2;
  uint8_t* b = malloc(n ? n : 1);
  for (size_t k = 0; k < n; k++) { unsigned v; sscanf(h + 2 * k, "%2x", &v); b[k] = (uint8_t)v; }
  struct rverdict z = ref_decode(b, n, (size_t)1 << 20, RM_LAZY, true, NULL);
  free(b);
  if (z.code != RC_ACCEPT || z.read != n || !z.tree) { if (z.tree) rn_free(z.tree); vh_die("dictionary entry %s is not one well-formed item within the profile", h); }
  return ctx ? wrap_ctx(3, z.tree) : z.tree;
}

/* sixth family, kept out of the systematic index space because of its cost: single big leaves — strings of 128 KiB..16 MiB
 * and containers of 10 000..400 000 members — bare and inside an array. Used by the "bigleaf" stages. */
static const size_t bigleaf_lens[] = {131072, 262145, 524288, 1048575, 1048576, 1048577, 2097152, 16777216};
static const size_t bigleaf_counts[] = {10000, 65535, 65536, 100000, 400000};
uint64_t gen_bigleaf_count(void) { return (sizeof bigleaf_lens / sizeof bigleaf_lens[0]) * 2 * 2 + (sizeof bigleaf_counts / sizeof bigleaf_counts[0]) * 6 * 2; }
rnode* gen_bigleaf(uint64_t i) {
  int ctx = (int)(i & 1);
  i >>= 1;
  rnode* n;
  size_t nl = sizeof bigleaf_lens / sizeof bigleaf_lens[0];
  if (i < nl * 2) {
    size_t len = bigleaf_lens[i / 2];
    n = mk_str((i & 1) ? R_TEXT : R_BYTES, len, 255, 0);
    if ((i & 1) && (i & 2)) for (size_t k = 0; k + 1 < len; k += 2) { n->bytes[k] = 0xc3; n->bytes[k + 1] = 0xa9; } /* two-byte scalars */
  } else {
    i -= nl * 2;
    size_t c = bigleaf_counts[(i / 6) % (sizeof bigleaf_counts / sizeof bigleaf_counts[0])];
    int kind = (int)(i % 6);
    if (kind >= 4) {
      n = rn_new(kind == 4 ? R_BYTES : R_TEXT);
      n->indef = 1;
      for (size_t k = 0; k < c; k++) rn_add(n, mk_str(kind == 4 ? R_BYTES : R_TEXT, k % 5 == 3 ? 0 : 1, 255, 0));
    } else {
      n = rn_new(kind < 2 ? R_ARRAY : R_MAP);
      n->indef = (uint8_t)(kind & 1);
      for (size_t k = 0; k < c * (kind < 2 ? 1 : 2); k++) rn_add(n, mk_int(R_UINT, 0, k % 24, 0));
    }
  }
  return ctx ? wrap_ctx(1, n) : n;
}

uint64_t gen_dict_count(void) { return NDICT * 2; } /* the dictionary occupies the last indices of the systematic family */
uint64_t gen_systematic_count(void) {
  leaves_init();
  return g_nleaves * NCTX + (uint64_t)NCTX * NCTX * 16 + FAM3 + NDICT * 2;
}
static rnode* family3(uint64_t i) {
  if (i >= FAM3 - NFILL) {
    i -= FAM3 - NFILL;
    int ctx = (int)(i & 1), kind = (int)((i >> 1) & 1);
    i >>= 2;
    size_t nl = sizeof fill_lens / sizeof fill_lens[0];
    size_t len = fill_lens[i % nl];
    uint8_t fb = fills[(i / nl) % sizeof fills];
    rnode* n = mk_str(kind ? R_TEXT : R_BYTES, len, 255, 0);
    memset(n->bytes, fb, len);
    if (ctx) { rnode* c = rn_new(kind ? R_TEXT : R_BYTES); c->indef = 1; rn_add(c, n); rn_add(c, mk_str(kind ? R_TEXT : R_BYTES, 1, 255, 0)); return c; } /* as a chunk */
    return n;
  }
  int ctx = (int)(i & 1);
  i >>= 1;
  rnode* n;
  if (i < NLEN * 2) {
    size_t li = (size_t)(i / 2);
    size_t len = li <= 320 ? li : big_lens[li - 321];
    n = mk_str((i & 1) ? R_TEXT : R_BYTES, len, 255, (int)(len % 3));
    if ((i & 1) && len >= 2 && (len % 3) == 1) { for (size_t k = 0; k < len; k++) n->bytes[k] = (uint8_t)('a' + k % 26); } /* valid text too */
  } else {
    i -= NLEN * 2;
    size_t c = counts[i / 6];
    int kind = (int)(i % 6); /* 0 def array, 1 indef array, 2 def map, 3 indef map, 4 chunked bytes, 5 chunked text: that many members / pairs / chunks */
    if (kind >= 4) {
      n = rn_new(kind == 4 ? R_BYTES : R_TEXT);
      n->indef = 1;
      for (size_t k = 0; k < c; k++) rn_add(n, mk_str(kind == 4 ? R_BYTES : R_TEXT, k % 7 == 3 ? 0 : 1 + k % 3, 255, 0));
    } else {
      n = rn_new(kind < 2 ? R_ARRAY : R_MAP);
      n->indef = (uint8_t)(kind & 1);
      for (size_t k = 0; k < c * (kind < 2 ? 1 : 2); k++) rn_add(n, mk_int(R_UINT, 0, k % 24, 0));
    }
  }
  return ctx ? wrap_ctx(1, n) : n;
}
rnode* gen_systematic(uint64_t idx) {
  leaves_init();
  if (idx < g_nleaves * NCTX) return wrap_ctx((int)(idx % NCTX), rn_clone(g_leaves[idx / NCTX]));
  idx -= g_nleaves * NCTX;
  if (idx >= (uint64_t)NCTX * NCTX * 16) { idx -= (uint64_t)NCTX * NCTX * 16; return idx < FAM3 ? family3(idx) : idx < FAM3 + NDICT * 2 ? family_dict(idx - FAM3) : NULL; }
  int c1 = (int)(idx % NCTX), c2 = (int)(idx / NCTX % NCTX);
  uint64_t li = idx / NCTX / NCTX; /* 0..15: pick a spread of leaves */
  rnode* leaf = rn_clone(g_leaves[(li * 2654435761u) % g_nleaves]);
  return wrap_ctx(c1, wrap_ctx(c2, leaf));
}

/* ---------------------------------------------------- single-edit neighbours */
void gen_neighbours(const uint8_t* x, size_t n, bool full256, gen_bytes_cb cb, void* ud) {
  struct rheads hs = {0};
  struct rverdict v = ref_decode(x, n, (size_t)1 << 20, RM_LAZY, false, &hs);
  (void)v;
  struct vh_buf b = {0};
  /* truncations: every offset for short inputs; otherwise every offset inside each head (initial byte + argument bytes),
   * and for string payloads — where all cuts are equivalent — the first, a middle and the last payload byte */
  if (n <= 64) {
    for (size_t k = 0; k < n; k++) cb(x, k, ud);
  } else {
    size_t step = hs.n > 150 ? hs.n / 150 : 1; /* big items: a spread of heads, not all of them */
    for (size_t i = 0; i < hs.n; i += step) {
      unsigned ai = hs.ib[i] & 31;
      size_t hl = 1 + (ai < 24 ? 0 : ai <= 27 ? (size_t)1 << (ai - 24) : 0);
      for (size_t k = 0; k <= hl && hs.start[i] + k < n; k++) cb(x, hs.start[i] + k, ud);
      if (hs.end[i] > hs.start[i] + hl + 2) { cb(x, hs.start[i] + hl + (hs.end[i] - hs.start[i] - hl) / 2, ud); cb(x, hs.end[i] - 1, ud); }
    }
    if (hs.n) { cb(x, hs.start[hs.n - 1], ud); if (hs.end[hs.n - 1] > 0) cb(x, hs.end[hs.n - 1] - 1, ud); }
    if (n > 0) cb(x, n - 1, ud);
  }
  static const uint8_t reps[] = {0x00, 0x17, 0x18, 0x19, 0x1a, 0x1b, 0x1c, 0x1f, 0x20, 0x38, 0x3f, 0x40, 0x41, 0x58, 0x5b, 0x5c, 0x5f, 0x60, 0x61, 0x78, 0x7e,
                                 0x7f, 0x80, 0x81, 0x98, 0x9b, 0x9d, 0x9f, 0xa0, 0xa1, 0xb8, 0xbe, 0xbf, 0xc0, 0xd8, 0xdb, 0xdc, 0xdf, 0xe0, 0xf3, 0xf4, 0xf5,
                                 0xf6, 0xf7, 0xf8, 0xf9, 0xfa, 0xfb, 0xfc, 0xff};
  size_t hlimit = hs.n;
  size_t hcap = full256 ? 48 : 120; /* cost per item is heads x edits x item length: bounded for big items */
  if (hlimit > hcap) hlimit = hcap;
  for (size_t i = 0; i < hlimit; i++) {
    size_t s = hs.start[i], e = hs.end[i];
    uint8_t ib = hs.ib[i];
    unsigned mt = ib >> 5, ai = ib & 31;
    /* overwrite the initial byte */
    vb_reset(&b); vb_put(&b, x, n);
    if (full256) {
      for (int c = 0; c < 256; c++) if (c != ib) { b.p[s] = (uint8_t)c; cb(b.p, n, ud); }
    } else {
      for (size_t c = 0; c < sizeof reps; c++) if (reps[c] != ib) { b.p[s] = reps[c]; cb(b.p, n, ud); }
    }
    /* insert a break before this head */
    vb_reset(&b); vb_put(&b, x, s); vb_u8(&b, 0xff); vb_put(&b, x + s, n - s); cb(b.p, b.n, ud);
    /* delete this head if it is a break; delete / duplicate the head otherwise */
    vb_reset(&b); vb_put(&b, x, s); vb_put(&b, x + e, n - e); cb(b.p, b.n, ud);
    vb_reset(&b); vb_put(&b, x, e); vb_put(&b, x + s, e - s); vb_put(&b, x + e, n - e); cb(b.p, b.n, ud);
    /* +-1 on lengths / counts (same head width), and a wider head for the same argument */
    if (mt >= 2 && mt <= 5 && ai != 31) {
      size_t hl = 1 + (ai < 24 ? 0 : (size_t)1 << (ai - 24));
      for (int dlt = -1; dlt <= 1; dlt += 2) {
        uint64_t a = hs.arg[i] + (uint64_t)dlt;
        if (dlt < 0 && hs.arg[i] == 0) continue;
        vb_reset(&b); vb_put(&b, x, n);
        if (ai < 24) { if (a >= 24) continue; b.p[s] = (uint8_t)(mt << 5 | a); }
        else { size_t w = hl - 1; if (w < 8 && (a >> (8 * w))) continue; for (size_t k = 0; k < w; k++) b.p[s + 1 + k] = (uint8_t)(a >> (8 * (w - 1 - k))); }
        cb(b.p, n, ud);
      }
    }
    if (mt != 7 && ai < 27 && !(mt <= 1)) {
      /* same argument, next wider head */
      size_t hl = 1 + (ai < 24 ? 0 : (size_t)1 << (ai - 24));
      unsigned nai = ai < 24 ? 24 : ai + 1;
      size_t nw = (size_t)1 << (nai - 24);
      vb_reset(&b); vb_put(&b, x, s); vb_u8(&b, (uint8_t)(mt << 5 | nai)); vb_be(&b, hs.arg[i], (int)nw);
      vb_put(&b, x + s + hl, n - s - hl);
      cb(b.p, b.n, ud);
    }
  }
  /* append a break / a byte at the very end */
  vb_reset(&b); vb_put(&b, x, n); vb_u8(&b, 0xff); cb(b.p, b.n, ud);
  vb_free(&b);
  rheads_free(&hs);
}
