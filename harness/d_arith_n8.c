#define NT uint8_t
#define NBITS 8
#define NP(x) n8_##x
#include "d_arith_narrow.inc"
