/* vh_alloc.c — allocator monitors installed through the public cbor_set_allocs. */
#define _GNU_SOURCE
#include <sys/mman.h>
#include <unistd.h>

#include "vh.h"

/* ======================================================================= track
 * libc pass-through (so ASan red zones abut the library's exactly-sized
 * blocks), side table ptr -> {size, serial}, fault policies, event ring. */
struct ta_stats TA;
struct ta_ent { uintptr_t p; size_t size; uint64_t serial; };
#define TA_EMPTY ((uintptr_t)0)
#define TA_TOMB ((uintptr_t)1)
static struct ta_ent* ta_tab;
static size_t ta_cap, ta_used, ta_live;
static uint64_t ta_serial, ta_sig;
static size_t ta_cap_limit;
static int64_t ta_fail_k = -1, ta_failfrom_k = -1;
static bool ta_record_only;
static bool ta_zero_null;
void ta_set_zero_null(bool on) { ta_zero_null = on; }
static uint64_t ta_last_req;
static void (*ta_free_hook)(void*, size_t);

struct ta_ev { char op; uintptr_t p, q; size_t n; uint64_t req; char refused; };
#define TA_RING 64
static struct ta_ev ta_ring[TA_RING];
static uint64_t ta_ring_n;
static void ta_log(char op, const void* p, const void* q, size_t n, int refused) {
  struct ta_ev* e = &ta_ring[ta_ring_n++ % TA_RING];
  e->op = op; e->p = (uintptr_t)p; e->q = (uintptr_t)q; e->n = n; e->req = TA.requests; e->refused = (char)refused;
}
const char* ta_ring_dump(void) {
  static char out[TA_RING * 72 + 64];
  size_t u = 0;
  uint64_t from = ta_ring_n > TA_RING ? ta_ring_n - TA_RING : 0;
  for (uint64_t i = from; i < ta_ring_n; i++) {
    struct ta_ev* e = &ta_ring[i % TA_RING];
    u += (size_t)snprintf(out + u, sizeof out - u, "%c(%zu)%s@%llx>%llx; ", e->op, e->n, e->refused ? "REFUSED" : "",
                          (unsigned long long)e->p, (unsigned long long)e->q);
    if (u > sizeof out - 80) break;
  }
  return out;
}

static inline size_t ta_slot(uintptr_t p) { return (size_t)((p >> 4) * 0x9e3779b97f4a7c15ull >> 20) & (ta_cap - 1); }
static struct ta_ent* ta_find(const void* ptr) {
  if (!ta_cap) return NULL;
  uintptr_t p = (uintptr_t)ptr;
  size_t i = ta_slot(p);
  for (size_t n = 0; n < ta_cap; n++) {
    if (ta_tab[i].p == p) return &ta_tab[i];
    if (ta_tab[i].p == TA_EMPTY) return NULL;
    i = (i + 1) & (ta_cap - 1);
  }
  return NULL;
}
static void ta_grow(void) {
  size_t ocap = ta_cap;
  struct ta_ent* old = ta_tab;
  ta_cap = ocap ? ocap * 2 : 1024;
  if (ocap && ta_live * 4 < ocap) ta_cap = ocap; /* mostly tombstones: rehash in place size */
  ta_tab = calloc(ta_cap, sizeof *ta_tab);
  if (!ta_tab) vh_die("ta_grow: out of memory");
  ta_used = 0;
  for (size_t i = 0; i < ocap; i++)
    if (old[i].p > TA_TOMB) {
      size_t j = ta_slot(old[i].p);
      while (ta_tab[j].p != TA_EMPTY) j = (j + 1) & (ta_cap - 1);
      ta_tab[j] = old[i];
      ta_used++;
    }
  free(old);
}
static void ta_insert(void* ptr, size_t size, uint64_t serial) {
  if ((ta_used + 1) * 2 > ta_cap) ta_grow();
  uintptr_t p = (uintptr_t)ptr;
  size_t i = ta_slot(p);
  while (ta_tab[i].p > TA_TOMB) i = (i + 1) & (ta_cap - 1);
  if (ta_tab[i].p == TA_EMPTY) ta_used++;
  ta_tab[i].p = p; ta_tab[i].size = size; ta_tab[i].serial = serial;
  ta_live++;
  ta_sig += vh_hash_mix(0x1234, serial);
}
static void ta_remove(struct ta_ent* e) {
  ta_sig -= vh_hash_mix(0x1234, e->serial);
  e->p = TA_TOMB;
  ta_live--;
}

static bool ta_should_refuse(size_t n) {
  uint64_t k = TA.requests++;
  TA.bytes_requested += n;
  if (n > TA.max_request) TA.max_request = n;
  ta_last_req = n;
  bool refuse = false;
  if (ta_record_only) refuse = true;
  if (ta_cap_limit && n > ta_cap_limit) refuse = true;
  if (ta_fail_k >= 0 && (int64_t)k == ta_fail_k) refuse = true;
  if (ta_failfrom_k >= 0 && (int64_t)k >= ta_failfrom_k) refuse = true;
  if (refuse) TA.refused++;
  return refuse;
}

void* ta_malloc(size_t n) {
  TA.mallocs++;
  if (ta_should_refuse(n)) { ta_log('m', NULL, NULL, n, 1); return NULL; }
  if (n == 0 && ta_zero_null) { TA.refused++; ta_log('m', NULL, NULL, 0, 1); return NULL; } /* an allocator may return NULL for zero-size requests */
  void* p = malloc(n);
  if (!p) { TA.refused++; ta_log('m', NULL, NULL, n, 1); return NULL; }
  if (n) memset(p, 0xD5, n); /* an allocator owes nobody zeroed memory: code that relies on it shows up in every flavour */
  ta_insert(p, n, ++ta_serial);
  ta_log('m', NULL, p, n, 0);
  return p;
}
uint64_t ta_realloc_idx[TA_MAX_REALLOC_IDX];
size_t ta_nrealloc_idx;
void* ta_realloc(void* old, size_t n) {
  if (ta_nrealloc_idx < TA_MAX_REALLOC_IDX) ta_realloc_idx[ta_nrealloc_idx++] = TA.requests; /* the index this request is about to get */
  TA.reallocs++;
  if (old == NULL) TA.realloc_null++;
  struct ta_ent* e = NULL;
  if (old != NULL) {
    e = ta_find(old);
    if (!e) {
      TA.bad_realloc++;
      vh_violation("realloc-of-unknown-block", "configured realloc received %p (%zu bytes requested) which is not a live block of the configured allocator; events: %s",
                   old, n, ta_ring_dump());
      return NULL;
    }
  }
  if (ta_should_refuse(n)) { ta_log('r', old, NULL, n, 1); return NULL; }
  uint64_t serial = e ? e->serial : ++ta_serial;
  /* realloc through malloc+copy+free so a stale pointer to the old block always
   * dangles (ASan sees any use of it) */
  if (n == 0 && ta_zero_null && !e) { TA.refused++; return NULL; }
  void* p = malloc(n);
  if (!p) { TA.refused++; return NULL; }
  if (n) memset(p, 0xD5, n);
  if (e) {
    memcpy(p, old, e->size < n ? e->size : n);
    ta_remove(e);
    free(old);
  }
  ta_insert(p, n, serial);
  ta_log('r', old, p, n, 0);
  return p;
}
void ta_free(void* p) {
  TA.frees++;
  if (p == NULL) { TA.free_null++; return; }
  struct ta_ent* e = ta_find(p);
  if (!e) {
    TA.bad_free++;
    ta_log('f', p, NULL, 0, 0);
    vh_violation("free-of-unknown-block", "configured free received %p which is not a live block of the configured allocator (double release or foreign block); events: %s",
                 p, ta_ring_dump());
    return;
  }
  if (ta_free_hook) ta_free_hook(p, e->size);
  ta_log('f', p, NULL, e->size, 0);
  ta_remove(e);
  free(p);
}
void ta_forget_all(void) {
  /* after a leak was reported: forget the leaked blocks so later cases are judged afresh */
  for (size_t i = 0; i < ta_cap; i++) if (ta_tab[i].p > TA_TOMB) ta_remove(&ta_tab[i]);
}
void ta_install(void) { cbor_set_allocs(ta_malloc, ta_realloc, ta_free); }
void ta_reset_stats(void) { memset(&TA, 0, sizeof TA); ta_nrealloc_idx = 0; }
size_t ta_live_count(void) { return ta_live; }
uint64_t ta_live_sig(void) { return ta_sig ^ (ta_live * 0x9e3779b97f4a7c15ull); }
void ta_set_cap(size_t cap) { ta_cap_limit = cap; }
void ta_fail_at(int64_t k) { ta_fail_k = k; }
void ta_fail_from(int64_t k) { ta_failfrom_k = k; }
bool ta_is_live(const void* p) { return ta_find(p) != NULL; }
size_t ta_block_size(const void* p) { struct ta_ent* e = ta_find(p); return e ? e->size : (size_t)-1; }
uint64_t ta_block_serial(const void* p) { struct ta_ent* e = ta_find(p); return e ? e->serial : 0; }
void ta_set_free_hook(void (*hook)(void*, size_t)) { ta_free_hook = hook; }
void ta_set_record_only(bool on) { ta_record_only = on; }
uint64_t ta_last_request_size(void) { return ta_last_req; }

bool ta_selftest(void) {
  /* positive control on harness-owned memory: the table must know what is live */
  void* a = ta_malloc(7);
  bool ok = a && ta_is_live(a) && ta_block_size(a) == 7 && ta_live_count() >= 1;
  void* b = ta_realloc(a, 9);
  ok = ok && b && !ta_is_live(a) && ta_is_live(b) && ta_block_size(b) == 9;
  ta_free(b);
  ok = ok && !ta_is_live(b);
  ta_fail_at((int64_t)TA.requests);
  void* c = ta_malloc(1);
  ok = ok && c == NULL;
  ta_fail_at(-1);
  ta_reset_stats();
  return ok;
}

/* ====================================================================== tagged
 * returns p+32; header = {magic, size, serial}. A block that reaches libc free
 * directly is an interior pointer (abort); a block obtained from libc directly
 * has no magic when it reaches us. */
#define TG_MAGIC 0x7a67c0deb10c5afeull
#define TG_DEAD 0xdeadf7eedeadf7eeull
struct tg_hdr { uint64_t magic, size, serial, pad; };
uint64_t TG_bad_magic, TG_allocs, TG_frees, TG_live, TG_refused;
bool TG_refuse_all;
static uint64_t tg_serial;
static void* tg_malloc(size_t n) {
  if (TG_refuse_all) { TG_refused++; return NULL; }
  if (n > ((size_t)1 << 20)) return NULL; /* keep huge declared counts on the refusal path */
  struct tg_hdr* h = malloc(n + sizeof *h);
  if (!h) return NULL;
  h->magic = TG_MAGIC; h->size = n; h->serial = ++tg_serial; h->pad = ~TG_MAGIC;
  if (n) memset(h + 1, 0xD5, n);
  TG_allocs++; TG_live++;
  return h + 1;
}
static void tg_free(void* p) {
  if (!p) return;
  struct tg_hdr* h = (struct tg_hdr*)p - 1;
  if (h->magic != TG_MAGIC || h->pad != ~TG_MAGIC) {
    TG_bad_magic++;
    vh_violation("free-of-foreign-block", "configured free received %p whose hidden header is %s: the block did not come from the configured allocator or was already released",
                 p, h->magic == TG_DEAD ? "already dead (double release)" : "absent");
    return;
  }
  h->magic = TG_DEAD;
  TG_frees++; TG_live--;
  free(h);
}
static void* tg_realloc(void* p, size_t n) {
  if (TG_refuse_all) { TG_refused++; return NULL; }
  if (!p) return tg_malloc(n);
  struct tg_hdr* h = (struct tg_hdr*)p - 1;
  if (h->magic != TG_MAGIC || h->pad != ~TG_MAGIC) {
    TG_bad_magic++;
    vh_violation("realloc-of-foreign-block", "configured realloc received %p without a valid hidden header", p);
    return NULL;
  }
  void* q = tg_malloc(n);
  if (!q) return NULL;
  memcpy(q, p, h->size < n ? h->size : n);
  tg_free(p);
  return q;
}
void tg_install(void) { cbor_set_allocs(tg_malloc, tg_realloc, tg_free); TG_variant = 0; }

/* Eight interchangeable triples built from two copies of each function (same behaviour, different addresses). A client
 * may install any of them while no item exists; afterwards only the three functions installed LAST may be called. */
unsigned TG_variant;
uint64_t TG_stale_calls;
static void tg_stale(const char* fn, unsigned bit) {
  TG_stale_calls++;
  vh_violation("call-to-allocator-function-not-installed", "the library called the %s of an earlier cbor_set_allocs although a different %s was installed last (triple variant %u, bit %u)", fn, fn, TG_variant, bit);
}
static void* tg_malloc_b(size_t n) { if (!(TG_variant & 1)) tg_stale("malloc", 0); return tg_malloc(n); }
static void* tg_malloc_a(size_t n) { if (TG_variant & 1) tg_stale("malloc", 0); return tg_malloc(n); }
static void* tg_realloc_b(void* p, size_t n) { if (!(TG_variant & 2)) tg_stale("realloc", 1); return tg_realloc(p, n); }
static void* tg_realloc_a(void* p, size_t n) { if (TG_variant & 2) tg_stale("realloc", 1); return tg_realloc(p, n); }
static void tg_free_b(void* p) { if (!(TG_variant & 4)) tg_stale("free", 2); tg_free(p); }
static void tg_free_a(void* p) { if (TG_variant & 4) tg_stale("free", 2); tg_free(p); }
void tg_install_variant(unsigned v) {
  v &= 7;
  cbor_set_allocs((v & 1) ? tg_malloc_b : tg_malloc_a, (v & 2) ? tg_realloc_b : tg_realloc_a, (v & 4) ? tg_free_b : tg_free_a);
  TG_variant = v;
}

/* libc's own malloc with counting pass-through realloc / free: a triple whose first member is the function the library
 * starts out with */
uint64_t PT_reallocs, PT_frees;
static void* pt_realloc(void* p, size_t n) { PT_reallocs++; return realloc(p, n); }
static void pt_free(void* p) { if (p) PT_frees++; free(p); }
void pt_install(void) { cbor_set_allocs(malloc, pt_realloc, pt_free); }

/* ======================================================================= arena
 * Two mmap'ed zones with bump allocation and per-size free lists; nothing from
 * libc. Each block is preceded by a 16-byte header {size, state}. */
#define AR_ZONE_BYTES ((size_t)256 << 20)
struct ar_hdr { uint64_t size; uint64_t state; };
#define AR_LIVE 0x11fe11fe11fe11feull
#define AR_FREE 0xf4eef4eef4eef4eeull
static uint8_t* ar_base[2];
static size_t ar_top[2];
static int ar_zone;
uint64_t AR_foreign_free, AR_allocs, AR_frees, AR_live, AR_refused;
size_t AR_cap = (size_t)1 << 20; /* single requests above this are refused */
bool AR_refuse_all;
volatile int vh_in_lib;
uint64_t VH_bypass_calls;
#define AR_CLASSES 48
static struct ar_hdr* ar_freelist[2][AR_CLASSES];
static int ar_class(size_t n) { int c = 0; size_t s = 16; while (s < n && c < AR_CLASSES - 1) { s <<= 1; c++; } return c; }
static size_t ar_class_size(int c) { return (size_t)16 << c; }

static void ar_init(void) {
  if (ar_base[0]) return;
  for (int z = 0; z < 2; z++) {
    ar_base[z] = mmap(NULL, AR_ZONE_BYTES, PROT_READ | PROT_WRITE, MAP_PRIVATE | MAP_ANONYMOUS | MAP_NORESERVE, -1, 0);
    if (ar_base[z] == MAP_FAILED) vh_die("arena mmap failed");
    ar_top[z] = 0;
  }
}
static void bp_reset(void);
extern bool AR_bump_mode;
void ar_reset(void) {
  if (AR_bump_mode) { bp_reset(); AR_live = 0; return; }
  ar_init();
  ar_freeze(false);
  for (int z = 0; z < 2; z++) {
    if (ar_top[z]) madvise(ar_base[z], (ar_top[z] + 4095) & ~(size_t)4095, MADV_DONTNEED);
    ar_top[z] = 0;
    memset(ar_freelist[z], 0, sizeof ar_freelist[z]);
  }
  AR_live = 0;
  ar_zone = 0;
}
void ar_use_zone(int z) { ar_zone = z; }
void ar_freeze(bool ro) {
  ar_init();
  size_t len = (ar_top[0] + 4095) & ~(size_t)4095;
  if (len == 0) len = 4096;
  if (mprotect(ar_base[0], len, ro ? PROT_READ : PROT_READ | PROT_WRITE) != 0) vh_die("mprotect failed");
}
int ar_zone_of(const void* p) {
  for (int z = 0; z < 2; z++)
    if (ar_base[z] && (const uint8_t*)p >= ar_base[z] && (const uint8_t*)p < ar_base[z] + AR_ZONE_BYTES) return z;
  return -1;
}
bool ar_contains(const void* p) { return ar_zone_of(p) >= 0; }
bool ar_block_of(const void* addr, uintptr_t* base, size_t* size) {
  int z = ar_zone_of(addr);
  if (z < 0) return false;
  /* blocks are laid out sequentially: walk from the zone start */
  size_t off = 0;
  while (off < ar_top[z]) {
    struct ar_hdr* h = (struct ar_hdr*)(ar_base[z] + off);
    size_t csz = ar_class_size(ar_class(h->size));
    uint8_t* b = (uint8_t*)(h + 1);
    if ((const uint8_t*)addr >= (uint8_t*)h && (const uint8_t*)addr < b + csz) {
      *base = (uintptr_t)b; *size = h->size;
      return true;
    }
    off += sizeof *h + csz;
  }
  return false;
}
static void* ar_malloc(size_t n) {
  ar_init();
  if (AR_refuse_all) { AR_refused++; return NULL; }
  if (n > AR_cap) return NULL; /* keep huge declared counts on the refusal path */
  int z = ar_zone, c = ar_class(n);
  struct ar_hdr* h = ar_freelist[z][c];
  if (h) {
    memcpy(&ar_freelist[z][c], h + 1, sizeof(void*));
  } else {
    size_t need = sizeof *h + ar_class_size(c);
    if (ar_top[z] + need > AR_ZONE_BYTES) return NULL;
    h = (struct ar_hdr*)(ar_base[z] + ar_top[z]);
    ar_top[z] += need;
  }
  h->size = n; h->state = AR_LIVE;
  if (n) memset(h + 1, 0xD5, n);
  AR_allocs++; AR_live++;
  return h + 1;
}
static void ar_free(void* p) {
  if (!p) return;
  int z = ar_zone_of(p);
  struct ar_hdr* h = (struct ar_hdr*)p - 1;
  if (z < 0 || h->state != AR_LIVE) {
    AR_foreign_free++;
    vh_violation("free-of-foreign-block", "configured free received %p which %s", p,
                 z < 0 ? "lies outside the arena: it was not obtained from the configured allocator" : "is not a live arena block (double release)");
    return;
  }
  h->state = AR_FREE;
  int c = ar_class(h->size);
  memcpy(h + 1, &ar_freelist[z][c], sizeof(void*));
  ar_freelist[z][c] = h;
  AR_frees++; AR_live--;
}
static void* ar_realloc(void* p, size_t n) {
  if (AR_refuse_all) { AR_refused++; return NULL; }
  if (!p) return ar_malloc(n);
  int z = ar_zone_of(p);
  struct ar_hdr* h = (struct ar_hdr*)p - 1;
  if (z < 0 || h->state != AR_LIVE) {
    AR_foreign_free++;
    vh_violation("realloc-of-foreign-block", "configured realloc received %p which is not a live arena block", p);
    return NULL;
  }
  void* q = ar_malloc(n);
  if (!q) return NULL;
  memcpy(q, p, h->size < n ? h->size : n);
  ar_free(p);
  return q;
}

/* ---- header-less placement ("bump" mode of the arena) ----
 * Blocks are laid out back to back with no in-band header and no red zone, sizes rounded to 16: a block obtained right
 * after another starts exactly where the other ends, as with size-class or region allocators. Sizes and liveness live in
 * a side table. Code that infers ownership from addresses ("the data follows the item, so it is part of it") only
 * misbehaves under such a placement policy. */
bool AR_bump_mode;
static uint8_t* bp_base;
static size_t bp_off;
#define BP_BYTES ((size_t)1 << 30)
struct bp_ent { uint32_t off, size; uint8_t live; };
static struct bp_ent* bp_tab;
static size_t bp_n, bp_cap;
static struct bp_ent* bp_find(const void* p) {
  if (!bp_base || (const uint8_t*)p < bp_base || (const uint8_t*)p >= bp_base + bp_off) return NULL;
  uint32_t off = (uint32_t)((const uint8_t*)p - bp_base);
  size_t lo = 0, hi = bp_n;
  while (lo < hi) { size_t mid = (lo + hi) / 2; if (bp_tab[mid].off < off) lo = mid + 1; else hi = mid; }
  return lo < bp_n && bp_tab[lo].off == off ? &bp_tab[lo] : NULL;
}
static void bp_reset(void) { bp_off = 0; bp_n = 0; }
static void* bp_malloc(size_t n) {
  if (!bp_base) { bp_base = mmap(NULL, BP_BYTES, PROT_READ | PROT_WRITE, MAP_PRIVATE | MAP_ANONYMOUS | MAP_NORESERVE, -1, 0); if (bp_base == MAP_FAILED) vh_die("bump arena: mmap failed"); }
  if (AR_refuse_all) { AR_refused++; return NULL; }
  if (n > AR_cap) return NULL;
  size_t sz = (n + 15) & ~(size_t)15;
  if (sz == 0) sz = 16;
  if (bp_off + sz > BP_BYTES) return NULL;
  if (!bp_tab) { /* the side table is a lazily touched mapping of its own: nothing here goes through the C library's allocator */
    bp_cap = (size_t)16 << 20;
    bp_tab = mmap(NULL, bp_cap * sizeof *bp_tab, PROT_READ | PROT_WRITE, MAP_PRIVATE | MAP_ANONYMOUS | MAP_NORESERVE, -1, 0);
    if (bp_tab == MAP_FAILED) vh_die("bump arena: mmap of the side table failed");
  }
  if (bp_n == bp_cap) return NULL;
  void* p = bp_base + bp_off;
  bp_tab[bp_n++] = (struct bp_ent){(uint32_t)bp_off, (uint32_t)n, 1};
  bp_off += sz;
  if (n) memset(p, 0xD5, n);
  AR_allocs++; AR_live++;
  return p;
}
static void bp_free(void* p) {
  if (!p) return;
  struct bp_ent* e = bp_find(p);
  if (!e || !e->live) {
    AR_foreign_free++;
    vh_violation("free-of-foreign-block", "configured free received %p which %s", p, !e ? "is not the start of a block of the configured allocator" : "is not a live block (double release)");
    return;
  }
  e->live = 0;
  if (e->size) memset(p, 0xDD, e->size);
  AR_frees++; AR_live--;
}
static void* bp_realloc(void* p, size_t n) {
  if (AR_refuse_all) { AR_refused++; return NULL; }
  if (!p) return bp_malloc(n);
  struct bp_ent* e = bp_find(p);
  if (!e || !e->live) { AR_foreign_free++; vh_violation("realloc-of-foreign-block", "configured realloc received %p which is not a live block of the configured allocator", p); return NULL; }
  uint32_t osz = e->size;
  void* q = bp_malloc(n); /* may move the side table: e is stale from here on */
  if (!q) return NULL;
  memcpy(q, p, osz < n ? osz : n);
  bp_free(p);
  return q;
}

void ar_install(void) { if (AR_bump_mode) { cbor_set_allocs(bp_malloc, bp_realloc, bp_free); return; } ar_init(); cbor_set_allocs(ar_malloc, ar_realloc, ar_free); }

/* ======================================================================= tsafe */
__thread uint64_t TS_allocs, TS_frees;
#define TS_CAP ((size_t)1 << 20) /* deterministic refusal of huge declared counts */
static void* ts_malloc(size_t n) { if (n > TS_CAP) return NULL; TS_allocs++; return malloc(n); }
static void* ts_realloc(void* p, size_t n) { if (n > TS_CAP) return NULL; if (!p) TS_allocs++; return realloc(p, n); }
static void ts_free(void* p) { if (p) TS_frees++; free(p); }
void ts_install(void) { cbor_set_allocs(ts_malloc, ts_realloc, ts_free); }
