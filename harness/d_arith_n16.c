#define NT uint16_t
#define NBITS 16
#define NP(x) n16_##x
#include "d_arith_narrow.inc"
