/* vh_walk.c — walks libcbor items through the public API / public struct and
 * produces canonical dumps comparable with reference-tree dumps. */
#include "vh.h"

static uint32_t fbits(float f) { uint32_t b; memcpy(&b, &f, 4); return b; }
static uint64_t dbits(double d) { uint64_t b; memcpy(&b, &d, 8); return b; }

struct idtab { const void** p; size_t n, cap; };
static size_t id_of(struct idtab* t, const void* p) {
  for (size_t i = 0; i < t->n; i++)
    if (t->p[i] == p) return i;
  if (t->n == t->cap) { t->cap = t->cap ? t->cap * 2 : 64; t->p = realloc(t->p, t->cap * sizeof *t->p); }
  t->p[t->n] = p;
  return t->n++;
}

static void dump_item(const cbor_item_t* it, struct vh_buf* o, int flags, struct idtab* ids) {
  if (it == NULL) { vb_u8(o, '0'); return; }
  switch (cbor_typeof(it)) {
    case CBOR_TYPE_UINT:
    case CBOR_TYPE_NEGINT:
      vb_u8(o, cbor_typeof(it) == CBOR_TYPE_UINT ? 'U' : 'N');
      vb_u8(o, (uint8_t)cbor_int_get_width(it));
      vb_u64(o, cbor_get_int(it));
      break;
    case CBOR_TYPE_BYTESTRING:
      vb_u8(o, 'B');
      if (cbor_bytestring_is_definite(it)) {
        vb_u8(o, 0);
        vb_u64(o, cbor_bytestring_length(it));
        vb_put(o, cbor_bytestring_handle(it), cbor_bytestring_length(it));
      } else {
        vb_u8(o, 1);
        size_t n = cbor_bytestring_chunk_count(it);
        vb_u64(o, n);
        if (flags & WD_IDENTITY) vb_u64(o, cbor_bytestring_length(it));
        if (n && !cbor_bytestring_chunks_handle(it)) { vb_u8(o, 'X'); break; }
        for (size_t i = 0; i < n; i++) dump_item(cbor_bytestring_chunks_handle(it)[i], o, flags, ids);
      }
      break;
    case CBOR_TYPE_STRING:
      vb_u8(o, 'T');
      if (cbor_string_is_definite(it)) {
        vb_u8(o, 0);
        vb_u64(o, cbor_string_length(it));
        vb_put(o, cbor_string_handle(it), cbor_string_length(it));
        vb_u64(o, cbor_string_codepoint_count(it));
      } else {
        vb_u8(o, 1);
        size_t n = cbor_string_chunk_count(it);
        vb_u64(o, n);
        /* before/after snapshots of one object also record what the flavour-agnostic getters say about it */
        if (flags & WD_IDENTITY) { vb_u64(o, cbor_string_length(it)); vb_u64(o, cbor_string_codepoint_count(it)); }
        if (n && !cbor_string_chunks_handle(it)) { vb_u8(o, 'X'); break; }
        for (size_t i = 0; i < n; i++) dump_item(cbor_string_chunks_handle(it)[i], o, flags, ids);
      }
      break;
    case CBOR_TYPE_ARRAY: {
      vb_u8(o, 'A');
      vb_u8(o, cbor_array_is_indefinite(it) ? 1 : 0);
      size_t n = cbor_array_size(it);
      vb_u64(o, n);
      if (n && !cbor_array_handle(it)) { vb_u8(o, 'X'); break; } /* corrupt: members claimed but no storage */
      for (size_t i = 0; i < n; i++) dump_item(cbor_array_handle(it)[i], o, flags, ids);
      break;
    }
    case CBOR_TYPE_MAP: {
      vb_u8(o, 'M');
      vb_u8(o, cbor_map_is_indefinite(it) ? 1 : 0);
      size_t n = cbor_map_size(it);
      vb_u64(o, n);
      if (n && !cbor_map_handle(it)) { vb_u8(o, 'X'); break; } /* corrupt: pairs claimed but no storage */
      for (size_t i = 0; i < n; i++) {
        dump_item(cbor_map_handle(it)[i].key, o, flags, ids);
        dump_item(cbor_map_handle(it)[i].value, o, flags, ids);
      }
      break;
    }
    case CBOR_TYPE_TAG:
      vb_u8(o, 'G');
      vb_u64(o, cbor_tag_value(it));
      dump_item(it->metadata.tag_metadata.tagged_item, o, flags, ids);
      break;
    case CBOR_TYPE_FLOAT_CTRL:
      if (cbor_float_ctrl_is_ctrl(it)) {
        vb_u8(o, 'C');
        vb_u8(o, cbor_ctrl_value(it));
      } else {
        vb_u8(o, 'F');
        cbor_float_width w = cbor_float_get_width(it);
        vb_u8(o, (uint8_t)w);
        uint64_t bits;
        if (w == CBOR_FLOAT_16) { uint32_t b = fbits(cbor_float_get_float2(it)); bits = ref_is_nan32(b) ? 0x7fc00000u : b; }
        else if (w == CBOR_FLOAT_32) { uint32_t b = fbits(cbor_float_get_float4(it)); bits = ref_is_nan32(b) ? 0x7fc00000u : b; }
        else { uint64_t b = dbits(cbor_float_get_float8(it)); bits = ref_is_nan64(b) ? 0x7ff8000000000000ull : b; }
        vb_u64(o, bits);
      }
      break;
  }
  if (flags & WD_REFCOUNTS) { vb_u8(o, '#'); vb_u64(o, cbor_refcount(it)); }
  if (flags & WD_IDENTITY) { vb_u8(o, '@'); vb_u64(o, id_of(ids, it)); }
}
void walk_dump_item(const cbor_item_t* it, struct vh_buf* out, int flags) {
  struct idtab ids = {0};
  dump_item(it, out, flags, &ids);
  free(ids.p);
}

void walk_dump_ref(const rnode* n, struct vh_buf* o) {
  if (!n) { vb_u8(o, '0'); return; }
  switch (n->kind) {
    case R_UINT: case R_NEGINT:
      vb_u8(o, n->kind == R_UINT ? 'U' : 'N'); vb_u8(o, n->width); vb_u64(o, n->val); break;
    case R_BYTES: case R_TEXT:
      vb_u8(o, n->kind == R_BYTES ? 'B' : 'T');
      if (!n->indef) {
        vb_u8(o, 0); vb_u64(o, n->len); vb_put(o, n->bytes, n->len);
        if (n->kind == R_TEXT) { size_t c = 0; if (!ref_utf8(n->bytes, n->len, &c)) c = 0; vb_u64(o, c); }
      } else {
        vb_u8(o, 1); vb_u64(o, n->nkids);
        for (size_t i = 0; i < n->nkids; i++) walk_dump_ref(n->kids[i], o);
      }
      break;
    case R_ARRAY:
      vb_u8(o, 'A'); vb_u8(o, n->indef); vb_u64(o, n->nkids);
      for (size_t i = 0; i < n->nkids; i++) walk_dump_ref(n->kids[i], o);
      break;
    case R_MAP:
      vb_u8(o, 'M'); vb_u8(o, n->indef); vb_u64(o, (n->nkids + 1) / 2);
      for (size_t i = 0; i < n->nkids; i++) walk_dump_ref(n->kids[i], o);
      if (n->nkids & 1) vb_u8(o, '0');
      break;
    case R_TAG:
      vb_u8(o, 'G'); vb_u64(o, n->val); walk_dump_ref(n->nkids ? n->kids[0] : NULL, o); break;
    case R_FLOAT: {
      vb_u8(o, 'F'); vb_u8(o, n->width);
      uint64_t bits;
      if (n->width == 1) { uint32_t b = ref_half_to_single_bits((uint16_t)n->val); bits = ref_is_nan32(b) ? 0x7fc00000u : b; }
      else if (n->width == 2) bits = ref_is_nan32((uint32_t)n->val) ? 0x7fc00000u : (uint32_t)n->val;
      else bits = ref_is_nan64(n->val) ? 0x7ff8000000000000ull : n->val;
      vb_u64(o, bits);
      break;
    }
    case R_SIMPLE: vb_u8(o, 'C'); vb_u8(o, (uint8_t)n->val); break;
  }
}

static void print_item(const cbor_item_t* it, struct vh_buf* o, int depth) {
  if (o->n > 3000) { return; }
  if (!it) { vb_printf(o, "NULL"); return; }
  if (depth > 40) { vb_printf(o, "..."); return; }
  switch (cbor_typeof(it)) {
    case CBOR_TYPE_UINT: vb_printf(o, "u%d(%llu)", 8 << cbor_int_get_width(it), (unsigned long long)cbor_get_int(it)); break;
    case CBOR_TYPE_NEGINT: vb_printf(o, "n%d(%llu)", 8 << cbor_int_get_width(it), (unsigned long long)cbor_get_int(it)); break;
    case CBOR_TYPE_BYTESTRING:
    case CBOR_TYPE_STRING: {
      bool t = cbor_typeof(it) == CBOR_TYPE_STRING;
      bool def = t ? cbor_string_is_definite(it) : cbor_bytestring_is_definite(it);
      if (def) {
        size_t len = t ? cbor_string_length(it) : cbor_bytestring_length(it);
        const uint8_t* h = t ? cbor_string_handle(it) : cbor_bytestring_handle(it);
        vb_printf(o, "%s'%s'", t ? "t" : "h", h ? vh_hex(h, len, 16) : "(null)");
        if (t) vb_printf(o, "/cp%zu", cbor_string_codepoint_count(it));
      } else {
        size_t n = t ? cbor_string_chunk_count(it) : cbor_bytestring_chunk_count(it);
        cbor_item_t** c = t ? cbor_string_chunks_handle(it) : cbor_bytestring_chunks_handle(it);
        vb_printf(o, "%s_(", t ? "t" : "h");
        for (size_t i = 0; i < n; i++) { if (i) vb_printf(o, ","); print_item(c[i], o, depth + 1); }
        vb_printf(o, ")");
      }
      break;
    }
    case CBOR_TYPE_ARRAY:
      vb_printf(o, cbor_array_is_indefinite(it) ? "[_ " : "[");
      if (cbor_array_size(it) && !cbor_array_handle(it)) { vb_printf(o, "<%zu members but storage pointer is NULL>]", cbor_array_size(it)); break; }
      for (size_t i = 0; i < cbor_array_size(it); i++) { if (i) vb_printf(o, ","); print_item(cbor_array_handle(it)[i], o, depth + 1); }
      vb_printf(o, "]/%zu", cbor_array_allocated(it));
      break;
    case CBOR_TYPE_MAP:
      vb_printf(o, cbor_map_is_indefinite(it) ? "{_ " : "{");
      if (cbor_map_size(it) && !cbor_map_handle(it)) { vb_printf(o, "<%zu pairs but storage pointer is NULL>}", cbor_map_size(it)); break; }
      for (size_t i = 0; i < cbor_map_size(it); i++) {
        if (i) vb_printf(o, ",");
        print_item(cbor_map_handle(it)[i].key, o, depth + 1);
        vb_printf(o, ":");
        print_item(cbor_map_handle(it)[i].value, o, depth + 1);
      }
      vb_printf(o, "}/%zu", cbor_map_allocated(it));
      break;
    case CBOR_TYPE_TAG:
      vb_printf(o, "%llu(", (unsigned long long)cbor_tag_value(it));
      print_item(it->metadata.tag_metadata.tagged_item, o, depth + 1);
      vb_printf(o, ")");
      break;
    case CBOR_TYPE_FLOAT_CTRL:
      if (cbor_float_ctrl_is_ctrl(it)) vb_printf(o, "simple(%u)", cbor_ctrl_value(it));
      else if (cbor_float_get_width(it) == CBOR_FLOAT_16) vb_printf(o, "f16(%08x)", fbits(cbor_float_get_float2(it)));
      else if (cbor_float_get_width(it) == CBOR_FLOAT_32) vb_printf(o, "f32(%08x)", fbits(cbor_float_get_float4(it)));
      else vb_printf(o, "f64(%016llx)", (unsigned long long)dbits(cbor_float_get_float8(it)));
      break;
  }
  vb_printf(o, "#%zu", cbor_refcount(it));
}
void walk_print_item(const cbor_item_t* it, struct vh_buf* out) { print_item(it, out, 0); vb_u8(out, 0); out->n--; }

void walk_blocks(const cbor_item_t* it, walk_block_cb cb, void* ud) {
  if (!it) return;
  cb(it, sizeof *it, "item", ud);
  switch (cbor_typeof(it)) {
    case CBOR_TYPE_BYTESTRING:
    case CBOR_TYPE_STRING: {
      bool t = cbor_typeof(it) == CBOR_TYPE_STRING;
      bool def = t ? cbor_string_is_definite(it) : cbor_bytestring_is_definite(it);
      if (def) {
        if (it->data) cb(it->data, t ? cbor_string_length(it) : cbor_bytestring_length(it), "string-buffer", ud);
      } else {
        cb(it->data, sizeof(struct cbor_indefinite_string_data), "chunk-header", ud);
        size_t n = t ? cbor_string_chunk_count(it) : cbor_bytestring_chunk_count(it);
        cbor_item_t** c = t ? cbor_string_chunks_handle(it) : cbor_bytestring_chunks_handle(it);
        if (c) cb(c, n * sizeof *c, "chunk-table", ud);
        for (size_t i = 0; i < n; i++) walk_blocks(c[i], cb, ud);
      }
      break;
    }
    case CBOR_TYPE_ARRAY:
      if (it->data) cb(it->data, cbor_array_allocated(it) * sizeof(cbor_item_t*), "array-storage", ud);
      else break; /* nothing (or corrupt: members claimed without storage) */
      for (size_t i = 0; i < cbor_array_size(it); i++) walk_blocks(cbor_array_handle(it)[i], cb, ud);
      break;
    case CBOR_TYPE_MAP:
      if (it->data) cb(it->data, cbor_map_allocated(it) * sizeof(struct cbor_pair), "map-storage", ud);
      else break;
      for (size_t i = 0; i < cbor_map_size(it); i++) {
        walk_blocks(cbor_map_handle(it)[i].key, cb, ud);
        walk_blocks(cbor_map_handle(it)[i].value, cb, ud);
      }
      break;
    case CBOR_TYPE_TAG:
      walk_blocks(it->metadata.tag_metadata.tagged_item, cb, ud);
      break;
    default: break;
  }
}
static void count_cb(const void* p, size_t len, const char* what, void* ud) {
  (void)p; (void)len;
  if (!strcmp(what, "item")) ++*(size_t*)ud;
}
size_t walk_count_nodes(const cbor_item_t* it) { size_t n = 0; walk_blocks(it, count_cb, &n); return n; }
static void rc1_cb(const void* p, size_t len, const char* what, void* ud) {
  (void)len;
  if (!strcmp(what, "item") && cbor_refcount((const cbor_item_t*)p) != 1) *(bool*)ud = false;
}
bool walk_all_rc1(const cbor_item_t* it) { bool ok = true; walk_blocks(it, rc1_cb, &ok); return ok; }

/* Build a libcbor tree from a reference tree with the construction API.
 * Returns NULL if any allocation was refused (everything released). */
static float half_as_float(uint16_t h) { uint32_t b = ref_half_to_single_bits(h); float f; memcpy(&f, &b, 4); return f; }
cbor_item_t* walk_build_from_ref(const rnode* n) {
  cbor_item_t* it = NULL;
  switch (n->kind) {
    case R_UINT:
      it = n->width == 0 ? cbor_build_uint8((uint8_t)n->val) : n->width == 1 ? cbor_build_uint16((uint16_t)n->val)
         : n->width == 2 ? cbor_build_uint32((uint32_t)n->val) : cbor_build_uint64(n->val);
      break;
    case R_NEGINT:
      it = n->width == 0 ? cbor_build_negint8((uint8_t)n->val) : n->width == 1 ? cbor_build_negint16((uint16_t)n->val)
         : n->width == 2 ? cbor_build_negint32((uint32_t)n->val) : cbor_build_negint64(n->val);
      break;
    case R_BYTES:
    case R_TEXT:
      if (!n->indef) {
        uint8_t empty = 0;
        const uint8_t* src = n->bytes ? n->bytes : &empty;
        it = n->kind == R_BYTES ? cbor_build_bytestring(src, n->len) : cbor_build_stringn((const char*)src, n->len);
      } else {
        it = n->kind == R_BYTES ? cbor_new_indefinite_bytestring() : cbor_new_indefinite_string();
        if (!it) return NULL;
        for (size_t i = 0; i < n->nkids; i++) {
          cbor_item_t* c = walk_build_from_ref(n->kids[i]);
          if (!c) { cbor_decref(&it); return NULL; }
          bool ok = n->kind == R_BYTES ? cbor_bytestring_add_chunk(it, c) : cbor_string_add_chunk(it, c);
          cbor_decref(&c);
          if (!ok) { cbor_decref(&it); return NULL; }
        }
      }
      break;
    case R_ARRAY:
      it = n->indef ? cbor_new_indefinite_array() : cbor_new_definite_array(n->nkids);
      if (!it) return NULL;
      for (size_t i = 0; i < n->nkids; i++) {
        cbor_item_t* c = walk_build_from_ref(n->kids[i]);
        if (!c) { cbor_decref(&it); return NULL; }
        bool ok = (i & 1) ? cbor_array_push(it, c) : cbor_array_set(it, i, c);
        cbor_decref(&c);
        if (!ok) { cbor_decref(&it); return NULL; }
      }
      break;
    case R_MAP:
      it = n->indef ? cbor_new_indefinite_map() : cbor_new_definite_map(n->nkids / 2);
      if (!it) return NULL;
      for (size_t i = 0; i + 1 < n->nkids; i += 2) {
        cbor_item_t* k = walk_build_from_ref(n->kids[i]);
        if (!k) { cbor_decref(&it); return NULL; }
        cbor_item_t* v = walk_build_from_ref(n->kids[i + 1]);
        if (!v) { cbor_decref(&k); cbor_decref(&it); return NULL; }
        bool ok = cbor_map_add(it, (struct cbor_pair){.key = k, .value = v});
        cbor_decref(&k);
        cbor_decref(&v);
        if (!ok) { cbor_decref(&it); return NULL; }
      }
      break;
    case R_TAG: {
      cbor_item_t* c = walk_build_from_ref(n->kids[0]);
      if (!c) return NULL;
      if (n->val & 1) {
        it = cbor_build_tag(n->val, c);
      } else {
        it = cbor_new_tag(n->val);
        if (it) cbor_tag_set_item(it, c);
      }
      cbor_decref(&c);
      break;
    }
    case R_FLOAT:
      if (n->width == 1) it = cbor_build_float2(half_as_float((uint16_t)n->val));
      else if (n->width == 2) { float f; uint32_t b = (uint32_t)n->val; memcpy(&f, &b, 4); it = cbor_build_float4(f); }
      else { double d; memcpy(&d, &n->val, 8); it = cbor_build_float8(d); }
      break;
    case R_SIMPLE:
      if (n->val == 20 || n->val == 21) it = cbor_build_bool(n->val == 21);
      else if (n->val == 22) it = cbor_new_null();
      else if (n->val == 23) it = cbor_new_undef();
      else it = cbor_build_ctrl((uint8_t)n->val);
      break;
  }
  return it;
}

/* Predicates and type-specific getters must agree with each other on every node.
 * Returns NULL if consistent, else a static description of the first inconsistency. */
static const char* check_node_predicates(const cbor_item_t* it) {
  cbor_type t = cbor_typeof(it);
  int isa = cbor_isa_uint(it) + cbor_isa_negint(it) + cbor_isa_bytestring(it) + cbor_isa_string(it) + cbor_isa_array(it) + cbor_isa_map(it) + cbor_isa_tag(it) + cbor_isa_float_ctrl(it);
  if (isa != 1) return "not exactly one cbor_isa_* predicate is true";
  bool want[8] = {cbor_isa_uint(it), cbor_isa_negint(it), cbor_isa_bytestring(it), cbor_isa_string(it), cbor_isa_array(it), cbor_isa_map(it), cbor_isa_tag(it), cbor_isa_float_ctrl(it)};
  if (!want[(int)t]) return "cbor_typeof disagrees with the cbor_isa_* predicates";
  if (cbor_is_int(it) != (t == CBOR_TYPE_UINT || t == CBOR_TYPE_NEGINT)) return "cbor_is_int disagrees with the type";
  if (t == CBOR_TYPE_FLOAT_CTRL) {
    bool ctrl = cbor_float_ctrl_is_ctrl(it);
    if (cbor_is_float(it) == ctrl) return "cbor_is_float and cbor_float_ctrl_is_ctrl are not complementary";
    if (ctrl != (cbor_float_get_width(it) == CBOR_FLOAT_0)) return "cbor_float_ctrl_is_ctrl disagrees with the width";
    if (ctrl) {
      uint8_t v = cbor_ctrl_value(it);
      if (cbor_is_bool(it) != (v == 20 || v == 21)) return "cbor_is_bool disagrees with the simple value";
      if (cbor_is_null(it) != (v == 22)) return "cbor_is_null disagrees with the simple value";
      if (cbor_is_undef(it) != (v == 23)) return "cbor_is_undef disagrees with the simple value";
      if (cbor_is_bool(it) && cbor_get_bool(it) != (v == 21)) return "cbor_get_bool disagrees with the simple value";
    } else {
      if (cbor_is_bool(it) || cbor_is_null(it) || cbor_is_undef(it)) return "a float item claims to be bool/null/undef";
      double wide = cbor_float_get_float(it);
      double exact = cbor_float_get_width(it) == CBOR_FLOAT_64 ? cbor_float_get_float8(it) : (double)(cbor_float_get_width(it) == CBOR_FLOAT_16 ? cbor_float_get_float2(it) : cbor_float_get_float4(it));
      if (!(wide != wide && exact != exact) && memcmp(&wide, &exact, sizeof wide)) return "cbor_float_get_float disagrees with the width-specific getter";
    }
  } else if (cbor_is_float(it) || cbor_is_bool(it) || cbor_is_null(it) || cbor_is_undef(it)) return "a non-float/ctrl item satisfies a float/ctrl predicate";
  if (t == CBOR_TYPE_UINT || t == CBOR_TYPE_NEGINT) {
    uint64_t g = cbor_get_int(it), w;
    switch (cbor_int_get_width(it)) {
      case CBOR_INT_8: w = cbor_get_uint8(it); break;
      case CBOR_INT_16: w = cbor_get_uint16(it); break;
      case CBOR_INT_32: w = cbor_get_uint32(it); break;
      default: w = cbor_get_uint64(it); break;
    }
    if (g != w) return "cbor_get_int disagrees with the width-specific getter";
  }
  if (t == CBOR_TYPE_BYTESTRING && cbor_bytestring_is_definite(it) == cbor_bytestring_is_indefinite(it)) return "bytestring is_definite / is_indefinite not complementary";
  if (t == CBOR_TYPE_STRING && cbor_string_is_definite(it) == cbor_string_is_indefinite(it)) return "string is_definite / is_indefinite not complementary";
  if (t == CBOR_TYPE_ARRAY && cbor_array_is_definite(it) == cbor_array_is_indefinite(it)) return "array is_definite / is_indefinite not complementary";
  if (t == CBOR_TYPE_MAP && cbor_map_is_definite(it) == cbor_map_is_indefinite(it)) return "map is_definite / is_indefinite not complementary";
  return NULL;
}
struct pred_ud { const char* bad; };
static void pred_cb(const void* p, size_t len, const char* what, void* ud) {
  (void)len;
  struct pred_ud* u = ud;
  if (!u->bad && !strcmp(what, "item")) u->bad = check_node_predicates((const cbor_item_t*)p);
}
const char* walk_check_predicates(const cbor_item_t* it) { struct pred_ud u = {NULL}; walk_blocks(it, pred_cb, &u); return u.bad; }
