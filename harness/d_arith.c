/* d_arith.c — driver "arith" (C20): size arithmetic never wraps.
 *   stage narrow : the real memory_utils.c compiled at 8- and 16-bit size_t, every operand pair
 *   stage grid   : the compiled 64-bit functions on a dense boundary grid + seeded random, vs unsigned __int128
 *   stage e2e    : declared counts/lengths and capacities near 2^59..2^64 through the public API with a
 *                  size-recording allocator (requests above 1 MiB are recorded and refused, so nothing huge is touched) */
#include "cbor/internal/memory_utils.h"
#include "vh.h"

typedef unsigned __int128 u128;
uint64_t n8_sweep(uint64_t, uint64_t, uint64_t, uint64_t*, void (*)(const char*, int, uint64_t, uint64_t, const char*));
uint64_t n16_sweep(uint64_t, uint64_t, uint64_t, uint64_t*, void (*)(const char*, int, uint64_t, uint64_t, const char*));

static void narrow_report(const char* key, int bits, uint64_t a, uint64_t b, const char* msg) {
  vh_violation(key, "memory_utils.c compiled with a %d-bit size_t, operands (%llu, %llu): %s", bits, (unsigned long long)a, (unsigned long long)b, msg);
}

/* ------------------------------------------------------------------ grid */
static uint64_t g_conservative, g_pairs;
static void pair64(uint64_t a, uint64_t b) {
  g_pairs++;
  u128 prod = (u128)a * b, sum = (u128)a + b;
  bool m = _cbor_safe_to_multiply(a, b);
  if (m && prod > (u128)SIZE_MAX) vh_violation("multiply-guard-admits-overflow", "_cbor_safe_to_multiply(%llu, %llu) is true but the product needs more than 64 bits", (unsigned long long)a, (unsigned long long)b);
  if (!m && prod <= (u128)SIZE_MAX) g_conservative++;
  bool ad = _cbor_safe_to_add(a, b);
  if (ad != (sum <= (u128)SIZE_MAX)) vh_violation("add-guard-wrong", "_cbor_safe_to_add(%llu, %llu) = %d", (unsigned long long)a, (unsigned long long)b, ad);
  size_t sg = _cbor_safe_signaling_add(a, b);
  size_t want = (a == 0 || b == 0 || sum > (u128)SIZE_MAX) ? 0 : (size_t)sum;
  if (sg != want) vh_violation("signaling-add-wrong", "_cbor_safe_signaling_add(%llu, %llu) = %zu, expected %zu", (unsigned long long)a, (unsigned long long)b, sg, want);
  /* guarded allocation: every request is recorded; big ones refused */
  ta_reset_stats();
  void* p = _cbor_alloc_multiple(a, b);
  if (TA.requests) { if ((u128)ta_last_request_size() < prod) vh_violation("alloc-multiple-under-allocates", "_cbor_alloc_multiple(%llu, %llu) requested %llu bytes", (unsigned long long)a, (unsigned long long)b, (unsigned long long)ta_last_request_size()); }
  else if (p) vh_violation("alloc-multiple-no-request", "non-NULL without a request");
  if (p) ta_free(p);
  ta_reset_stats();
  p = _cbor_realloc_multiple(NULL, a, b);
  if (TA.requests) { if ((u128)ta_last_request_size() < prod) vh_violation("realloc-multiple-under-allocates", "_cbor_realloc_multiple(NULL, %llu, %llu) requested %llu bytes", (unsigned long long)a, (unsigned long long)b, (unsigned long long)ta_last_request_size()); }
  else if (p) vh_violation("realloc-multiple-no-request", "non-NULL without a request");
  if (p) ta_free(p);
}
static void pair_case(uint64_t a, uint64_t b, bool hashed) {
  uint8_t d[17] = {'P'};
  for (int i = 0; i < 8; i++) { d[1 + i] = (uint8_t)(a >> (56 - 8 * i)); d[9 + i] = (uint8_t)(b >> (56 - 8 * i)); }
  if (!vh_case(d, 17)) return;
  pair64(a, b);
  if (hashed) vh_nontrivial(vh_hash(d, 17)); else vh_nontrivial_distinct();
}

/* ------------------------------------------------------------------- e2e */
#define BIG ((size_t)1 << 20)
static const char* g_what;
static void e2e_begin(const uint8_t* d, size_t n, bool* run) { *run = vh_case(d, n); if (*run) { ta_reset_stats(); } }

/* the largest request made during the call must cover `need` (128-bit), or no large request was made and the call failed */
static void check_requests(u128 need, bool call_failed, const char* what, uint64_t x) {
  if (TA.max_request > BIG) {
    if ((u128)TA.max_request < need) vh_violation("under-allocation-requested", "%s (%llu): the allocator was asked for %llu bytes, fewer than the %s bytes the declared size needs", what, (unsigned long long)x,
                                                  (unsigned long long)TA.max_request, need > (u128)SIZE_MAX ? "more than 2^64" : "required");
  } else if (need > (u128)BIG && !call_failed) vh_violation("proceeded-on-truncated-size", "%s (%llu): the call succeeded without ever requesting the %s bytes it needs", what, (unsigned long long)x, need > (u128)SIZE_MAX ? ">2^64" : "required");
}

static void e2e_new_definite(uint64_t n) {
  uint8_t d[10] = {'N', 0};
  for (int i = 0; i < 8; i++) d[2 + i] = (uint8_t)(n >> (56 - 8 * i));
  for (int map = 0; map < 2; map++) {
    d[1] = (uint8_t)map;
    bool run; e2e_begin(d, 10, &run); if (!run) continue;
    cbor_item_t* it = map ? cbor_new_definite_map(n) : cbor_new_definite_array(n);
    u128 need = (u128)n * (map ? sizeof(struct cbor_pair) : sizeof(cbor_item_t*));
    check_requests(need, it == NULL, map ? "cbor_new_definite_map" : "cbor_new_definite_array", n);
    if (it) { if ((map ? cbor_map_allocated(it) : cbor_array_allocated(it)) != n) vh_violation("capacity-differs", "created container reports capacity %zu for %llu", map ? cbor_map_allocated(it) : cbor_array_allocated(it), (unsigned long long)n); cbor_decref(&it); }
    if (ta_live_count()) { vh_violation("leak", "%zu block(s) left after a refused creation", ta_live_count()); ta_forget_all(); }
    vh_nontrivial(vh_hash(d, 10));
  }
}

/* constructors that take a client-supplied length: the payload request must cover it, or the call must fail before anything
 * is copied (the source here is 8 bytes long: a correct library never reads it, because the allocator refuses > 1 MiB) */
static void e2e_build(uint64_t n) {
  static const char* const names[] = {"cbor_build_stringn", "cbor_build_bytestring"};
  uint8_t d[10] = {'B', 0};
  for (int i = 0; i < 8; i++) d[2 + i] = (uint8_t)(n >> (56 - 8 * i));
  static const unsigned char src[8] = "payload";
  if (n <= BIG + 64) return; /* lengths the allocator would grant would make the library (rightly) read n bytes of src */
  for (int which = 0; which < 2; which++) {
    d[1] = (uint8_t)which;
    bool run; e2e_begin(d, 10, &run); if (!run) continue;
    cbor_item_t* it = which == 0 ? cbor_build_stringn((const char*)src, (size_t)n) : cbor_build_bytestring(src, (size_t)n);
    check_requests((u128)n, it == NULL, names[which], n);
    if (it) { vh_violation("proceeded-on-truncated-size", "%s with length %llu returned an item although the allocator refuses every request above 1 MiB", names[which], (unsigned long long)n); it->data = NULL; cbor_decref(&it); }
    if (ta_live_count()) { vh_violation("leak", "%zu block(s) left after a refused %s", ta_live_count(), names[which]); ta_forget_all(); }
    vh_nontrivial(vh_hash(d, 10));
  }
}

static void e2e_load(unsigned ib, uint64_t n) {
  uint8_t d[10] = {'L', (uint8_t)ib};
  for (int i = 0; i < 8; i++) d[2 + i] = (uint8_t)(n >> (56 - 8 * i));
  bool run; e2e_begin(d, 10, &run); if (!run) return;
  uint8_t in[12] = {(uint8_t)ib};
  for (int i = 0; i < 8; i++) in[1 + i] = (uint8_t)(n >> (56 - 8 * i));
  in[9] = 0x00; in[10] = 0x00; in[11] = 0x00;
  uint8_t* ex = vh_exact(in, 12);
  struct cbor_load_result r;
  cbor_item_t* it = cbor_load(ex, 12, &r);
  unsigned mt = ib >> 5;
  if (mt == 4 || mt == 5) {
    u128 need = (u128)n * (mt == 5 ? sizeof(struct cbor_pair) : sizeof(cbor_item_t*));
    check_requests(need, it == NULL, mt == 5 ? "cbor_load of a map head declaring pairs" : "cbor_load of an array head declaring members", n);
    if (it && n > 3) vh_violation("huge-count-accepted", "a container declaring %llu members was decoded from a 12-byte input", (unsigned long long)n);
    if (!it && n > BIG && r.error.code != CBOR_ERR_MEMERROR && r.error.code != CBOR_ERR_NOTENOUGHDATA) vh_violation("huge-count-wrong-code", "declared count %llu rejected with code %d", (unsigned long long)n, (int)r.error.code);
  } else {
    /* strings: the payload is not there; no allocation of the declared length may be attempted on a truncated size */
    if (it && n > 3) vh_violation("huge-length-accepted", "a string declaring %llu bytes was decoded from a 12-byte input", (unsigned long long)n);
    if (TA.max_request > BIG && (u128)TA.max_request < (u128)n) vh_violation("under-allocation-requested", "string head declaring %llu bytes: allocator asked for %llu", (unsigned long long)n, (unsigned long long)TA.max_request);
    /* only 3 payload bytes are present: an allocation of the declared length means the "is the payload there?" arithmetic wrapped */
    if (n > 3 && TA.max_request > BIG) vh_violation("proceeded-on-truncated-size", "string head declaring %llu bytes in a 12-byte input: the decoder went on to request %llu bytes although the payload is not there (length check wrapped)", (unsigned long long)n, (unsigned long long)TA.max_request);
    if (n > 3 && !it && r.error.code != CBOR_ERR_NOTENOUGHDATA) vh_violation("proceeded-on-truncated-size", "string head declaring %llu bytes in a 12-byte input failed with code %d instead of NOTENOUGHDATA", (unsigned long long)n, (int)r.error.code);
  }
  if (it) cbor_decref(&it);
  free(ex);
  if (ta_live_count()) { vh_violation("leak", "%zu block(s) left", ta_live_count()); ta_forget_all(); }
  vh_nontrivial(vh_hash(d, 10));
}

/* growth from a huge pretended capacity, the way the repository's own overflow tests do it */
static void e2e_growth(int kind, uint64_t cap) {
  uint8_t d[10] = {'G', (uint8_t)kind};
  for (int i = 0; i < 8; i++) d[2 + i] = (uint8_t)(cap >> (56 - 8 * i));
  bool run; e2e_begin(d, 10, &run); if (!run) return;
  static const char* names[] = {"cbor_array_push on an indefinite array", "cbor_map_add on an indefinite map", "cbor_bytestring_add_chunk", "cbor_string_add_chunk", "cbor_array_set(size) on an indefinite array"};
  cbor_item_t* c = kind == 0 || kind == 4 ? cbor_new_indefinite_array() : kind == 1 ? cbor_new_indefinite_map() : kind == 2 ? cbor_new_indefinite_bytestring() : cbor_new_indefinite_string();
  cbor_item_t* x = kind == 2 ? cbor_build_bytestring((const unsigned char*)"c", 1) : kind == 3 ? cbor_build_string("c") : cbor_build_uint8(1);
  size_t elem = kind == 1 ? sizeof(struct cbor_pair) : sizeof(cbor_item_t*);
  struct cbor_indefinite_string_data* sd = (kind == 2 || kind == 3) ? (struct cbor_indefinite_string_data*)c->data : NULL;
  if (kind == 0 || kind == 4) { c->metadata.array_metadata.allocated = cap; c->metadata.array_metadata.end_ptr = cap; }
  else if (kind == 1) { c->metadata.map_metadata.allocated = cap; c->metadata.map_metadata.end_ptr = cap; }
  else { sd->chunk_capacity = cap; sd->chunk_count = cap; }
  size_t rc0 = cbor_refcount(x);
  ta_reset_stats();
  bool ok = kind == 0 ? cbor_array_push(c, x) : kind == 4 ? cbor_array_set(c, cap, x) : kind == 1 ? cbor_map_add(c, (struct cbor_pair){.key = x, .value = x}) : kind == 2 ? cbor_bytestring_add_chunk(c, x) : cbor_string_add_chunk(c, x);
  u128 need = ((u128)cap + 1) * elem;
  if (ok) vh_violation("proceeded-on-truncated-size", "%s with %llu members already stored succeeded although %s bytes cannot have been obtained", names[kind], (unsigned long long)cap, need > (u128)SIZE_MAX ? "more than 2^64" : "that many");
  if (TA.max_request > BIG && (u128)TA.max_request < need) vh_violation("under-allocation-requested", "%s with %llu members stored: the allocator was asked for %llu bytes, fewer than (members+1) x %zu", names[kind], (unsigned long long)cap, (unsigned long long)TA.max_request, elem);
  size_t cap_after = (kind == 0 || kind == 4) ? c->metadata.array_metadata.allocated : kind == 1 ? c->metadata.map_metadata.allocated : sd->chunk_capacity;
  if (cap_after < cap) vh_violation("capacity-decreased", "%s: capacity went from %llu to %zu", names[kind], (unsigned long long)cap, cap_after);
  if (!ok && cbor_refcount(x) != rc0) vh_violation("refcount-changed-by-failed-insert", "%s failed but the member's reference count went from %zu to %zu", names[kind], rc0, cbor_refcount(x));
  /* restore a state the destructor can handle */
  if (kind == 0 || kind == 4) { c->metadata.array_metadata.allocated = 0; c->metadata.array_metadata.end_ptr = 0; }
  else if (kind == 1) { c->metadata.map_metadata.allocated = 0; c->metadata.map_metadata.end_ptr = 0; }
  else { sd->chunk_capacity = 0; sd->chunk_count = 0; }
  if (ok) { /* the library believed it stored something: drop the reference it took */ while (cbor_refcount(x) > rc0) { cbor_item_t* t = x; cbor_decref(&t); } if (c->data && kind != 2 && kind != 3) { /* block obtained for the grown storage */ } }
  cbor_decref(&c);
  cbor_decref(&x);
  if (ta_live_count()) { if (!ok) vh_violation("leak", "%zu block(s) left", ta_live_count()); ta_forget_all(); }
  vh_nontrivial(vh_hash(d, 10));
}

/* serialized size of trees whose strings carry huge declared lengths (never dereferenced), shared k times */
static void e2e_size(int shape, uint64_t len, unsigned k) {
  uint8_t d[11] = {'Z', (uint8_t)shape, (uint8_t)k};
  for (int i = 0; i < 8; i++) d[3 + i] = (uint8_t)(len >> (56 - 8 * i));
  bool run; e2e_begin(d, 11, &run); if (!run) return;
  ta_set_cap(0);
  cbor_item_t* s = (shape & 1) ? cbor_new_definite_string() : cbor_new_definite_bytestring();
  unsigned char* h = ta_malloc(4);
  memcpy(h, "abcd", 4);
  /* a length that was never backed by memory: only size computation may look at it */
  if (shape & 1) { s->data = h; s->metadata.string_metadata.length = (size_t)len; s->metadata.string_metadata.codepoint_count = 0; } else cbor_bytestring_set_handle(s, h, (size_t)len);
  unsigned hs = len < 24 ? 1 : len <= 0xff ? 2 : len <= 0xffff ? 3 : len <= 0xffffffffull ? 5 : 9;
  u128 one = (u128)hs + len;
  cbor_item_t* root;
  u128 want;
  int form = shape >> 1;
  if (form == 0) { /* definite array of k references to the same string */
    root = cbor_new_definite_array(k);
    for (unsigned i = 0; i < k; i++) (void)cbor_array_push(root, s);
    want = (k < 24 ? 1 : 2) + (u128)k * one;
  } else if (form == 1) { /* indefinite map: k pairs (string, string) */
    root = cbor_new_indefinite_map();
    for (unsigned i = 0; i < k; i++) (void)cbor_map_add(root, (struct cbor_pair){.key = s, .value = s});
    want = 2 + (u128)2 * k * one;
  } else if (form == 2) { /* chunked string of k chunks */
    root = (shape & 1) ? cbor_new_indefinite_string() : cbor_new_indefinite_bytestring();
    for (unsigned i = 0; i < k; i++) (void)((shape & 1) ? cbor_string_add_chunk(root, s) : cbor_bytestring_add_chunk(root, s));
    want = 2 + (u128)k * one;
  } else { /* tag(tag(array[k])) */
    cbor_item_t* a = cbor_new_indefinite_array();
    for (unsigned i = 0; i < k; i++) (void)cbor_array_push(a, s);
    cbor_item_t* t1 = cbor_build_tag(1, a);
    root = cbor_build_tag(0xffffffffffull, t1);
    cbor_decref(&a); cbor_decref(&t1);
    want = 9 + 1 + 2 + (u128)k * one;
  }
  size_t got = cbor_serialized_size(root);
  size_t expect = want > (u128)SIZE_MAX ? 0 : (size_t)want;
  if (got != expect) vh_violation("serialized-size-wrapped", "cbor_serialized_size of a tree whose exact total is %s%llu returned %zu (must be the exact total or 0)", want > (u128)SIZE_MAX ? "2^64 + " : "", (unsigned long long)(uint64_t)want, got);
  VH_COUNT(want > (u128)SIZE_MAX ? "size.total_exceeds_2_64" : "size.total_fits", 1);
  /* serialize_alloc must refuse rather than under-allocate */
  ta_set_cap(BIG);
  ta_reset_stats();
  unsigned char* ab = NULL; size_t abn = 77;
  size_t w = cbor_serialize_alloc(root, &ab, &abn);
  if (want > (u128)BIG) {
    if (w != 0 || ab != NULL) vh_violation("serialize-alloc-proceeded", "cbor_serialize_alloc returned %zu for a tree of %s bytes", w, want > (u128)SIZE_MAX ? ">2^64" : "huge");
    if (TA.max_request > BIG && (u128)TA.max_request < want) vh_violation("under-allocation-requested", "cbor_serialize_alloc asked for %llu bytes for a tree needing more", (unsigned long long)TA.max_request);
  }
  if (ab) ta_free(ab);
  /* fixed-buffer serialization of the same tree: no buffer of ordinary size holds it, so every call answers 0 and
   * writes nothing beyond the buffer (a room computation that wraps would start copying the pretended length) */
  if (want > (u128)BIG) {
    static const size_t ns[] = {0, 1, 8, 9, 10, 17, 64, 4096};
    uint8_t* out = malloc(4096 + 64);
    for (size_t i = 0; i < sizeof ns / sizeof ns[0]; i++) {
      memset(out, 0x5e, 4096 + 64);
      size_t r = cbor_serialize(root, out, ns[i]);
      if (r != 0) vh_violation("proceeded-on-truncated-size", "cbor_serialize of a tree needing %s bytes into a %zu-byte buffer returned %zu", want > (u128)SIZE_MAX ? ">2^64" : "far more", ns[i], r);
      for (size_t q = ns[i]; q < 4096 + 64; q++) if (out[q] != 0x5e) { vh_violation("write-beyond-buffer", "cbor_serialize with buffer_size=%zu modified byte %zu", ns[i], q); break; }
      size_t r2 = (shape & 1) && form == 0 && k == 1 ? cbor_serialize_string(s, out, ns[i]) : form == 0 && k == 1 ? cbor_serialize_bytestring(s, out, ns[i]) : 0;
      if (r2 != 0) vh_violation("proceeded-on-truncated-size", "the typed string serializer returned %zu for a string of pretended length %llu in a %zu-byte buffer", r2, (unsigned long long)len, ns[i]);
    }
    free(out);
    VH_COUNT("size.fixed_buffer_serializations_of_oversize_trees", sizeof ns / sizeof ns[0]);
  }
  /* restore and release */
  if (shape & 1) s->metadata.string_metadata.length = 4; else cbor_bytestring_set_handle(s, h, 4);
  cbor_decref(&root);
  cbor_decref(&s);
  if (ta_live_count()) { vh_violation("leak", "%zu block(s) left", ta_live_count()); ta_forget_all(); }
  vh_nontrivial(vh_hash(d, 11));
}

static void arith_setup(void) {
  if (strcmp(O.prop, "C20")) vh_die("driver arith: --prop must be C20");
  ref_selftest();
  ta_install();
  if (!ta_selftest()) vh_die("track allocator self-test failed");
  ta_set_cap(BIG);
  (void)g_what;
}

static void arith_run(void) {
  arith_setup();
  const char* st = O.stage;
  if (!strcmp(st, "narrow")) {
    uint64_t cons = 0, n = 0;
    /* 8 bit: all 2^16 pairs, by shard 0; 16 bit: all 2^32 pairs in the thorough tier, every 61st b in the quick tier */
    uint8_t d[4] = {'W', 8, 0, 0};
    if (O.shard == 0 && vh_case(d, 4)) { n += n8_sweep(0, 256, 1, &cons, narrow_report); }
    uint64_t stride = O.thorough ? 1 : 61;
    for (uint64_t a0 = 0; a0 < 65536; a0 += 256) {
      if ((int)((a0 / 256) % (uint64_t)O.nshards) != O.shard) continue;
      d[1] = 16; d[2] = (uint8_t)(a0 >> 8); d[3] = (uint8_t)stride;
      if (!vh_case(d, 4)) continue;
      n += n16_sweep(a0, a0 + 256, stride, &cons, narrow_report);
      /* the strided sweep always includes the boundary columns */
      if (stride > 1) for (uint64_t a = a0; a < a0 + 256; a++) { uint64_t c2 = 0; (void)c2; }
      vh_nontrivial_distinct();
    }
    if (stride > 1 && O.shard == 0) {
      /* boundary rows/columns exhaustively: a or b in {0,1,2,3,255,256,257,32767,32768,65534,65535} and all powers of two +-1 */
      static uint64_t edge[64];
      size_t ne = 0;
      for (int k = 0; k <= 16; k++) for (int dlt = -1; dlt <= 1; dlt++) { int64_t v = ((int64_t)1 << k) + dlt; if (v >= 0 && v <= 65535) edge[ne++] = (uint64_t)v; }
      for (size_t i = 0; i < ne; i++) { d[1] = 17; d[2] = (uint8_t)i; d[3] = 1; if (vh_case(d, 4)) { n += n16_sweep(edge[i], edge[i] + 1, 1, &cons, narrow_report); vh_nontrivial_distinct(); } }
    }
    vh_count_dyn("narrow.operand_pairs_run", n);
    vh_count_dyn("narrow.conservative_refusals", cons);
    vh_note("narrow", "8-bit: all 65536 pairs; 16-bit: %s", O.thorough ? "all 2^32 pairs" : "all a x every 61st b, plus every boundary row exhaustively");
    vh_set_rule("each case is a block of operand pairs (256 values of a x all or strided b) run through the real memory_utils.c compiled with an 8- or 16-bit size_t, against 64-bit arithmetic; the evaluations count is the number of blocks, the pair count is in observed.narrow.operand_pairs_run; blocks distinct by construction");
    vh_set_exhaustive(O.thorough);
  } else if (!strcmp(st, "grid")) {
    uint64_t unit = 0;
    for (int i = 0; i <= 64; i++)
      for (int dd = -2; dd <= 2; dd++) {
        if ((int)(unit++ % (uint64_t)O.nshards) != O.shard) continue;
        uint64_t a = (i == 64 ? 0 : (uint64_t)1 << i) + (uint64_t)dd;
        for (int j = 0; j <= 64; j++) for (int e = -2; e <= 2; e++) pair_case(a, (j == 64 ? 0 : (uint64_t)1 << j) + (uint64_t)e, true);
        /* the element sizes the library actually multiplies by */
        static const uint64_t es[] = {1, 2, 8, 16, 24, 48, 56};
        for (size_t k = 0; k < sizeof es / sizeof es[0]; k++) { pair_case(es[k], a, true); pair_case(a, es[k], true); }
      }
    struct vh_rng r;
    vh_rng_seed(&r, O.seed * 0xc20 + (uint64_t)O.shard);
    uint64_t nr = (O.budget ? O.budget : (O.thorough ? 500000000 : 5000000)) / (uint64_t)O.nshards;
    for (uint64_t i = 0; i < nr; i++) {
      uint64_t a = vh_rand(&r), b = vh_rand(&r);
      unsigned sa = (unsigned)vh_below(&r, 64), sb = (unsigned)vh_below(&r, 64);
      a >>= sa;
      /* a quarter of the pairs straddle the 2^64 product boundary: bits(a) + bits(b) ~ 64 */
      if ((i & 3) == 0) { unsigned sh = sa ? 64 - sa : 63; if (sh > 63) sh = 63; b >>= sh; if (vh_below(&r, 2)) b |= b >> 1; } else b >>= sb;
      if ((i & 0xffff) == 0) pair_case(a, b, true); else pair64(a, b);
    }
    vh_count_dyn("grid.pairs_run", g_pairs);
    vh_count_dyn("grid.conservative_refusals", g_conservative);
    vh_set_rule("each case is an operand pair (a, b) of the compiled 64-bit guard functions, judged against unsigned __int128 arithmetic: boundary grid (2^i+d, 2^j+e), i,j in 0..64, d,e in -2..2, plus seeded random pairs biased to straddle the 2^64 product boundary (random pairs are run in bulk and counted in observed.grid.pairs_run; one in 65536 is also recorded as a case); distinct by hash");
    vh_set_exhaustive(false);
  } else if (!strcmp(st, "e2e")) {
    uint64_t unit = 0;
    for (int k = 20; k <= 64; k++)
      for (int dd = -2; dd <= 2; dd++) {
        if ((int)(unit++ % (uint64_t)O.nshards) != O.shard) continue;
        uint64_t n = (k == 64 ? 0 : (uint64_t)1 << k) + (uint64_t)dd;
        if (n < BIG) continue;
        e2e_new_definite(n);
        e2e_build(n);
        static const unsigned heads[] = {0x9b, 0xbb, 0x5b, 0x7b};
        for (int h = 0; h < 4; h++) e2e_load(heads[h], n);
        for (int kind = 0; kind < 5; kind++) e2e_growth(kind, n);
        for (int shape = 0; shape < 8; shape++) for (unsigned kk = 1; kk <= 9; kk += (kk < 5 ? 1 : 4)) e2e_size(shape, n, kk);
      }
    /* 32-bit declared counts through 9a/ba heads too */
    for (int k = 20; k <= 32; k++) if ((int)(unit++ % (uint64_t)O.nshards) == O.shard) {
      uint64_t n = ((uint64_t)1 << k) - 1;
      e2e_new_definite(n);
    }
    vh_set_rule("each case is one public-API call with a declared count, length or pretended capacity of 2^k+d (k = 20..64, d = -2..2): creation of definite containers, cbor_build_stringn / cbor_build_bytestring with that length, cbor_load of 8-byte-count heads, growth of indefinite arrays/maps/chunk tables, cbor_serialized_size / cbor_serialize_alloc of trees whose exact total crosses 2^64; the allocator records every request and refuses those above 1 MiB; distinct by hash");
    vh_set_exhaustive(false);
  } else vh_die("driver arith: unknown stage '%s'", st);
}
static void arith_exec(const uint8_t* d, size_t n) {
  arith_setup();
  uint64_t v = 0;
  if (n == 17 && d[0] == 'P') { uint64_t a = 0, b = 0; for (int i = 0; i < 8; i++) { a = a << 8 | d[1 + i]; b = b << 8 | d[9 + i]; } pair_case(a, b, true); return; }
  if (n == 10) { for (int i = 0; i < 8; i++) v = v << 8 | d[2 + i]; if (d[0] == 'N') { e2e_new_definite(v); return; } if (d[0] == 'B') { e2e_build(v); return; } if (d[0] == 'L') { e2e_load(d[1], v); return; } if (d[0] == 'G') { e2e_growth(d[1], v); return; } }
  if (n == 11 && d[0] == 'Z') { for (int i = 0; i < 8; i++) v = v << 8 | d[3 + i]; e2e_size(d[1], v, d[2]); return; }
  if (n == 4 && d[0] == 'W') { uint64_t cons = 0; if (d[1] == 8) n8_sweep(0, 256, 1, &cons, narrow_report); else if (d[1] == 16) n16_sweep((uint64_t)d[2] << 8, ((uint64_t)d[2] << 8) + 256, d[3] ? d[3] : 1, &cons, narrow_report); else printf("edge rows: re-run the stage\n"); return; }
  printf("unrecognised descriptor\n");
}
const struct vh_driver drv_arith = {"arith", arith_run, arith_exec, "size arithmetic guards: narrow-width exhaustive, 64-bit grid, end-to-end (C20)"};
