/* vh_rec.c — recording callback table and nesting-chain generator. */
#include "vh.h"

struct rec_event rec_ev[REC_MAX];
int rec_n;
void* rec_expected_ctx;
int rec_bad_ctx;
void rec_reset(void) { rec_n = 0; rec_bad_ctx = 0; }

/* When set, every callback decodes an unrelated buffer before it returns — the way a client decodes CBOR embedded in a
 * byte string (tag 24, COSE payloads) from inside its byte-string callback. The outer call must not notice. */
int rec_reenter;
uint64_t rec_reentered_calls;
int rec_deep_target, rec_deep_level, rec_deep_ok, rec_deep_first_bad;
static void rec(void* ctx, int slot, uint64_t arg, const uint8_t* p, uint64_t len) {
  if (rec_deep_target) {
    /* recursive descent: the callback for an array head decodes the next head itself, and so on, rec_deep_target levels deep */
    if (rec_deep_level < rec_deep_target) {
      static const uint8_t nested[2] = {0x81, 0x00};
      rec_deep_level++;
      struct cbor_decoder_result r = cbor_stream_decode(nested, 2, &rec_table, ctx);
      rec_deep_level--;
      if (r.status == CBOR_DECODER_FINISHED && r.read == 1) rec_deep_ok++; else if (!rec_deep_first_bad) rec_deep_first_bad = rec_deep_level + 1;
    }
  }
  if (rec_reenter) {
    static const uint8_t inner[][4] = {{0x19, 0x01, 0x00, 0x00}, {0x42, 0x19, 0x01, 0x00}, {0x5a, 0x00, 0x00, 0x00}, {0x1c, 0, 0, 0}};
    static const size_t inner_n[] = {3, 3, 4, 1};
    int save = rec_reenter;
    rec_reenter = 0; /* the inner call uses the do-nothing table: no recursion */
    for (int i = 0; i < 4; i++) { struct cbor_decoder_result r = cbor_stream_decode(inner[i], inner_n[i], &cbor_empty_callbacks, NULL); (void)r; }
    rec_reenter = save;
    rec_reentered_calls++;
  }
  if (ctx != rec_expected_ctx) rec_bad_ctx++;
  if (rec_n < REC_MAX) { rec_ev[rec_n].slot = slot; rec_ev[rec_n].arg = arg; rec_ev[rec_n].ptr = p; rec_ev[rec_n].len = len; }
  rec_n++;
}
static uint32_t fb(float f) { uint32_t b; memcpy(&b, &f, 4); return b; }
static uint64_t db(double d) { uint64_t b; memcpy(&b, &d, 8); return b; }
static void r_uint8(void* c, uint8_t v) { rec(c, S_UINT8, v, NULL, 0); }
static void r_uint16(void* c, uint16_t v) { rec(c, S_UINT16, v, NULL, 0); }
static void r_uint32(void* c, uint32_t v) { rec(c, S_UINT32, v, NULL, 0); }
static void r_uint64(void* c, uint64_t v) { rec(c, S_UINT64, v, NULL, 0); }
static void r_negint8(void* c, uint8_t v) { rec(c, S_NEGINT8, v, NULL, 0); }
static void r_negint16(void* c, uint16_t v) { rec(c, S_NEGINT16, v, NULL, 0); }
static void r_negint32(void* c, uint32_t v) { rec(c, S_NEGINT32, v, NULL, 0); }
static void r_negint64(void* c, uint64_t v) { rec(c, S_NEGINT64, v, NULL, 0); }
static void r_bstr_start(void* c) { rec(c, S_BSTR_START, 0, NULL, 0); }
static void r_bstr(void* c, cbor_data p, uint64_t n) { rec(c, S_BSTR, n, p, n); }
static void r_str(void* c, cbor_data p, uint64_t n) { rec(c, S_STR, n, p, n); }
static void r_str_start(void* c) { rec(c, S_STR_START, 0, NULL, 0); }
static void r_indef_array(void* c) { rec(c, S_INDEF_ARRAY, 0, NULL, 0); }
static void r_array(void* c, uint64_t n) { rec(c, S_ARRAY, n, NULL, 0); }
static void r_indef_map(void* c) { rec(c, S_INDEF_MAP, 0, NULL, 0); }
static void r_map(void* c, uint64_t n) { rec(c, S_MAP, n, NULL, 0); }
static void r_tag(void* c, uint64_t v) { rec(c, S_TAG, v, NULL, 0); }
static void r_float2(void* c, float f) { rec(c, S_FLOAT2, fb(f), NULL, 0); }
static void r_float4(void* c, float f) { rec(c, S_FLOAT4, fb(f), NULL, 0); }
static void r_float8(void* c, double d) { rec(c, S_FLOAT8, db(d), NULL, 0); }
static void r_undef(void* c) { rec(c, S_UNDEF, 0, NULL, 0); }
static void r_null(void* c) { rec(c, S_NULL, 0, NULL, 0); }
static void r_bool(void* c, bool b) { rec(c, S_BOOL, b ? 1 : 0, NULL, 0); }
static void r_break(void* c) { rec(c, S_BREAK, 0, NULL, 0); }

const struct cbor_callbacks rec_table = {
    .uint8 = r_uint8, .uint16 = r_uint16, .uint32 = r_uint32, .uint64 = r_uint64,
    .negint8 = r_negint8, .negint16 = r_negint16, .negint32 = r_negint32, .negint64 = r_negint64,
    .byte_string_start = r_bstr_start, .byte_string = r_bstr, .string = r_str, .string_start = r_str_start,
    .indef_array_start = r_indef_array, .array_start = r_array, .indef_map_start = r_indef_map, .map_start = r_map,
    .tag = r_tag, .float2 = r_float2, .float4 = r_float4, .float8 = r_float8,
    .undefined = r_undef, .null = r_null, .boolean = r_bool, .indef_break = r_break};

/* A table in which only the callback for `slot` exists (slot < 0: none at all). A client that expects one kind of head
 * owes the decoder no other callback: any call through another slot is a call through NULL. */
struct cbor_callbacks rec_table_only(int slot) {
  struct cbor_callbacks t;
  memset(&t, 0, sizeof t);
  switch (slot) {
    case S_UINT8: t.uint8 = r_uint8; break; case S_UINT16: t.uint16 = r_uint16; break; case S_UINT32: t.uint32 = r_uint32; break; case S_UINT64: t.uint64 = r_uint64; break;
    case S_NEGINT8: t.negint8 = r_negint8; break; case S_NEGINT16: t.negint16 = r_negint16; break; case S_NEGINT32: t.negint32 = r_negint32; break; case S_NEGINT64: t.negint64 = r_negint64; break;
    case S_BSTR_START: t.byte_string_start = r_bstr_start; break; case S_BSTR: t.byte_string = r_bstr; break; case S_STR: t.string = r_str; break; case S_STR_START: t.string_start = r_str_start; break;
    case S_INDEF_ARRAY: t.indef_array_start = r_indef_array; break; case S_ARRAY: t.array_start = r_array; break; case S_INDEF_MAP: t.indef_map_start = r_indef_map; break; case S_MAP: t.map_start = r_map; break;
    case S_TAG: t.tag = r_tag; break; case S_FLOAT2: t.float2 = r_float2; break; case S_FLOAT4: t.float4 = r_float4; break; case S_FLOAT8: t.float8 = r_float8; break;
    case S_UNDEF: t.undefined = r_undef; break; case S_NULL: t.null = r_null; break; case S_BOOL: t.boolean = r_bool; break; case S_BREAK: t.indef_break = r_break; break;
    default: break;
  }
  return t;
}

/* ------------------------------------------------------------------ chains */
const char* const chain_names[CH_NKINDS] = {"tag", "def-array", "indef-array", "def-map-key", "def-map-value",
                                            "indef-map-key", "indef-map-value", "mixed", "tag-2byte-head", "def-array-last-of-3", "indef-map-second-value", "tag-55799-then-arrays", "tag-24-then-arrays", "deep-branch-then-a-sibling-container"};

/* Emits `depth` nested open levels of the given kind around a leaf. The suffix
 * needed to close everything (map values for key nests, breaks) is appended. */
void gen_chain(int kind, size_t depth, int leaf, struct vh_buf* out, size_t* open_end) {
  struct vh_buf suffix = {0};
  uint8_t* kinds = malloc(depth ? depth : 1);
  for (size_t i = 0; i < depth; i++) {
    int k = kind;
    if (kind == CH_MIXED) k = (int)(i % 7);
    kinds[i] = (uint8_t)k;
    switch (k) {
      case CH_TAG: vb_u8(out, 0xc1); break;
      case CH_TAG_WIDE: vb_u8(out, 0xd9); vb_u8(out, 0x01); vb_u8(out, 0x00); break;
      case CH_DEFARR: vb_u8(out, 0x81); break;
      case CH_INDEFARR: vb_u8(out, 0x9f); break;
      case CH_DEFMAP_KEY: vb_u8(out, 0xa1); break;
      case CH_DEFMAP_VAL: vb_u8(out, 0xa1); vb_u8(out, 0x00); break;
      case CH_INDEFMAP_KEY: vb_u8(out, 0xbf); break;
      case CH_INDEFMAP_VAL: vb_u8(out, 0xbf); vb_u8(out, 0x00); break;
      case CH_SELFDESCRIBED_ARRAYS: if (i == 0) { vb_u8(out, 0xd9); vb_u8(out, 0xd9); vb_u8(out, 0xf7); } else vb_u8(out, 0x81); break; /* a registered tag at the root, then plain arrays */
      case CH_TAG24_ARRAYS: if (i == 0) { vb_u8(out, 0xd8); vb_u8(out, 0x18); } else vb_u8(out, 0x81); break;
      case CH_DEEP_THEN_SIBLING: vb_u8(out, i == 0 ? 0x82 : 0x81); break; /* [<the deep branch>, [0]]: a container opened after the deepest branch has closed */
      case CH_DEFARR_LAST_OF_3: vb_u8(out, 0x83); vb_u8(out, 0x00); vb_u8(out, 0x61); vb_u8(out, 'a'); break; /* the deep part hangs off the last of three siblings */
      case CH_INDEFMAP_2ND_VALUE: vb_u8(out, 0xbf); vb_u8(out, 0x00); vb_u8(out, 0xf6); vb_u8(out, 0x01); break; /* ... off the value of the second pair */
    }
    if (open_end) {
      /* the head that opens level i+1 is the container head itself (before any key) */
      size_t e = out->n;
      if (k == CH_DEFMAP_VAL || k == CH_INDEFMAP_VAL) e -= 1;
      if (k == CH_DEFARR_LAST_OF_3 || k == CH_INDEFMAP_2ND_VALUE) e -= 3;
      open_end[i + 1] = e;
    }
  }
  size_t levels = depth;
  if (leaf == 0) vb_u8(out, 0x05);
  else if (leaf == 3) vb_u8(out, 0x80); /* empty definite array: completes at its head, never becomes open */
  else if (leaf == 4) vb_u8(out, 0xa0); /* empty definite map: likewise */
  else if (leaf == 5 || leaf == 6) { /* heavy scalar leaves: one 2 MiB definite string */
    vb_u8(out, leaf == 5 ? 0x5a : 0x7a); vb_be(out, CH_HEAVY_BYTES, 4);
    for (size_t i = 0; i < CH_HEAVY_BYTES; i++) vb_u8(out, (uint8_t)('a' + i % 23));
  } else if (leaf == 7) { /* chunked text with one 2 MiB chunk */
    vb_u8(out, 0x7f);
    levels++;
    if (open_end) open_end[levels] = out->n;
    vb_u8(out, 0x7a); vb_be(out, CH_HEAVY_BYTES, 4);
    for (size_t i = 0; i < CH_HEAVY_BYTES; i++) vb_u8(out, (uint8_t)('a' + i % 23));
    vb_u8(out, 0xff);
  } else if (leaf >= 8 && leaf <= 10) { /* wide containers: 400000 members / 200000 pairs of one-byte integers */
    if (leaf == 10) vb_u8(out, 0x9f); else { vb_u8(out, leaf == 8 ? 0x9a : 0xba); vb_be(out, leaf == 8 ? CH_HEAVY_MEMBERS : CH_HEAVY_MEMBERS / 2, 4); }
    levels++;
    if (open_end) open_end[levels] = out->n;
    for (size_t i = 0; i < CH_HEAVY_MEMBERS; i++) vb_u8(out, (uint8_t)(i % 24));
    if (leaf == 10) vb_u8(out, 0xff);
  } else {
    vb_u8(out, leaf == 1 ? 0x5f : 0x7f);
    levels++;
    if (open_end) open_end[levels] = out->n;
    vb_u8(out, leaf == 1 ? 0x41 : 0x61); vb_u8(out, 'x');
    vb_u8(out, 0xff);
  }
  for (size_t i = depth; i-- > 0;) {
    switch (kinds[i]) {
      case CH_INDEFARR: vb_u8(out, 0xff); break;
      case CH_DEFMAP_KEY: vb_u8(out, 0xf6); break;
      case CH_INDEFMAP_KEY: vb_u8(out, 0xf6); vb_u8(out, 0xff); break;
      case CH_INDEFMAP_VAL: vb_u8(out, 0xff); break;
      case CH_INDEFMAP_2ND_VALUE: vb_u8(out, 0xff); break;
      case CH_DEEP_THEN_SIBLING: if (i == 0) { vb_u8(out, 0x81); vb_u8(out, 0x00); } break;
      default: break;
    }
  }
  free(kinds);
  vb_free(&suffix);
}
