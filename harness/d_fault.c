/* d_fault.c — driver "fault" (C06): exhaustive enumeration of allocation-refusal
 * schedules.  For each scenario: one fault-free run counts the N allocator
 * requests, then N runs refusing request k only and N runs refusing request k and
 * every later one.  After each run: failure reported through the documented
 * channel, nothing newly allocated left behind, every pre-existing item
 * (contents, order, sizes, reference counts, identity) exactly as before.
 *
 * Case descriptor: scenario bytes, then u16 k, then u8 mode (0 single, 1 from-k). */
#include "vh.h"

static size_t LIM;

enum { NBUILDERS = 46 };
static const char* const builder_names[NBUILDERS] = {
    "new_int8", "new_int16", "new_int32", "new_int64", "build_uint8", "build_uint16", "build_uint32", "build_uint64",
    "build_negint8", "build_negint16", "build_negint32", "build_negint64", "new_definite_bytestring", "new_indefinite_bytestring",
    "build_bytestring(0)", "build_bytestring(5)", "new_definite_string", "new_indefinite_string", "build_string", "build_stringn(0)",
    "build_stringn(7)", "new_definite_array(0)", "new_definite_array(3)", "new_indefinite_array", "new_definite_map(0)", "new_definite_map(3)",
    "new_indefinite_map", "new_tag", "new_ctrl", "new_float2", "new_float4", "new_float8", "new_null", "new_undef", "build_bool",
    "build_ctrl", "build_float2", "build_float4", "build_float8", "new_definite_array(1000)", "new_definite_map(1000)", "build_bytestring(4096)",
    "build_stringn(300)", "build_string(long)", "build_string(\"\")", "build_string(1)"};
static cbor_item_t* call_builder(int id) {
  static const char longs[] = "the quick brown fox jumps over the lazy dog \xc3\xbc\xe6\xb0\xb4\xf0\x90\x85\x91 0123456789";
  static unsigned char blob[4096];
  switch (id) {
    case 0: return cbor_new_int8(); case 1: return cbor_new_int16(); case 2: return cbor_new_int32(); case 3: return cbor_new_int64();
    case 4: return cbor_build_uint8(200); case 5: return cbor_build_uint16(60000); case 6: return cbor_build_uint32(4000000000u); case 7: return cbor_build_uint64(1ull << 60);
    case 8: return cbor_build_negint8(200); case 9: return cbor_build_negint16(300); case 10: return cbor_build_negint32(70000); case 11: return cbor_build_negint64(1ull << 40);
    case 12: return cbor_new_definite_bytestring(); case 13: return cbor_new_indefinite_bytestring();
    case 14: return cbor_build_bytestring(blob, 0); case 15: return cbor_build_bytestring(blob, 5);
    case 16: return cbor_new_definite_string(); case 17: return cbor_new_indefinite_string();
    case 18: return cbor_build_string("hello"); case 19: return cbor_build_stringn("", 0); case 20: return cbor_build_stringn("abc\xc3\xbc" "de", 7);
    case 21: return cbor_new_definite_array(0); case 22: return cbor_new_definite_array(3); case 23: return cbor_new_indefinite_array();
    case 24: return cbor_new_definite_map(0); case 25: return cbor_new_definite_map(3); case 26: return cbor_new_indefinite_map();
    case 27: return cbor_new_tag(1234567); case 28: return cbor_new_ctrl(); case 29: return cbor_new_float2(); case 30: return cbor_new_float4(); case 31: return cbor_new_float8();
    case 32: return cbor_new_null(); case 33: return cbor_new_undef(); case 34: return cbor_build_bool(true); case 35: return cbor_build_ctrl(21);
    case 36: return cbor_build_float2(1.5f); case 37: return cbor_build_float4(3.25f); case 38: return cbor_build_float8(-0.125);
    case 39: return cbor_new_definite_array(1000); case 40: return cbor_new_definite_map(1000); case 41: return cbor_build_bytestring(blob, sizeof blob);
    case 42: return cbor_build_stringn((const char*)longs, sizeof longs - 1); case 43: return cbor_build_string(longs);
    case 44: return cbor_build_string(""); case 45: return cbor_build_string("x");
  }
  return NULL;
}

/* a scenario instance: pre-existing items + the operation */
struct scen {
  const uint8_t* d; size_t n;   /* scenario bytes */
  /* prepared state */
  cbor_item_t* pre[3];
  int npre;
  uint8_t* input;               /* 'L': exactly-sized input */
  size_t ninput;
  struct rheads heads;
};
struct outcome { bool ok; int code; size_t pos; bool channel_clean; cbor_item_t* result; };

static cbor_item_t* member_item(int flavour) {
  return flavour == 0 ? cbor_build_uint8(1) : flavour == 1 ? cbor_build_bytestring((const unsigned char*)"c", 1) : cbor_build_string("c");
}

/* returns false if the scenario cannot be set up (not applicable) */
static bool scen_prepare(struct scen* s) {
  memset(s->pre, 0, sizeof s->pre);
  s->npre = 0; s->input = NULL;
  char kind = (char)s->d[0];
  const uint8_t* body = s->d + 1;
  size_t nb = s->n - 1;
  switch (kind) {
    case 'L':
      s->input = vh_exact(body, nb); s->ninput = nb;
      return true;
    case 'C': case 'S': case 'D': case 'U': {
      uint8_t* ex = vh_exact(body, nb);
      struct cbor_load_result r;
      s->pre[0] = cbor_load(ex, nb, &r);
      free(ex);
      if (!s->pre[0]) return false;
      s->npre = 1;
      return true;
    }
    case 'Q': case 'R': { /* api-built tree (shared sub-items, spare capacity, handle-less strings...) */
      if (nb != 16) return false;
      uint64_t u = 0, seed = 0;
      for (int i = 0; i < 8; i++) { u = u << 8 | body[i]; seed = seed << 8 | body[8 + i]; }
      struct vh_rng r;
      rnode* t = ser_api_shadow(u, seed, &r);
      if (!t) return false;
      if (rn_count(t) > 400) { rn_free(t); return false; } /* every schedule rebuilds the tree: very wide trees are left to the decoder-based scenarios */
      s->pre[0] = ser_build_variant(t, &r);
      rn_free(t);
      if (!s->pre[0]) return false;
      s->npre = 1;
      return true;
    }
    case 'B': return nb == 1 && body[0] < NBUILDERS;
    case 'G': { /* a big single leaf (tens of thousands of members): body = op ('L' load / 'C' copy), u16 index into the bigleaf family */
      if (nb != 3) return false;
      /* the encoding is the same for every schedule of one scenario: generated once */
      static struct vh_buf enc;
      static uint64_t enc_idx = (uint64_t)-1;
      uint64_t idx = (uint64_t)body[1] << 8 | body[2];
      if (idx != enc_idx) {
        rnode* t = gen_bigleaf(idx);
        if (!t) return false;
        vb_reset(&enc);
        ref_encode_src(t, &enc);
        rn_free(t);
        enc_idx = idx;
      }
      if (body[0] == 'L') { s->input = vh_exact(enc.p, enc.n); s->ninput = enc.n; return true; }
      struct cbor_load_result r;
      s->pre[0] = cbor_load(enc.p, enc.n, &r);
      if (!s->pre[0]) return false;
      s->npre = 1;
      return true;
    }
    case 'P': { /* body: container kind (0 indef array push, 1 indef array set, 2 indef map, 3 chunked bytes, 4 chunked text, 5 def array push (room), 6 def map add (room)), existing members */
      if (nb != 2 || body[0] >= 14) return false;
      /* kinds 7..13: the same seven calls with a fresh argument handed over through cbor_move (count 0 during the call) */
      bool lent = body[0] >= 7;
      int ck = body[0] % 7, have = body[1];
      cbor_item_t* c = ck <= 1 ? cbor_new_indefinite_array() : ck == 2 ? cbor_new_indefinite_map() : ck == 3 ? cbor_new_indefinite_bytestring() : ck == 4 ? cbor_new_indefinite_string()
                     : ck == 5 ? cbor_new_definite_array((size_t)have + 1) : cbor_new_definite_map((size_t)have + 1);
      cbor_item_t* x = member_item(ck == 3 ? 1 : ck == 4 ? 2 : 0);
      if (!c || !x) return false;
      for (int i = 0; i < have; i++) {
        bool ok = (ck <= 1 || ck == 5) ? cbor_array_push(c, x) : (ck == 2 || ck == 6) ? cbor_map_add(c, (struct cbor_pair){.key = x, .value = x}) : ck == 3 ? cbor_bytestring_add_chunk(c, x) : cbor_string_add_chunk(c, x);
        if (!ok) return false;
      }
      s->pre[0] = c; s->pre[1] = x; s->npre = 2;
      if (lent) { s->pre[2] = member_item(ck == 3 ? 1 : ck == 4 ? 2 : 0); if (!s->pre[2]) return false; s->npre = 3; }
      return true;
    }
    case 'T': {
      s->pre[0] = cbor_build_uint16(777);
      if (!s->pre[0]) return false;
      s->npre = 1;
      return true;
    }
  }
  return false;
}
static void scen_cleanup(struct scen* s) {
  for (int i = s->npre - 1; i >= 0; i--) if (s->pre[i]) cbor_decref(&s->pre[i]);
  free(s->input); s->input = NULL;
}

static struct outcome scen_run(struct scen* s) {
  struct outcome o = {false, 0, 0, true, NULL};
  char kind = (char)s->d[0];
  switch (kind) {
    case 'L': {
      struct cbor_load_result r;
      memset(&r, 0x77, sizeof r);
      o.result = cbor_load(s->input, s->ninput, &r);
      o.ok = o.result != NULL; o.code = (int)r.error.code; o.pos = r.error.position;
      if (o.ok && r.error.code != CBOR_ERR_NONE) o.channel_clean = false;
      if (!o.ok && r.error.code == CBOR_ERR_NONE) o.channel_clean = false;
      break;
    }
    case 'G':
      if (s->d[1] == 'L') {
        struct cbor_load_result r;
        memset(&r, 0x77, sizeof r);
        o.result = cbor_load(s->input, s->ninput, &r);
        o.ok = o.result != NULL; o.code = (int)r.error.code; o.pos = r.error.position;
        if (o.ok != (r.error.code == CBOR_ERR_NONE)) o.channel_clean = false;
        if (!o.ok && r.error.code != CBOR_ERR_MEMERROR) o.channel_clean = false;
      } else { o.result = cbor_copy(s->pre[0]); o.ok = o.result != NULL; }
      break;
    case 'C': case 'Q': o.result = cbor_copy(s->pre[0]); o.ok = o.result != NULL; break;
    case 'S': case 'R': {
      unsigned char* buf = (unsigned char*)(uintptr_t)0x10;
      size_t sz = 12345;
      size_t w = cbor_serialize_alloc(s->pre[0], &buf, &sz);
      o.ok = w != 0;
      if (!o.ok && (buf != NULL || sz != 0)) o.channel_clean = false; /* documented: 0, *buffer = NULL, *buffer_size = 0 */
      if (o.ok && (buf == NULL || sz != w)) o.channel_clean = false;
      if (o.ok && buf) ta_free(buf);
      break;
    }
    case 'U': { /* the size out-parameter is optional */
      unsigned char* buf = (unsigned char*)(uintptr_t)0x10;
      size_t w = cbor_serialize_alloc(s->pre[0], &buf, NULL);
      o.ok = w != 0;
      if (!o.ok && buf != NULL) o.channel_clean = false;
      if (o.ok && buf == NULL) o.channel_clean = false;
      if (o.ok && buf) ta_free(buf);
      break;
    }
    case 'D': { /* describe must not be affected (allocates nothing through the configured allocator) */
      static FILE* dn; if (!dn) dn = fopen("/dev/null", "w");
      cbor_describe(s->pre[0], dn); o.ok = true; break;
    }
    case 'B': o.result = call_builder(s->d[1]); o.ok = o.result != NULL; break;
    case 'P': {
      bool lent = s->d[1] >= 7;
      int ck = s->d[1] % 7;
      cbor_item_t* c = s->pre[0], * x = lent ? cbor_move(s->pre[2]) : s->pre[1];
      o.ok = ck == 0 || ck == 5 ? cbor_array_push(c, x) : ck == 1 ? cbor_array_set(c, cbor_array_size(c), x) : (ck == 2 || ck == 6) ? cbor_map_add(c, (struct cbor_pair){.key = x, .value = x})
           : ck == 3 ? cbor_bytestring_add_chunk(c, x) : cbor_string_add_chunk(c, x);
      if (lent) {
        /* the client takes its reference back: after success the container keeps the item alive, after a refusal the
         * item must be exactly as it was handed over — allocated, count 0 — or the documented idiom cannot recover it */
        if (!o.ok && !ta_is_live(x)) {
          vh_violation("argument-released-by-failed-call", "the refused call released the item it was handed through cbor_move (the caller still owns it and will use it again)");
          s->pre[2] = NULL;
        } else {
          if (!o.ok && cbor_refcount(x) != 0) vh_violation("arguments-changed-by-failed-call", "an item handed over through cbor_move with reference count 0 has count %zu after the refused call", cbor_refcount(x));
          cbor_incref(x);
          if (o.ok && ck != 2 && ck != 6 && cbor_refcount(x) != 2) vh_violation("refcount-after-moved-insert", "an item inserted through cbor_move and re-acquired by the client has reference count %zu (expected 2)", cbor_refcount(x));
        }
      }
      break;
    }
    case 'T': o.result = cbor_build_tag(5, s->pre[0]); o.ok = o.result != NULL; break;
  }
  return o;
}

static void dump_pre(struct scen* s, struct vh_buf* out) {
  /* identity numbering is quadratic in the number of nodes: the hundred-thousand-node scenarios compare contents and counts only */
  for (int i = 0; i < s->npre; i++) walk_dump_item(s->pre[i], out, s->d[0] == 'G' ? WD_REFCOUNTS : (WD_REFCOUNTS | WD_IDENTITY));
}

static uint64_t g_runs, g_refusal_runs, g_scen, g_maxN, g_head_attributed;

/* allocator requests made by a fault-free cbor_load of in[0..n) */
static uint64_t load_requests(const uint8_t* in, size_t n) {
  if (n == 0) return 0;
  uint8_t* ex = vh_exact(in, n);
  struct ta_stats saved = TA;
  ta_reset_stats();
  struct cbor_load_result r;
  cbor_item_t* it = cbor_load(ex, n, &r);
  uint64_t q = TA.requests;
  if (it) cbor_decref(&it);
  free(ex);
  TA = saved;
  return q;
}

static void describe_scen(const uint8_t* d, size_t n, char* out, size_t cap) {
  switch (d[0]) {
    case 'L': snprintf(out, cap, "cbor_load(%s)", vh_hex(d + 1, n - 1, 40)); break;
    case 'C': snprintf(out, cap, "cbor_copy(tree decoded from %s)", vh_hex(d + 1, n - 1, 40)); break;
    case 'S': snprintf(out, cap, "cbor_serialize_alloc(tree decoded from %s)", vh_hex(d + 1, n - 1, 40)); break;
    case 'D': snprintf(out, cap, "cbor_describe(tree decoded from %s)", vh_hex(d + 1, n - 1, 40)); break;
    case 'U': snprintf(out, cap, "cbor_serialize_alloc(tree decoded from %s, size out-parameter NULL)", vh_hex(d + 1, n - 1, 40)); break;
    case 'Q': snprintf(out, cap, "cbor_copy(api-built tree %s)", vh_hex(d + 1, n - 1, 16)); break;
    case 'R': snprintf(out, cap, "cbor_serialize_alloc(api-built tree %s)", vh_hex(d + 1, n - 1, 16)); break;
    case 'B': snprintf(out, cap, "cbor_%s", builder_names[d[1] < NBUILDERS ? d[1] : 0]); break;
    case 'G': snprintf(out, cap, "%s of big leaf #%u (tens of thousands of members)", d[1] == 'L' ? "cbor_load" : "cbor_copy", (unsigned)(d[2] << 8 | d[3])); break;
    case 'P': { static const char* pk[] = {"cbor_array_push on an indefinite array", "cbor_array_set(size) on an indefinite array", "cbor_map_add on an indefinite map", "cbor_bytestring_add_chunk", "cbor_string_add_chunk", "cbor_array_push on a definite array with room", "cbor_map_add on a definite map with room"};
      snprintf(out, cap, "%s holding %d member(s)%s", pk[d[1] % 7], d[2], d[1] >= 7 ? ", the new member handed over through cbor_move" : ""); break; }
    case 'T': snprintf(out, cap, "cbor_build_tag"); break;
    default: snprintf(out, cap, "?");
  }
}

/* one (scenario, k, mode) run; k < 0 = fault-free baseline. Returns requests made. */
static int64_t fault_run(const uint8_t* sd, size_t sn, int k, int mode, struct outcome* base) {
  struct scen s = {.d = sd, .n = sn};
  memset(&s.heads, 0, sizeof s.heads);
  ta_fail_at(-1); ta_fail_from(-1);
  if (!scen_prepare(&s)) { scen_cleanup(&s); return -1; }
  struct vh_buf before = {0}, after = {0};
  dump_pre(&s, &before);
  uint64_t sig0 = ta_live_sig();
  size_t live0 = ta_live_count();
  ta_reset_stats();
  if (k >= 0) { if (mode == 0) ta_fail_at(k); else ta_fail_from(k); }
  struct outcome o = scen_run(&s);
  ta_fail_at(-1); ta_fail_from(-1);
  uint64_t requests = TA.requests, refused = TA.refused;
  char what[200];
  describe_scen(sd, sn, what, sizeof what);
  g_runs++;
  if (refused) g_refusal_runs++;
  if (k < 0) {
    *base = o;
    if (o.result) { cbor_decref(&o.result); }
  } else {
    if (!o.channel_clean) vh_violation("failure-channel-inconsistent", "%s, refusing request #%d%s: the documented failure channel is inconsistent (result/outputs disagree)", what, k, mode ? " and all later" : "");
    if (refused == 0) {
      /* the schedule never fired (fewer requests on this path): must behave as the fault-free run */
      if (o.ok != base->ok) vh_violation("nondeterministic", "%s behaves differently between two fault-free runs", what);
    } else if (o.ok) {
      vh_violation("success-despite-refusal", "%s, refusing request #%d%s: %llu request(s) were refused yet the call reported success", what, k, mode ? " and all later" : "", (unsigned long long)refused);
    } else {
      /* failure: channel specifics */
      if (sd[0] == 'L') {
        if (o.code != CBOR_ERR_MEMERROR) vh_violation("wrong-channel", "%s, refusing request #%d%s: failed with error code %d, not MEMERROR", what, k, mode ? " and all later" : "", o.code);
        else {
          struct rheads hs = {0};
          struct rverdict z = ref_decode(sd + 1, sn - 1, LIM, RM_LAZY, false, &hs);
          (void)z;
          size_t hidx = (size_t)-1;
          for (size_t i = 0; i < hs.n; i++) if (hs.end[i] == o.pos) hidx = i;
          if (hidx == (size_t)-1) vh_violation("memerror-position", "%s, refusing request #%d%s: MEMERROR at %zu, which is not just past an item head", what, k, mode ? " and all later" : "", o.pos);
          else {
            /* which head's allocation was refused? Request #k is made while the decoder processes the head h for which a
             * fault-free load of the input cut just before h makes <= k requests and one cut just after h makes > k. */
            uint64_t before_h = load_requests(sd + 1, hs.start[hidx]), through_h = load_requests(sd + 1, hs.end[hidx]);
            if (!(before_h <= (uint64_t)k && (uint64_t)k < through_h))
              vh_violation("memerror-at-wrong-head", "%s, refusing request #%d%s: MEMERROR reported just past the head at [%zu,%zu), but request #%d is made while processing a different head (heads before it make %llu requests, through it %llu)",
                           what, k, mode ? " and all later" : "", hs.start[hidx], hs.end[hidx], k, (unsigned long long)before_h, (unsigned long long)through_h);
            else g_head_attributed++;
          }
          rheads_free(&hs);
        }
      }
    }
    if (o.result) cbor_decref(&o.result);
    /* atomicity: pre-existing items exactly as before */
    if (!o.ok) {
      dump_pre(&s, &after);
      if (before.n != after.n || memcmp(before.p, after.p, before.n)) {
        struct vh_buf pr = {0};
        for (int i = 0; i < s.npre; i++) { walk_print_item(s.pre[i], &pr); vb_printf(&pr, " | "); }
        vb_u8(&pr, 0);
        vh_violation("arguments-changed-by-failed-call", "%s, refusing request #%d%s: the call failed but its arguments changed (contents / reference counts now: %s)", what, k, mode ? " and all later" : "", (char*)pr.p);
        vb_free(&pr);
      }
      /* nothing left allocated that was not live before */
      if (ta_live_sig() != sig0 || ta_live_count() != live0)
        vh_violation("leak-on-failure", "%s, refusing request #%d%s: %zu block(s) live before the call, %zu after it failed; events: %s", what, k, mode ? " and all later" : "", live0, ta_live_count(), ta_ring_dump());
    }
  }
  /* undo a successful container insertion so cleanup is uniform */
  scen_cleanup(&s);
  if (ta_live_count() != 0) {
    if (k >= 0 && o.ok == false) { /* already reported above if it was the failed call's doing */ }
    else vh_violation("leak", "%s: %zu block(s) left after releasing everything; events: %s", what, ta_live_count(), ta_ring_dump());
    ta_forget_all();
  }
  vb_free(&before); vb_free(&after);
  return (int64_t)requests;
}

static void scenario(const uint8_t* sd, size_t sn) {
  struct outcome base;
  /* baseline is announced as a case too (k = 0xffff) */
  struct vh_buf d = {0};
  vb_put(&d, sd, sn); vb_be(&d, 0xffff, 2); vb_u8(&d, 0);
  int64_t N = -1;
  if (vh_case(d.p, d.n)) N = fault_run(sd, sn, -1, 0, &base);
  else { /* resuming after a crash: recompute the baseline silently */
    N = fault_run(sd, sn, -1, 0, &base);
  }
  if (N < 0) { VH_COUNT("scenarios.not_applicable", 1); vb_free(&d); return; }
  g_scen++;
  if ((uint64_t)N > g_maxN) g_maxN = (uint64_t)N;
  char nm[48];
  snprintf(nm, sizeof nm, "scenarios.%c", sd[0]);
  vh_count_dyn(nm, 1);
  if (vh_sampling()) { char what[200]; describe_scen(sd, sn, what, sizeof what); vh_sample_text("%s: %lld allocator request(s) fault-free -> %lld single-fault + %lld fail-stop schedules", what, (long long)N, (long long)N, (long long)N); }
  if (N > 60000) N = 60000;
  /* exhaustive in k for ordinary scenarios; for very large ones (thousands of requests, each re-run rebuilding a
   * thousands-of-nodes tree) the first 24, the last 24 and 48 evenly spaced requests */
  int64_t stride = N > 160 ? N / 48 : 1;
  if (stride > 1) VH_COUNT("scenarios.sampled_in_k", 1);
  for (int mode = 0; mode < 2; mode++)
    for (int64_t k = 0; k < N; k++) {
      if (stride > 1 && k >= 24 && k < N - 24 && (k % stride) != 0) continue;
      d.n = sn;
      vb_be(&d, (uint64_t)k, 2); vb_u8(&d, (uint8_t)mode);
      if (!vh_case(d.p, d.n)) continue;
      fault_run(sd, sn, (int)k, mode, &base);
      vh_nontrivial(vh_hash(d.p, d.n));
    }
  vb_free(&d);
}

/* Scenarios with tens of thousands of requests: the interesting requests are the few growth steps (realloc calls), whose
 * indices the fault-free run records; they are all refused in turn, next to the first, the last and a spread of the rest. */
static void scenario_big(const uint8_t* sd, size_t sn) {
  struct outcome base;
  struct vh_buf d = {0};
  vb_put(&d, sd, sn); vb_be(&d, 0xffffffffu, 4); vb_u8(&d, 0);
  if (!vh_case(d.p, d.n)) { /* resuming */ }
  size_t cap0 = (size_t)1 << 20;
  ta_set_cap((size_t)64 << 20);
  int64_t N = fault_run(sd, sn, -1, 0, &base);
  if (N < 0 || !base.ok) { VH_COUNT("scenarios.not_applicable", 1); ta_set_cap(cap0); vb_free(&d); return; }
  g_scen++;
  if ((uint64_t)N > g_maxN) g_maxN = (uint64_t)N;
  VH_COUNT("scenarios.G", 1);
  uint64_t ks[TA_MAX_REALLOC_IDX + 64];
  size_t nk = 0;
  for (size_t i = 0; i < ta_nrealloc_idx && i < 600; i++) ks[nk++] = ta_realloc_idx[i];
  VH_MAX("max_growth_steps_refused_in_one_big_scenario", nk);
  for (int64_t k = 0; k < 2 && k < N; k++) ks[nk++] = (uint64_t)k;
  for (int64_t k = N > 2 ? N - 2 : 0; k < N; k++) ks[nk++] = (uint64_t)k;
  for (int i = 1; i < 4; i++) ks[nk++] = (uint64_t)(N * i / 4);
  for (int mode = 0; mode < 2; mode++)
    for (size_t i = 0; i < nk; i++) {
      if (ks[i] >= (uint64_t)N) continue;
      d.n = sn;
      vb_be(&d, ks[i], 4); vb_u8(&d, (uint8_t)mode);
      if (!vh_case(d.p, d.n)) continue;
      fault_run(sd, sn, (int)ks[i], mode, &base);
      vh_nontrivial(vh_hash(d.p, d.n));
    }
  ta_set_cap(cap0);
  vb_free(&d);
}

static void scen_input(char kind, const uint8_t* in, size_t n) {
  struct vh_buf s = {0};
  vb_u8(&s, (uint8_t)kind); vb_put(&s, in, n);
  scenario(s.p, s.n);
  vb_free(&s);
}

static void fault_setup(void) {
  if (strcmp(O.prop, "C06") && strcmp(O.prop, "C02") && strcmp(O.prop, "C05")) vh_die("driver fault: --prop must be C06 (or C02 / C05 for the load-only stage)");
  LIM = (size_t)O.L;
  ref_selftest();
  ta_install();
  if (!ta_selftest()) vh_die("track allocator self-test failed");
  ta_set_cap((size_t)1 << 20); /* huge declared counts take the refusal path instead of zero-filling gigabytes */
  g_any_float_in_half = true;  /* API-built scenario trees: every item, not only C03's space */
}

static void fault_run_all(void) {
  fault_setup();
  const char* st = O.stage;
  uint64_t unit = 0;
#define MINE() ((int)(unit++ % (uint64_t)O.nshards) == O.shard)
  if (!strcmp(st, "api")) {
    for (int b = 0; b < NBUILDERS; b++) if (MINE()) { uint8_t s[2] = {'B', (uint8_t)b}; scenario(s, 2); }
    static const uint8_t have[] = {0, 1, 2, 3, 4, 5, 7, 8, 9, 15, 16, 17, 31, 32, 33, 64, 100};
    for (int ck = 0; ck < 14; ck++) for (size_t h = 0; h < sizeof have; h++) if (MINE()) { uint8_t s[3] = {'P', (uint8_t)ck, have[h]}; scenario(s, 3); }
    if (MINE()) { uint8_t s[1] = {'T'}; scenario(s, 1); }
    uint64_t nq = O.budget ? O.budget : (O.thorough ? 20000 : 1500);
    for (uint64_t u = 0; u < nq; u++) {
      if (!MINE()) continue;
      uint8_t s[17];
      uint64_t uu = u * 13 + 1;
      for (int i = 0; i < 8; i++) { s[1 + i] = (uint8_t)(uu >> (56 - 8 * i)); s[9 + i] = (uint8_t)(O.seed >> (56 - 8 * i)); }
      s[0] = 'Q'; scenario(s, 17);
      s[0] = 'R'; scenario(s, 17);
    }
  } else if (!strcmp(st, "small")) {
    /* every accepted or rejected input of <= 2 bytes, every string of length <= N over the 16-head alphabet */
    uint8_t b[8];
    for (unsigned v = 0; v < 256 + 65536; v++) {
      size_t len = v < 256 ? 1 : 2;
      if (len == 1) b[0] = (uint8_t)v; else { b[0] = (uint8_t)((v - 256) >> 8); b[1] = (uint8_t)(v - 256); }
      if (ref_reserved(b[0])) continue;
      if (!MINE()) continue;
      scen_input('L', b, len);
      struct rverdict z = ref_decode(b, len, LIM, RM_LAZY, false, NULL);
      if (z.code == RC_ACCEPT && z.read == len) { scen_input('C', b, len); scen_input('S', b, len); }
    }
    size_t A = O.budget ? (size_t)O.budget : (O.thorough ? 5 : 4);
    for (size_t len = 3; len <= A; len++)
      for (uint64_t v = 0; v < ((uint64_t)1 << (4 * len)); v++) {
        if (!MINE()) continue;
        for (size_t i = 0; i < len; i++) b[i] = gen_alphabet[(v >> (4 * (len - 1 - i))) & 15];
        scen_input('L', b, len);
        struct rverdict z = ref_decode(b, len, LIM, RM_LAZY, false, NULL);
        if (z.code == RC_ACCEPT && z.read == len) { scen_input('C', b, len); scen_input('S', b, len); }
      }
  } else if (!strcmp(st, "load")) {
    /* C02's "no allocation refused" clause from the other side: with any single request refused, or all from some point
     * on, cbor_load of a well-formed item must not succeed, must not crash, and must leave nothing behind */
    uint64_t nsys = gen_systematic_count();
    uint64_t nrand = O.budget ? O.budget : (O.thorough ? 20000 : 2000);
    struct vh_buf x = {0};
    for (uint64_t u = 0; u < nsys + nrand; u++) {
      if (u < nsys && (u % 3) != 0 && !O.thorough) continue;
      if (!MINE()) continue;
      struct vh_rng r;
      vh_rng_seed(&r, O.seed * 0x2002 + u);
      struct gen_cfg cfg = {.max_nodes = 3 + (int)(u % 19), .max_depth = 6, .nonminimal = true, .assigned_simple_only = true};
      rnode* t = u < nsys ? gen_systematic(u) : gen_tree(&r, &cfg);
      if (!t) continue;
      vb_reset(&x);
      ref_encode_src(t, &x);
      rn_free(t);
      if (x.n > 3000) continue;
      scen_input('L', x.p, x.n);
    }
    vb_free(&x);
  } else if (!strcmp(st, "big")) {
    /* containers and chunked strings of 65535 / 65536 / 100000 members: cbor_load and cbor_copy with every growth step refused */
    uint64_t nb = gen_bigleaf_count();
    for (uint64_t u = 0; u < nb; u++) {
      rnode* t = gen_bigleaf(u);
      if (!t) continue;
      size_t nodes = rn_count(t);
      bool container = t->kind == R_ARRAY || t->kind == R_MAP || t->indef;
      if (t->kind == R_ARRAY && t->nkids == 1 && !t->indef) { const rnode* k0 = t->kids[0]; container = k0->kind == R_ARRAY || k0->kind == R_MAP || k0->indef; }
      rn_free(t);
      if (!container || nodes < 60000 || nodes > 250000) continue;
      if (!O.thorough && !(nodes > 90000 && nodes < 210000 && (u & 1) == 0)) continue; /* quick: the bare 100000-member ones */
      if (!MINE()) continue;
      uint8_t s1[4] = {'G', 'L', (uint8_t)(u >> 8), (uint8_t)u};
      scenario_big(s1, 4);
      s1[1] = 'C';
      scenario_big(s1, 4);
    }
  } else if (!strcmp(st, "corpus")) {
    uint64_t nsys = gen_systematic_count();
    uint64_t nrand = O.budget ? O.budget : (O.thorough ? 40000 : 2000);
    struct vh_buf x = {0};
    for (uint64_t u = 0; u < nsys + nrand; u++) {
      if (!O.thorough && u < nsys && (u % 2) != 0) continue;
      if (!MINE()) continue;
      struct vh_rng r;
      vh_rng_seed(&r, O.seed * 0x100000001b3ull + u);
      struct gen_cfg cfg = {.max_nodes = 3 + (int)(u % 19), .max_depth = 6, .nonminimal = true, .assigned_simple_only = true};
      rnode* t = u < nsys ? gen_systematic(u) : gen_tree(&r, &cfg);
      if (!t) continue;
      vb_reset(&x);
      ref_encode_src(t, &x);
      rn_free(t);
      if (x.n > 3000) continue;
      scen_input('L', x.p, x.n);
      scen_input('C', x.p, x.n);
      scen_input('S', x.p, x.n);
      if (u % 4 == 0) scen_input('U', x.p, x.n);
      if (u % 64 == 0) scen_input('D', x.p, x.n);
      /* truncated / corrupted variants: failing loads must also be clean under refusals */
      if (x.n > 2 && u % 8 == 0) { scen_input('L', x.p, x.n - 1); x.p[x.n / 2] ^= 0x40; scen_input('L', x.p, x.n); }
    }
    vb_free(&x);
  } else vh_die("driver fault: unknown stage '%s'", st);
  vh_count_dyn("runs_total", g_runs);
  vh_count_dyn("runs_in_which_a_refusal_fired", g_refusal_runs);
  vh_count_dyn("scenarios", g_scen);
  vh_count_dyn("load_refusals_attributed_to_the_right_head", g_head_attributed);
  vh_count_dyn("max_requests_in_one_scenario", g_maxN);
  vh_set_rule("each case is a (scenario, k, mode) triple: the scenario's operation is re-run from scratch with the allocator refusing request k only (mode 0) or request k and all later ones (mode 1), for every k below the fault-free request count N (scenarios with N > 160 are sampled in k: first 24, last 24, 48 spread; counted in observed.scenarios.sampled_in_k); the fault-free baseline is a case too; non-trivial = a fault schedule run (k < N); distinct by 64-bit hash of (scenario, k, mode)");
  vh_set_exhaustive(false);
}

static void fault_exec(const uint8_t* d, size_t n) {
  fault_setup();
  if (n < 4) { printf("bad C06 descriptor\n"); return; }
  bool big = d[0] == 'G';
  size_t sn = n - (big ? 5 : 3);
  int k = big ? (int)((uint32_t)d[sn] << 24 | (uint32_t)d[sn + 1] << 16 | (uint32_t)d[sn + 2] << 8 | d[sn + 3]) : ((int)d[sn] << 8 | d[sn + 1]);
  int mode = d[sn + (big ? 4 : 2)];
  if (big) { ta_set_cap((size_t)64 << 20); if (k == -1) k = 0xffff; }
  struct outcome base;
  int64_t N = fault_run(d, sn, -1, 0, &base);
  char what[200];
  describe_scen(d, sn, what, sizeof what);
  printf("scenario: %s; fault-free run makes %lld allocator request(s) and %s\n", what, (long long)N, base.ok ? "succeeds" : "fails");
  if (k != 0xffff) { printf("now refusing request #%d%s\n", k, mode ? " and all later" : ""); fault_run(d, sn, k, mode, &base); }
}
const struct vh_driver drv_fault = {"fault", fault_run_all, fault_exec, "allocation-refusal schedules, exhaustively per scenario (C06)"};
