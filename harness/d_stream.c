/* d_stream.c — driver "stream": the streaming layer.
 *   C08: one cbor_stream_decode call vs the one-head reference tokeniser
 *   C09: a buffering client fed with fragments vs tokenisation of the whole stream
 *   C10: cbor_encode_* vs independently computed RFC heads, and decode-back      */
#include <sys/mman.h>
#include "vh.h"

static int P; /* 8, 9, 10 */

static uint64_t rotr64(uint64_t x, int k) { return k ? (x >> k) | (x << (64 - k)) : x; }
static uint32_t fbits(float f) { uint32_t b; memcpy(&b, &f, 4); return b; }
static const char* st_name(int s) { return s == CBOR_DECODER_FINISHED ? "FINISHED" : s == CBOR_DECODER_NEDATA ? "NEDATA" : s == CBOR_DECODER_ERROR ? "ERROR" : "?"; }

/* does the recorded event match the reference token? (floats: NaN by class) */
static bool event_matches(const struct rec_event* e, const struct rtoken* t, const uint8_t* buf, const char** why) {
  if (e->slot != t->slot) { *why = "wrong callback slot"; return false; }
  uint64_t want = t->arg;
  if (t->slot == S_FLOAT2) {
    uint32_t w = ref_half_to_single_bits((uint16_t)t->arg);
    if (ref_is_nan32(w)) { if (!ref_is_nan32((uint32_t)e->arg)) { *why = "NaN expected"; return false; } return true; }
    want = w;
  } else if (t->slot == S_FLOAT4) {
    if (ref_is_nan32((uint32_t)t->arg)) { if (!ref_is_nan32((uint32_t)e->arg)) { *why = "NaN expected"; return false; } return true; }
  } else if (t->slot == S_FLOAT8) {
    if (ref_is_nan64(t->arg)) { if (!ref_is_nan64(e->arg)) { *why = "NaN expected"; return false; } return true; }
  }
  if (e->arg != want) { *why = "wrong argument value"; return false; }
  if (t->slot == S_BSTR || t->slot == S_STR) {
    if (e->ptr != buf + t->payload_off) { *why = "payload pointer is not the payload's position in the buffer"; return false; }
    if (e->len != t->arg) { *why = "payload length differs from the declared length"; return false; }
  }
  return true;
}

/* ------------------------------------------------------------------- C08 */
static uint64_t slot_hits[S_NSLOTS];

static void c08_case(const uint8_t* src, size_t len) {
  if (!vh_case(src, len)) return;
  void* buf_base;
  uint8_t* buf = vh_exact_mis(src, len, (unsigned)(vh_hash(src, len) >> 17) & 15, &buf_base); /* every start alignment over the cases */
  struct rtoken t = ref_tokenize(buf, len);
  int ctx;
  rec_expected_ctx = &ctx;
  rec_reset();
  ta_reset_stats();
  struct cbor_decoder_result res = cbor_stream_decode(buf, len, &rec_table, &ctx);
  int n1 = rec_n;
  struct rec_event e1 = rec_ev[0];
  const char* why = "";
  if (TA.requests || TA.frees) vh_violation("allocates", "cbor_stream_decode made %llu allocator request(s) and %llu release(s)", (unsigned long long)TA.requests, (unsigned long long)TA.frees);
  if (rec_bad_ctx) vh_violation("wrong-context", "a callback received a context pointer other than the caller's");
  if (t.status == RT_FINISHED) {
    if (res.status != CBOR_DECODER_FINISHED) vh_violation("status-mismatch", "complete head (%s, %zu bytes) in a %zu-byte buffer gave %s (required=%zu)", rslot_names[t.slot], t.read, len, st_name(res.status), res.required);
    else {
      if (n1 != 1) vh_violation("callback-count", "FINISHED with %d callback invocations (expected exactly one: %s)", n1, rslot_names[t.slot]);
      else if (!event_matches(&e1, &t, buf, &why)) vh_violation("callback-mismatch", "expected %s(%llu), got %s(%llu): %s", rslot_names[t.slot], (unsigned long long)t.arg,
                                                                e1.slot >= 0 && e1.slot < S_NSLOTS ? rslot_names[e1.slot] : "?", (unsigned long long)e1.arg, why);
      else slot_hits[t.slot]++;
      if (res.read != t.read) vh_violation("read-mismatch", "FINISHED with read=%zu; the head%s occupies %zu bytes", res.read, (t.slot == S_BSTR || t.slot == S_STR) ? " and payload" : "", t.read);
      if (n1 == 1 && e1.ptr) {
        if (e1.ptr < buf || e1.ptr > buf + len || e1.len > (uint64_t)(buf + len - e1.ptr)) vh_violation("payload-outside-buffer", "payload [%p,+%llu) not inside the buffer [%p,+%zu)", (const void*)e1.ptr, (unsigned long long)e1.len, (void*)buf, len);
      }
      VH_COUNT("status.FINISHED", 1);
    }
  } else if (t.status == RT_NEDATA) {
    if (res.status != CBOR_DECODER_NEDATA) vh_violation("status-mismatch", "incomplete item (%zu of %s bytes present) gave %s", len, t.full > SIZE_MAX ? ">2^64" : "more", st_name(res.status));
    else {
      if (n1 != 0) vh_violation("callback-on-nedata", "NEDATA but %d callback(s) were invoked", n1);
      if (res.read != 0) vh_violation("read-nonzero", "NEDATA with read=%zu", res.read);
      unsigned __int128 cap = t.full > (unsigned __int128)SIZE_MAX ? (unsigned __int128)SIZE_MAX : t.full;
      if (res.required <= len) vh_violation("required-not-greater", "NEDATA with required=%zu for a %zu-byte buffer: a client waiting for `required` bytes would never make progress", res.required, len);
      else if ((unsigned __int128)res.required > cap) vh_violation("required-too-large", "NEDATA with required=%zu but the pending head%s is only %llu bytes long", res.required, t.full > t.head_len ? " and payload" : "", (unsigned long long)cap);
      VH_COUNT("status.NEDATA", 1);
      if (t.full > (unsigned __int128)SIZE_MAX) VH_COUNT("nedata.full_exceeds_size_max", 1);
    }
  } else {
    if (res.status != CBOR_DECODER_ERROR) vh_violation("status-mismatch", "reserved/unsupported initial byte 0x%02x gave %s", buf[0], st_name(res.status));
    else {
      if (n1 != 0) vh_violation("callback-on-error", "ERROR but %d callback(s) were invoked", n1);
      if (res.read != 0) vh_violation("read-nonzero", "ERROR with read=%zu", res.read);
      VH_COUNT("status.ERROR", 1);
    }
  }
  if (t.status != RT_ERROR && res.status == CBOR_DECODER_ERROR && len) vh_violation("error-on-legal-byte", "ERROR for initial byte 0x%02x which is not reserved", buf[0]);
  /* statelessness: an unrelated call in between, then the same call again */
  {
    static const uint8_t other[] = {0x5b, 0, 0, 0, 0, 0, 0, 0, 9, 1, 2};
    rec_reset();
    (void)cbor_stream_decode(other, sizeof other, &rec_table, &ctx);
    rec_reset();
    struct cbor_decoder_result res2 = cbor_stream_decode(buf, len, &rec_table, &ctx);
    if (res2.status != res.status || res2.read != res.read || res2.required != res.required || rec_n != n1 ||
        (n1 == 1 && rec_n == 1 && (rec_ev[0].slot != e1.slot || rec_ev[0].arg != e1.arg || rec_ev[0].ptr != e1.ptr || rec_ev[0].len != e1.len)))
      vh_violation("not-stateless", "the same call repeated after an unrelated call gave %s/read=%zu/required=%zu/%d callbacks instead of %s/read=%zu/required=%zu/%d",
                   st_name(res2.status), res2.read, res2.required, rec_n, st_name(res.status), res.read, res.required, n1);
  }
  /* the outcome must not depend on callbacks the head has no use for: a table holding only the one callback the head
   * calls for (none at all when no callback is due) must give the same result — any other call goes through NULL */
  {
    struct cbor_callbacks only = rec_table_only(t.status == RT_FINISHED ? t.slot : -1);
    rec_reset();
    struct cbor_decoder_result r5 = cbor_stream_decode(buf, len, &only, &ctx);
    if (r5.status != res.status || r5.read != res.read || (res.status == CBOR_DECODER_NEDATA && r5.required != res.required) || rec_n != n1 ||
        (n1 == 1 && rec_n == 1 && (rec_ev[0].slot != e1.slot || rec_ev[0].arg != e1.arg || rec_ev[0].ptr != e1.ptr || rec_ev[0].len != e1.len)))
      vh_violation("depends-on-unrelated-callbacks", "with a table holding only the %s callback the call gave %s/read=%zu/%d callbacks instead of %s/read=%zu/%d", t.status == RT_FINISHED ? rslot_names[t.slot] : "(no)",
                   st_name(r5.status), r5.read, rec_n, st_name(res.status), res.read, n1);
    VH_COUNT("minimal_table_calls", 1);
  }
  /* the library's own do-nothing table, passed by address: status, read and required are the same as with any other table */
  {
    struct cbor_decoder_result r7 = cbor_stream_decode(buf, len, &cbor_empty_callbacks, &ctx);
    if (r7.status != res.status || r7.read != res.read || (res.status == CBOR_DECODER_NEDATA && r7.required != res.required))
      vh_violation("depends-on-the-callback-table", "with &cbor_empty_callbacks the call gave %s/read=%zu/required=%zu, with a recording table %s/read=%zu/required=%zu", st_name(r7.status), r7.read, r7.required, st_name(res.status), res.read, res.required);
    VH_COUNT("empty_table_calls", 1);
  }
  /* re-entrancy: the callback decodes something else (embedded CBOR) before it returns; the outer result is unaffected */
  if (n1 == 1) {
    rec_reset();
    rec_reenter = 1;
    struct cbor_decoder_result r6 = cbor_stream_decode(buf, len, &rec_table, &ctx);
    rec_reenter = 0;
    if (r6.status != res.status || r6.read != res.read || rec_n != n1 || rec_ev[0].slot != e1.slot || rec_ev[0].arg != e1.arg || rec_ev[0].ptr != e1.ptr || rec_ev[0].len != e1.len)
      vh_violation("not-reentrant", "with a callback that itself calls cbor_stream_decode on another buffer the outer call gave %s/read=%zu/required=%zu/%d callbacks instead of %s/read=%zu/%d: state is shared between invocations",
                   st_name(r6.status), r6.read, r6.required, rec_n, st_name(res.status), res.read, n1);
    VH_COUNT("reentrant_calls", 1);
  }
  /* a FINISHED result must not depend on bytes beyond `read` */
  if (res.status == CBOR_DECODER_FINISHED && res.read <= len && res.read > 0) {
    uint8_t* cut = vh_exact(buf, res.read);
    rec_reset();
    struct cbor_decoder_result r3 = cbor_stream_decode(cut, res.read, &rec_table, &ctx);
    if (r3.status != CBOR_DECODER_FINISHED || r3.read != res.read || rec_n != n1 ||
        (n1 == 1 && rec_n == 1 && (rec_ev[0].slot != e1.slot || rec_ev[0].arg != e1.arg || rec_ev[0].len != e1.len || (e1.ptr ? (rec_ev[0].ptr - cut) != (e1.ptr - buf) : rec_ev[0].ptr != NULL))))
      vh_violation("depends-on-trailing-bytes", "re-running on exactly the %zu bytes reported as read gave %s/read=%zu/%d callbacks", res.read, st_name(r3.status), r3.read, rec_n);
    free(cut);
    if (res.read < len) {
      for (size_t i = res.read; i < len; i++) buf[i] ^= 0xff;
      rec_reset();
      struct cbor_decoder_result r4 = cbor_stream_decode(buf, len, &rec_table, &ctx);
      if (r4.status != CBOR_DECODER_FINISHED || r4.read != res.read || rec_n != n1 || (n1 == 1 && rec_n == 1 && (rec_ev[0].slot != e1.slot || rec_ev[0].arg != e1.arg)))
        vh_violation("depends-on-trailing-bytes", "flipping the bytes beyond read changed the result");
    }
  }
  /* the empty buffer may be represented by a null pointer */
  if (len == 0) {
    rec_reset();
    struct cbor_decoder_result r0 = cbor_stream_decode(NULL, 0, &rec_table, &ctx);
    if (r0.status != CBOR_DECODER_NEDATA || r0.read != 0 || rec_n != 0 || r0.required < 1) vh_violation("null-empty-buffer", "cbor_stream_decode(NULL, 0) gave %s/read=%zu/required=%zu/%d callbacks", st_name(r0.status), r0.read, r0.required, rec_n);
    VH_COUNT("null_pointer_empty_buffer_calls", 1);
  }
  free(buf_base);
  vh_nontrivial(vh_hash(src, len));
}

static void c08_head(unsigned ib, uint64_t arg, size_t argn) {
  /* the head alone at every buffer length 0..head+1, then payload-length variants for strings */
  struct vh_buf b = {0};
  vb_u8(&b, (uint8_t)ib);
  vb_be(&b, arg, (int)argn);
  unsigned mt = ib >> 5, ai = ib & 31;
  bool is_str = (mt == 2 || mt == 3) && ai <= 27;
  size_t head = 1 + argn;
  /* one trailing byte so that "head+1" exists */
  vb_u8(&b, 0xa5);
  for (size_t l = 0; l <= head + 1; l++) c08_case(b.p, l);
  if (is_str && arg > 0) {
    b.n = head;
    if (arg <= 70000) {
      for (uint64_t i = 0; i < arg + 1; i++) vb_u8(&b, (uint8_t)(i * 31 + 7));
      size_t full = head + (size_t)arg;
      if (arg >= 2) c08_case(b.p, full - 2);
      c08_case(b.p, full - 1);
      c08_case(b.p, full);
      c08_case(b.p, full + 1);
      if (arg > 4) c08_case(b.p, head + (size_t)arg / 2);
    } else {
      for (int i = 0; i < 16; i++) vb_u8(&b, (uint8_t)i);
      c08_case(b.p, head + 7);
      c08_case(b.p, head + 16);
      /* megabyte strings with most of the payload already buffered: the hint must still be within the item */
      if (arg <= ((uint64_t)1 << 25) + 2) {
        b.n = head;
        vb_reserve(&b, (size_t)arg + 2);
        memset(b.p + b.n, 0x6b, (size_t)arg + 1);
        b.n += (size_t)arg + 1;
        size_t full = head + (size_t)arg;
        const size_t lens[] = {head + (size_t)arg / 2, head + (size_t)arg / 2 + 1, head + (size_t)arg / 4 * 3, full - 1, full, full + 1};
        for (size_t i = 0; i < sizeof lens / sizeof lens[0]; i++) c08_case(b.p, lens[i]);
        VH_COUNT("megabyte_string_heads", 1);
      }
    }
  }
  vb_free(&b);
}

static void c08_run_all(void) {
  struct vh_rng r;
  vh_rng_seed(&r, O.seed ^ 0xc08);
  uint64_t nrand = O.budget ? O.budget : (O.thorough ? 10000000 : 200000);
  for (unsigned ib = 0; ib < 256; ib++) {
    if ((int)(ib % (unsigned)O.nshards) != O.shard) continue;
    unsigned ai = ib & 31;
    size_t argn = ai < 24 ? 0 : ai == 24 ? 1 : ai == 25 ? 2 : ai == 26 ? 4 : ai == 27 ? 8 : 0;
    if (ai >= 28) argn = (ib & 1) ? 2 : 0; /* reserved bytes: followed by nothing or by junk */
    if (argn == 0) { c08_head(ib, 0, 0); if (ai >= 28) c08_head(ib, 0x1234, 2); continue; }
    if (argn == 1) { for (unsigned v = 0; v < 256; v++) c08_head(ib, v, 1); continue; }
    if (argn == 2) {
      unsigned mt = ib >> 5;
      bool is_str = mt == 2 || mt == 3;
      for (unsigned v = 0; v < 65536; v++) {
        if (is_str && v > 300 && !(v % 257 == 0 || v >= 65530 || (v & (v - 1)) == 0 || ((v + 1) & v) == 0)) {
          /* strings: full-payload variants only for selected lengths, head-only variants for all */
          struct vh_buf b = {0};
          vb_u8(&b, (uint8_t)ib); vb_be(&b, v, 2); vb_u8(&b, 0x5a);
          for (size_t l = 0; l <= 4; l++) c08_case(b.p, l);
          vb_free(&b);
          continue;
        }
        c08_head(ib, v, 2);
      }
      continue;
    }
    /* 4- and 8-byte arguments: every 2^k, 2^k +- 1, the width boundaries, all-ones, byte patterns, seeded random */
    int bits = argn == 4 ? 32 : 64;
    uint64_t mask = argn == 4 ? 0xffffffffull : ~0ull;
    for (int k = 0; k <= bits; k++)
      for (int d = -2; d <= 2; d++) {
        uint64_t v = (k == 64 ? 0 : ((uint64_t)1 << k)) + (uint64_t)d;
        c08_head(ib, v & mask, argn);
      }
    for (int i = 0; i < gen_nboundaries; i++) c08_head(ib, gen_boundaries[i] & mask, argn);
    for (int s = 0; s < 8; s++) c08_head(ib, rotr64(0x0102030405060708ull, 8 * s) & mask, argn);
    for (uint64_t d = 0; d < 24; d++) c08_head(ib, (~0ull - d) & mask, argn); /* declared lengths within 24 of the maximum */
    uint64_t per = nrand / 256 + 1;
    for (uint64_t i = 0; i < per; i++) {
      uint64_t v = vh_rand(&r);
      if (i & 1) v >>= vh_below(&r, 64);
      c08_head(ib, v & mask, argn);
    }
  }
  /* the empty buffer */
  if (O.shard == 0) { uint8_t z = 0; c08_case(&z, 0); }
  /* a recursive-descent client: each array callback decodes the next head from inside the callback; the decoder has no
   * depth of its own, so every level answers as the first one does */
  {
    static const int depths[] = {2, 17, 300, 1023, 1024, 1025, 2049, 4100}; /* native stack: about 600 bytes per level under ASan */
    for (size_t di = 0; di < sizeof depths / sizeof depths[0]; di++) {
      if ((int)(di % (size_t)O.nshards) != O.shard) continue;
      uint8_t desc[5] = {0xfe, 'R', (uint8_t)(depths[di] >> 16), (uint8_t)(depths[di] >> 8), (uint8_t)depths[di]};
      if (!vh_case(desc, 5)) continue;
      static const uint8_t top[2] = {0x81, 0x00};
      int ctx;
      rec_expected_ctx = &ctx;
      rec_reset();
      rec_deep_target = depths[di]; rec_deep_level = 0; rec_deep_ok = 0; rec_deep_first_bad = 0;
      struct cbor_decoder_result r = cbor_stream_decode(top, 2, &rec_table, &ctx);
      int ok = rec_deep_ok, bad = rec_deep_first_bad;
      rec_deep_target = 0;
      if (r.status != CBOR_DECODER_FINISHED || r.read != 1 || ok != depths[di])
        vh_violation("not-reentrant", "a client that decodes nested heads from inside its callbacks, %d levels deep: %d inner calls answered FINISHED/read=1 (first other answer at level %d); the outermost call gave %s/read=%zu", depths[di], ok, bad, st_name(r.status), r.read);
      VH_COUNT("recursive_descent_runs", 1);
      vh_nontrivial(vh_hash(desc, 5));
    }
  }
  int hit = 0;
  for (int s = 0; s < S_NSLOTS; s++) {
    if (slot_hits[s]) hit++;
    char nm[64];
    snprintf(nm, sizeof nm, "slot_hits.%s", rslot_names[s]);
    vh_count_dyn(nm, slot_hits[s]);
  }
  vh_count_dyn("slots_hit_by_this_shard", (uint64_t)hit);
}


/* ---- C08 stage "exh32": every 4-byte argument of every initial byte that carries one (8 x 2^32 heads), judged by a
 * closed-form expectation instead of the tokeniser (status, read, required, the one callback's slot and argument);
 * replaying a case runs the full c08_case on the same five bytes */
static void c08_exh32(void) {
  static uint8_t buf[8];
  int ctx;
  rec_expected_ctx = &ctx;
  static const int slot_of_mt[8] = {S_UINT32, S_NEGINT32, S_BSTR, S_STR, S_ARRAY, S_MAP, S_TAG, S_FLOAT4};
  /* shard = contiguous slice of the argument space */
  uint64_t lo = ((uint64_t)O.shard << 32) / (uint64_t)O.nshards, hi = (((uint64_t)O.shard + 1) << 32) / (uint64_t)O.nshards;
  for (unsigned mt = 0; mt < 8; mt++) {
    buf[0] = (uint8_t)(mt << 5 | 26);
    buf[5] = 0xa5;
    for (uint64_t a = lo; a < hi; a++) {
      buf[1] = (uint8_t)(a >> 24); buf[2] = (uint8_t)(a >> 16); buf[3] = (uint8_t)(a >> 8); buf[4] = (uint8_t)a;
      if (!vh_case(buf, 5)) continue;
      rec_reset();
      struct cbor_decoder_result res = cbor_stream_decode(buf, 5, &rec_table, &ctx);
      bool str = mt == 2 || mt == 3;
      if (str && a > 0) {
        if (res.status != CBOR_DECODER_NEDATA || rec_n != 0 || res.read != 0 || res.required <= 5 || res.required > 5 + a)
          vh_violation("nedata-contract", "string head %02x for %llu bytes without payload: status %s, %d callbacks, read %zu, required %zu", buf[0], (unsigned long long)a, st_name(res.status), rec_n, res.read, res.required);
      } else {
        uint64_t want = a, got = rec_ev[0].arg;
        if (str) { want = 0; got = rec_ev[0].len; }
        if (mt == 7 && ref_is_nan32((uint32_t)a)) { want = 0x7fc00000u; got = ref_is_nan32((uint32_t)got) ? 0x7fc00000u : got; }
        if (res.status != CBOR_DECODER_FINISHED || rec_n != 1 || res.read != 5 || rec_ev[0].slot != slot_of_mt[mt] || got != want || rec_bad_ctx)
          vh_violation("finished-contract", "head %02x %08llx: status %s, %d callbacks, read %zu, slot %s, argument %llx", buf[0], (unsigned long long)a, st_name(res.status), rec_n, res.read,
                       rec_n ? rslot_names[rec_ev[0].slot] : "-", (unsigned long long)got);
        else slot_hits[slot_of_mt[mt]]++;
      }
      /* one in 64: the head cut short by a byte asks for exactly the missing byte */
      if ((a & 63) == 0) {
        rec_reset();
        struct cbor_decoder_result r4 = cbor_stream_decode(buf, 4, &rec_table, &ctx);
        if (r4.status != CBOR_DECODER_NEDATA || rec_n || r4.read || r4.required != 5) vh_violation("nedata-contract", "head %02x cut to 4 bytes: status %s, %d callbacks, read %zu, required %zu", buf[0], st_name(r4.status), rec_n, r4.read, r4.required);
      }
      vh_nontrivial_distinct();
    }
  }
  for (int s = 0; s < S_NSLOTS; s++) if (slot_hits[s]) { char nm[64]; snprintf(nm, sizeof nm, "slot_hits.%s", rslot_names[s]); vh_count_dyn(nm, slot_hits[s]); }
}

/* buffers whose own length exceeds 2^32: the head (and payload) sit at the start of a >8 GiB region; the result must
 * be what the same bytes give in an exactly-sized buffer */
static void c08_huge_case(const uint8_t* item, size_t n, size_t claimed) {
  struct vh_buf d = {0};
  vb_u8(&d, 'H'); vb_be(&d, claimed, 8); vb_put(&d, item, n);
  if (!vh_case(d.p, d.n)) { vb_free(&d); return; }
  size_t rl;
  uint8_t* reg = vh_huge_region(&rl);
  if (!reg || claimed > rl) { VH_COUNT("huge.skipped_no_address_space", 1); vb_free(&d); return; }
  memcpy(reg, item, n);
  reg[n] = 0xa5;
  struct rtoken t = ref_tokenize(reg, n); /* what the bytes at the start denote */
  int ctx;
  rec_expected_ctx = &ctx;
  rec_reset();
  struct cbor_decoder_result res = cbor_stream_decode(reg, claimed, &rec_table, &ctx);
  const char* why = "";
  if (t.status == RT_FINISHED) {
    if (res.status != CBOR_DECODER_FINISHED) vh_violation("status-mismatch", "a complete %zu-byte item at the start of a %zu-byte buffer gave %s (required=%zu)", t.read, claimed, st_name(res.status), res.required);
    else if (rec_n != 1 || !event_matches(&rec_ev[0], &t, reg, &why)) vh_violation("callback-mismatch", "%zu-byte buffer: %d callbacks; %s", claimed, rec_n, why);
    else if (res.read != t.read) vh_violation("read-mismatch", "%zu-byte buffer: read=%zu, the item occupies %zu", claimed, res.read, t.read);
    else slot_hits[t.slot]++;
  } else if (t.status == RT_NEDATA) {
    /* only the string payload can be missing here: the claimed buffer is huge, so the item is in fact complete iff full <= claimed */
    if (t.full <= (unsigned __int128)claimed) { if (res.status != CBOR_DECODER_FINISHED) vh_violation("status-mismatch", "string of %llu bytes fits the %zu-byte buffer but gave %s", (unsigned long long)t.arg, claimed, st_name(res.status)); }
    else if (res.status != CBOR_DECODER_NEDATA || res.required <= claimed) vh_violation("required-not-greater", "%zu-byte buffer, pending item longer: status %s required %zu", claimed, st_name(res.status), res.required);
  } else if (res.status != CBOR_DECODER_ERROR) vh_violation("status-mismatch", "reserved byte in a huge buffer gave %s", st_name(res.status));
  VH_COUNT("huge.buffer_cases", 1);
  vh_nontrivial(vh_hash(d.p, d.n));
  vb_free(&d);
}
static void c08_huge_all(void) {
  static const size_t sizes[] = {((size_t)1 << 32) - 1, (size_t)1 << 32, ((size_t)1 << 32) + 1, ((size_t)1 << 32) + 2, ((size_t)1 << 32) + 3, ((size_t)1 << 32) + 4, ((size_t)1 << 32) + 5, ((size_t)1 << 32) + 8,
                                 ((size_t)1 << 32) + 9, ((size_t)1 << 32) + 12, ((size_t)3 << 31) + 7, ((size_t)1 << 33), ((size_t)1 << 33) + 3, ((size_t)1 << 33) + 65536};
  struct vh_buf b = {0};
  for (unsigned ib = 0; ib < 256; ib++) {
    if ((int)(ib % (unsigned)O.nshards) != O.shard) continue;
    unsigned mt = ib >> 5, ai = ib & 31;
    size_t argn = ai < 24 ? 0 : ai == 24 ? 1 : ai == 25 ? 2 : ai == 26 ? 4 : ai == 27 ? 8 : 0;
    static const uint64_t args[] = {0, 5, 200, 70000, 0x100000000ull, 0x100000005ull, 0xffffffffffffffffull};
    for (size_t ax = 0; ax < sizeof args / sizeof args[0]; ax++) {
      uint64_t arg = argn ? args[ax] : ai;
      if (argn && argn < 8 && (arg >> (8 * argn))) continue;
      if (!argn && ax) break;
      vb_reset(&b);
      vb_u8(&b, (uint8_t)ib); vb_be(&b, arg, (int)argn);
      if ((mt == 2 || mt == 3) && ai <= 27 && arg <= 70000) for (uint64_t i = 0; i < arg; i++) vb_u8(&b, (uint8_t)(i * 7 + 1));
      for (size_t si = 0; si < sizeof sizes / sizeof sizes[0]; si++) c08_huge_case(b.p, b.n, sizes[si]);
      /* buffer sizes just around 2^32 + the item's own length */
      c08_huge_case(b.p, b.n, ((size_t)1 << 32) + b.n);
      if (b.n > 1) c08_huge_case(b.p, b.n, ((size_t)1 << 32) + b.n - 1);
    }
  }
  vb_free(&b);
}

/* ------------------------------------------------------------------- C09 */
struct ev9 { int slot; uint64_t arg; uint64_t payload_hash; uint64_t len; };
struct evlist { struct ev9* e; size_t n, cap; };
static void ev_add(struct evlist* l, int slot, uint64_t arg, const uint8_t* p, uint64_t len) {
  if (l->n == l->cap) { l->cap = l->cap ? l->cap * 2 : 64; l->e = realloc(l->e, l->cap * sizeof *l->e); }
  l->e[l->n].slot = slot; l->e[l->n].arg = arg; l->e[l->n].len = len;
  l->e[l->n].payload_hash = p ? vh_hash(p, (size_t)len) : 0;
  l->n++;
}
static uint64_t canon_arg(int slot, uint64_t arg, bool from_ref) {
  if (slot == S_FLOAT2) { uint32_t w = from_ref ? ref_half_to_single_bits((uint16_t)arg) : (uint32_t)arg; return ref_is_nan32(w) ? 0x7fc00000u : w; }
  if (slot == S_FLOAT4) return ref_is_nan32((uint32_t)arg) ? 0x7fc00000u : arg;
  if (slot == S_FLOAT8) return ref_is_nan64(arg) ? 0x7ff8000000000000ull : arg;
  return arg;
}

/* Descriptor: u16 ncuts, ncuts x u32 cut offsets (ascending), then the stream. */
static void c09_case(const uint8_t* stream, size_t n, const uint32_t* cuts, size_t ncuts) {
  struct vh_buf d = {0};
  vb_be(&d, ncuts, 2);
  for (size_t i = 0; i < ncuts; i++) vb_be(&d, cuts[i], 4);
  vb_put(&d, stream, n);
  if (!vh_case(d.p, d.n)) { vb_free(&d); return; }
  /* reference: tokenise the whole stream */
  struct evlist want = {0}, got = {0};
  size_t off = 0;
  int ref_stop = 0; /* 0 end on boundary, 1 incomplete tail, 2 reserved byte */
  unsigned __int128 tail_full = 0;
  while (off < n) {
    struct rtoken t = ref_tokenize(stream + off, n - off);
    if (t.status == RT_ERROR) { ref_stop = 2; break; }
    if (t.status == RT_NEDATA) { ref_stop = 1; tail_full = t.full; break; }
    ev_add(&want, t.slot, canon_arg(t.slot, t.arg, true), (t.slot == S_BSTR || t.slot == S_STR) ? stream + off + t.payload_off : NULL, (t.slot == S_BSTR || t.slot == S_STR) ? t.arg : 0);
    off += t.read;
  }
  size_t ref_consumed = off;
  /* the client */
  size_t have = 0, coff = 0, need = 0, ci = 0;
  bool stopped = false;
  int ctx;
  rec_expected_ctx = &ctx;
  ta_reset_stats();
  size_t calls = 0;
  for (;;) {
    /* next fragment arrives */
    if (have == n && ci >= ncuts) break;
    size_t upto = ci < ncuts ? cuts[ci++] : n;
    if (upto > n) upto = n;
    if (upto < have) continue;
    have = upto;
    while (!stopped) {
      if (have - coff < need) break; /* still waiting for `required` bytes */
      if (have == coff && have == n) break; /* everything consumed */
      size_t avail = have - coff;
      uint8_t* win = vh_exact(stream + coff, avail); /* exactly the buffered bytes */
      rec_reset();
      struct cbor_decoder_result res = cbor_stream_decode(win, avail, &rec_table, &ctx);
      calls++;
      { /* a client that only frames the stream passes the library's own do-nothing table: same status, read, required */
        struct cbor_decoder_result re = cbor_stream_decode(win, avail, &cbor_empty_callbacks, &ctx);
        if (re.status != res.status || re.read != res.read || (res.status == CBOR_DECODER_NEDATA && re.required != res.required))
          vh_violation("depends-on-the-callback-table", "at stream offset %zu with %zu bytes buffered: &cbor_empty_callbacks gives %s/read=%zu/required=%zu, a recording table %s/read=%zu/required=%zu", coff, avail, st_name(re.status), re.read, re.required, st_name(res.status), res.read, res.required);
      }
      if (res.status == CBOR_DECODER_FINISHED) {
        if (rec_n != 1) vh_violation("callback-count", "FINISHED with %d callbacks at stream offset %zu", rec_n, coff);
        if (rec_n >= 1) ev_add(&got, rec_ev[0].slot, canon_arg(rec_ev[0].slot, rec_ev[0].arg, false), rec_ev[0].ptr, rec_ev[0].ptr ? rec_ev[0].len : 0);
        if (res.read == 0 || res.read > avail) { vh_violation("bad-read", "FINISHED with read=%zu of %zu buffered", res.read, avail); free(win); stopped = true; break; }
        coff += res.read;
        need = 0;
      } else if (res.status == CBOR_DECODER_NEDATA) {
        if (rec_n) vh_violation("callback-on-nedata", "NEDATA with %d callbacks", rec_n);
        struct rtoken t = ref_tokenize(stream + coff, avail);
        unsigned __int128 cap = t.full > (unsigned __int128)SIZE_MAX ? (unsigned __int128)SIZE_MAX : t.full;
        if (res.required <= avail) { vh_violation("required-not-greater", "wait for required=%zu with %zu bytes already buffered (stream offset %zu): the client would stall or spin", res.required, avail, coff); free(win); stopped = true; break; }
        if (t.status == RT_NEDATA && (unsigned __int128)res.required > cap) vh_violation("required-too-large", "wait for required=%zu but the pending item occupies %llu bytes", res.required, (unsigned long long)cap);
        need = res.required;
        free(win);
        break;
      } else {
        if (rec_n) vh_violation("callback-on-error", "ERROR with %d callbacks", rec_n);
        stopped = true;
      }
      free(win);
    }
    if (stopped) break;
  }
  /* verdict */
  if (TA.requests) vh_violation("allocates", "the streaming decoder made %llu allocator requests", (unsigned long long)TA.requests);
  size_t m = want.n < got.n ? want.n : got.n;
  for (size_t i = 0; i < m; i++) {
    if (want.e[i].slot != got.e[i].slot || want.e[i].arg != got.e[i].arg || want.e[i].len != got.e[i].len || want.e[i].payload_hash != got.e[i].payload_hash) {
      vh_violation("event-mismatch", "event %zu: expected %s(%llu, %llu payload bytes), client received %s(%llu, %llu payload bytes)", i, rslot_names[want.e[i].slot],
                   (unsigned long long)want.e[i].arg, (unsigned long long)want.e[i].len, got.e[i].slot >= 0 && got.e[i].slot < S_NSLOTS ? rslot_names[got.e[i].slot] : "?",
                   (unsigned long long)got.e[i].arg, (unsigned long long)got.e[i].len);
      break;
    }
  }
  if (got.n > want.n) vh_violation("duplicated-or-extra-events", "client received %zu events, the stream tokenises to %zu", got.n, want.n);
  else if (got.n < want.n) vh_violation("lost-events", "client received %zu of the %zu events of the stream (consumed %zu of %zu bytes, waiting for %zu)", got.n, want.n, coff, ref_consumed, need);
  if (ref_stop == 0 && !stopped && coff != n) vh_violation("not-delivered-completely", "stream ends on an item boundary but the client consumed only %zu of %zu bytes", coff, n);
  if (ref_stop == 2 && !stopped && got.n == want.n) vh_violation("reserved-byte-not-reported", "the stream contains a reserved initial byte at %zu but the client never saw ERROR", ref_consumed);
  if (ref_stop != 2 && stopped && got.n == want.n && coff == ref_consumed && 0) {}
  (void)tail_full;
  VH_COUNT("decoder_calls", calls);
  VH_COUNT("events_delivered", got.n);
  VH_MAX("max_events_in_stream", want.n);
  if (ref_stop == 0) VH_COUNT("streams.end_on_boundary", 1); else if (ref_stop == 1) VH_COUNT("streams.incomplete_tail", 1); else VH_COUNT("streams.reserved_byte", 1);
  if (want.n >= 1 && ncuts >= 1) vh_nontrivial(vh_hash(d.p, d.n));
  free(want.e); free(got.e);
  vb_free(&d);
}

static void c09_stream(const uint8_t* s, size_t n, struct vh_rng* r) {
  uint32_t* cuts = malloc((n + 2) * sizeof *cuts);
  /* one shot */
  c09_case(s, n, cuts, 0);
  /* every single cut point */
  size_t step = n > 400 ? n / 200 : 1;
  for (size_t c = 1; c < n; c += step) { cuts[0] = (uint32_t)c; c09_case(s, n, cuts, 1); }
  /* byte at a time */
  if (n <= 3000) { for (size_t i = 0; i < n; i++) cuts[i] = (uint32_t)(i + 1); c09_case(s, n, cuts, n); }
  /* random cuttings */
  for (int k = 0; k < 8; k++) {
    size_t nc = 0, pos = 0;
    while (pos < n) { pos += 1 + vh_below(r, k < 4 ? 6 : 40); if (pos < n) cuts[nc++] = (uint32_t)pos; }
    c09_case(s, n, cuts, nc);
  }
  free(cuts);
}

static void c09_run_all(void) {
  uint64_t nstreams = O.budget ? O.budget : (O.thorough ? 100000 : 5000);
  uint64_t nsys = gen_systematic_count();
  struct gen_cfg cfg = {.max_nodes = 8, .max_depth = 4, .nonminimal = true, .assigned_simple_only = true};
  struct vh_buf s = {0};
  for (uint64_t u = 0; u < nstreams; u++) {
    if ((int)(u % (uint64_t)O.nshards) != O.shard) continue;
    struct vh_rng r;
    vh_rng_seed(&r, O.seed * 0xc09 + u);
    vb_reset(&s);
    int kind = (int)(u % 4);
    if (kind <= 1) {
      /* concatenation of well-formed items */
      size_t k = 1 + vh_below(&r, 5);
      for (size_t i = 0; i < k; i++) {
        rnode* t = vh_below(&r, 3) ? gen_tree(&r, &cfg) : gen_systematic(vh_below(&r, nsys));
        size_t before = s.n;
        ref_encode_src(t, &s);
        if (s.n - before > 5000) s.n = before; /* keep streams small: every cut is tried */
        rn_free(t);
      }
      if (kind == 1 && s.n > 2) s.n -= 1 + vh_below(&r, s.n < 6 ? s.n - 1 : 5); /* truncated tail */
    } else {
      /* raw head sequences: arbitrary heads incl. stray breaks and reserved bytes (the layer is stateless) */
      size_t k = 1 + vh_below(&r, 12);
      for (size_t i = 0; i < k; i++) {
        unsigned ib = (unsigned)vh_below(&r, 256);
        if (kind == 2 && ref_reserved((uint8_t)ib)) ib = 0xff;
        unsigned mt = ib >> 5, ai = ib & 31;
        size_t argn = ai < 24 ? 0 : ai == 24 ? 1 : ai == 25 ? 2 : ai == 26 ? 4 : ai == 27 ? 8 : 0;
        uint64_t arg = ai;
        if (argn) { arg = vh_below(&r, 3) ? vh_below(&r, 40) : gen_boundaries[vh_below(&r, (uint64_t)gen_nboundaries)]; if (argn < 8) arg &= ((uint64_t)1 << (8 * argn)) - 1; }
        vb_u8(&s, (uint8_t)ib);
        vb_be(&s, arg, (int)argn);
        if ((mt == 2 || mt == 3) && ai <= 27) {
          uint64_t pay = arg <= 600 ? arg : 0; /* declared length beyond the stream: stays incomplete */
          if (arg > 600 && vh_below(&r, 2) == 0) { /* huge declared length incl. 2^64-1: nothing more to send */ break; }
          for (uint64_t j = 0; j < pay; j++) vb_u8(&s, (uint8_t)vh_rand(&r));
          if (arg > 600) break;
        }
      }
    }
    if (s.n == 0) vb_u8(&s, 0xf6);
    c09_stream(s.p, s.n, &r);
    VH_COUNT("streams", 1);
  }
  /* long streams: tens of thousands of small items (the running offset crosses 2^16 several times), delivered in one
   * piece, in 4 KiB fragments, and in fragments that end one byte before / after each multiple of 2^16 */
  {
    static const char* const pool[] = {"00", "1818", "190100", "20", "4161", "62c3a9", "80", "a10102", "9f", "ff", "5f", "7f", "c1", "f5", "f6", "f93c00", "fa3fc00000", "1a00010000", "d81840", "58020102"};
    for (int q = 0; q < 6; q++) {
      if (q % O.nshards != O.shard) continue;
      struct vh_rng r;
      vh_rng_seed(&r, O.seed * 0x10c9 + (uint64_t)q);
      vb_reset(&s);
      size_t items = q < 3 ? 20000 : 60000;
      for (size_t i = 0; i < items; i++) { const char* h = pool[vh_below(&r, sizeof pool / sizeof pool[0])]; for (; *h; h += 2) { unsigned v; sscanf(h, "%2x", &v); vb_u8(&s, (uint8_t)v); } }
      uint32_t* cuts = malloc((s.n / 2048 + 8) * sizeof *cuts);
      size_t nc = 0;
      if (q % 3 == 1) for (size_t c = 4096; c < s.n; c += 4096) cuts[nc++] = (uint32_t)c;
      if (q % 3 == 2) for (size_t c = 65536; c < s.n; c += 65536) { cuts[nc++] = (uint32_t)(c - 1); cuts[nc++] = (uint32_t)(c + 1); }
      c09_case(s.p, s.n, cuts, nc);
      free(cuts);
      VH_COUNT("long_streams", 1);
      VH_MAX("max_stream_bytes", s.n);
    }
  }
  /* streams holding one big string between two small items, cut where a size-dependent hint would go wrong: inside the
   * length argument, at the end of the head, and with a quarter / half / most / all but one byte of the payload buffered */
  {
    static const size_t L[] = {65539, (size_t)1 << 20, ((size_t)1 << 20) + 5, (size_t)3 << 19, ((size_t)1 << 22) + 1};
    int unit = 0;
    for (size_t li = 0; li < sizeof L / sizeof L[0]; li++)
      for (int text = 0; text < 2; text++) {
        if (unit++ % O.nshards != O.shard) continue;
        vb_reset(&s);
        vb_u8(&s, 0x01);
        vb_u8(&s, text ? 0x7a : 0x5a); vb_be(&s, L[li], 4);
        size_t head_end = s.n;
        vb_reserve(&s, L[li] + 2);
        memset(s.p + s.n, 'k', L[li]); s.n += L[li];
        vb_u8(&s, 0x02);
        const size_t at[] = {1, 3, head_end - 1, head_end, head_end + 1, head_end + L[li] / 4, head_end + L[li] / 2, head_end + L[li] / 2 + 1, head_end + L[li] / 4 * 3, head_end + L[li] - 1, head_end + L[li], s.n - 1};
        uint32_t cuts[3];
        c09_case(s.p, s.n, cuts, 0);
        for (size_t a = 0; a < sizeof at / sizeof at[0]; a++) {
          cuts[0] = (uint32_t)at[a]; c09_case(s.p, s.n, cuts, 1);
          for (size_t b2 = a + 1; b2 < sizeof at / sizeof at[0]; b2 += 3) { cuts[1] = (uint32_t)at[b2]; c09_case(s.p, s.n, cuts, 2); }
        }
        VH_COUNT("streams_with_a_megabyte_string", 1);
      }
  }
  vb_free(&s);
}

/* ------------------------------------------------------------------- C10 */
/* independent head computation */
static size_t want_head(uint8_t* o, unsigned mt, uint64_t v, int force_w /* -1 shortest, 0 = 8-bit variant, 1,2,3 = 16/32/64 */) {
  int w;
  if (force_w < 0) w = v < 24 ? -1 : v <= 0xff ? 0 : v <= 0xffff ? 1 : v <= 0xffffffffull ? 2 : 3;
  else if (force_w == 0) w = v < 24 ? -1 : 0;
  else w = force_w;
  if (w < 0) { o[0] = (uint8_t)(mt << 5 | v); return 1; }
  size_t nb = (size_t)1 << w;
  o[0] = (uint8_t)(mt << 5 | (24 + w));
  for (size_t i = 0; i < nb; i++) o[1 + i] = (uint8_t)(v >> (8 * (nb - 1 - i)));
  return 1 + nb;
}

const char* const enc_names[E_N] = {"uint8", "uint16", "uint32", "uint64", "uint", "negint8", "negint16", "negint32", "negint64", "negint", "bytestring_start",
  "string_start", "array_start", "map_start", "tag", "bool", "null", "undef", "break", "ctrl", "indef_bytestring_start", "indef_string_start", "indef_array_start",
  "indef_map_start", "half", "single", "double"};
static uint64_t enc_hits[E_N];

size_t vh_call_encoder(int e, uint64_t v, uint8_t* buf, size_t n) {
  switch (e) {
    case E_UINT8: return cbor_encode_uint8((uint8_t)v, buf, n);
    case E_UINT16: return cbor_encode_uint16((uint16_t)v, buf, n);
    case E_UINT32: return cbor_encode_uint32((uint32_t)v, buf, n);
    case E_UINT64: return cbor_encode_uint64(v, buf, n);
    case E_UINT: return cbor_encode_uint(v, buf, n);
    case E_NEGINT8: return cbor_encode_negint8((uint8_t)v, buf, n);
    case E_NEGINT16: return cbor_encode_negint16((uint16_t)v, buf, n);
    case E_NEGINT32: return cbor_encode_negint32((uint32_t)v, buf, n);
    case E_NEGINT64: return cbor_encode_negint64(v, buf, n);
    case E_NEGINT: return cbor_encode_negint(v, buf, n);
    case E_BSTART: return cbor_encode_bytestring_start((size_t)v, buf, n);
    case E_SSTART: return cbor_encode_string_start((size_t)v, buf, n);
    case E_ASTART: return cbor_encode_array_start((size_t)v, buf, n);
    case E_MSTART: return cbor_encode_map_start((size_t)v, buf, n);
    case E_TAG: return cbor_encode_tag(v, buf, n);
    case E_BOOL: return cbor_encode_bool(v != 0, buf, n);
    case E_NULL: return cbor_encode_null(buf, n);
    case E_UNDEF: return cbor_encode_undef(buf, n);
    case E_BREAK: return cbor_encode_break(buf, n);
    case E_CTRL: return cbor_encode_ctrl((uint8_t)v, buf, n);
    case E_IBSTART: return cbor_encode_indef_bytestring_start(buf, n);
    case E_ISSTART: return cbor_encode_indef_string_start(buf, n);
    case E_IASTART: return cbor_encode_indef_array_start(buf, n);
    case E_IMSTART: return cbor_encode_indef_map_start(buf, n);
    case E_HALF: { uint32_t b = ref_half_to_single_bits((uint16_t)v); float f; memcpy(&f, &b, 4); return cbor_encode_half(f, buf, n); }
    case E_SINGLE: { uint32_t b = (uint32_t)v; float f; memcpy(&f, &b, 4); return cbor_encode_single(f, buf, n); }
    case E_DOUBLE: { double d; memcpy(&d, &v, 8); return cbor_encode_double(d, buf, n); }
  }
  return 0;
}
/* expected bytes, decode slot and decoded argument; returns length */
static size_t want_encoding(int e, uint64_t v, uint8_t* o, int* slot, uint64_t* darg, bool* decodable) {
  *decodable = true;
  *darg = v;
  switch (e) {
    case E_UINT8: *slot = S_UINT8; return want_head(o, 0, v, 0);
    case E_UINT16: *slot = S_UINT16; return want_head(o, 0, v, 1);
    case E_UINT32: *slot = S_UINT32; return want_head(o, 0, v, 2);
    case E_UINT64: *slot = S_UINT64; return want_head(o, 0, v, 3);
    case E_UINT: *slot = v <= 0xff ? S_UINT8 : v <= 0xffff ? S_UINT16 : v <= 0xffffffffull ? S_UINT32 : S_UINT64; return want_head(o, 0, v, -1);
    case E_NEGINT8: *slot = S_NEGINT8; return want_head(o, 1, v, 0);
    case E_NEGINT16: *slot = S_NEGINT16; return want_head(o, 1, v, 1);
    case E_NEGINT32: *slot = S_NEGINT32; return want_head(o, 1, v, 2);
    case E_NEGINT64: *slot = S_NEGINT64; return want_head(o, 1, v, 3);
    case E_NEGINT: *slot = v <= 0xff ? S_NEGINT8 : v <= 0xffff ? S_NEGINT16 : v <= 0xffffffffull ? S_NEGINT32 : S_NEGINT64; return want_head(o, 1, v, -1);
    case E_BSTART: *slot = S_BSTR; return want_head(o, 2, v, -1);
    case E_SSTART: *slot = S_STR; return want_head(o, 3, v, -1);
    case E_ASTART: *slot = S_ARRAY; return want_head(o, 4, v, -1);
    case E_MSTART: *slot = S_MAP; return want_head(o, 5, v, -1);
    case E_TAG: *slot = S_TAG; return want_head(o, 6, v, -1);
    case E_BOOL: *slot = S_BOOL; *darg = v ? 1 : 0; o[0] = v ? 0xf5 : 0xf4; return 1;
    case E_NULL: *slot = S_NULL; *darg = 0; o[0] = 0xf6; return 1;
    case E_UNDEF: *slot = S_UNDEF; *darg = 0; o[0] = 0xf7; return 1;
    case E_BREAK: *slot = S_BREAK; *darg = 0; o[0] = 0xff; return 1;
    case E_CTRL:
      *decodable = v >= 20 && v <= 23;
      *slot = v == 20 || v == 21 ? S_BOOL : v == 22 ? S_NULL : S_UNDEF; *darg = v == 21 ? 1 : 0;
      if (v < 24) { o[0] = (uint8_t)(0xe0 | v); return 1; }
      o[0] = 0xf8; o[1] = (uint8_t)v; return 2;
    case E_IBSTART: *slot = S_BSTR_START; *darg = 0; o[0] = 0x5f; return 1;
    case E_ISSTART: *slot = S_STR_START; *darg = 0; o[0] = 0x7f; return 1;
    case E_IASTART: *slot = S_INDEF_ARRAY; *darg = 0; o[0] = 0x9f; return 1;
    case E_IMSTART: *slot = S_INDEF_MAP; *darg = 0; o[0] = 0xbf; return 1;
    case E_HALF: { uint16_t h = ref_is_nan16((uint16_t)v) ? 0x7e00 : (uint16_t)v; o[0] = 0xf9; o[1] = (uint8_t)(h >> 8); o[2] = (uint8_t)h; *slot = S_FLOAT2; *darg = h; return 3; }
    case E_SINGLE: { uint32_t s = ref_is_nan32((uint32_t)v) ? 0x7fc00000u : (uint32_t)v; o[0] = 0xfa; for (int i = 0; i < 4; i++) o[1 + i] = (uint8_t)(s >> (24 - 8 * i)); *slot = S_FLOAT4; *darg = s; return 5; }
    case E_DOUBLE: { uint64_t s = ref_is_nan64(v) ? 0x7ff8000000000000ull : v; o[0] = 0xfb; for (int i = 0; i < 8; i++) o[1 + i] = (uint8_t)(s >> (56 - 8 * i)); *slot = S_FLOAT8; *darg = s; return 9; }
  }
  return 0;
}

static bool g_c10_by_construction;
static void c10_case(int e, uint64_t v) {
  uint8_t desc[9];
  desc[0] = (uint8_t)e;
  for (int i = 0; i < 8; i++) desc[1 + i] = (uint8_t)(v >> (56 - 8 * i));
  if (!vh_case(desc, 9)) return;
  uint8_t want[16];
  int slot; uint64_t darg; bool decodable;
  size_t wl = want_encoding(e, v, want, &slot, &darg, &decodable);
  unsigned omis = (unsigned)((v ^ (v >> 31) ^ (uint64_t)e * 3) & 7); /* output start alignment varies */
  uint8_t* buf_base = malloc(wl + omis); /* ends exactly at the expected size: one byte more is a red-zone hit */
  uint8_t* buf = buf_base + omis;
  memset(buf, 0xee, wl);
  ta_reset_stats();
  size_t got = vh_call_encoder(e, v, buf, wl);
  if (TA.requests) vh_violation("allocates", "cbor_encode_%s made %llu allocator requests", enc_names[e], (unsigned long long)TA.requests);
  if (e == E_CTRL && v >= 24 && v < 32) {
    /* RFC 8949 gives simple values 24..31 no well-formed encoding: only safety is judged here, not the bytes */
    free(buf_base);
    VH_COUNT("ctrl_24_31_not_judged", 1);
    return;
  }
  if (got != wl) vh_violation("length-mismatch", "cbor_encode_%s(%llu) returned %zu into a %zu-byte buffer; the RFC 8949 head is %s", enc_names[e], (unsigned long long)v, got, wl, vh_hex(want, wl, 16));
  else if (memcmp(buf, want, wl)) vh_violation("bytes-mismatch", "cbor_encode_%s(%llu) wrote %s, the RFC 8949 head is %s", enc_names[e], (unsigned long long)v, vh_hex(buf, wl, 16), vh_hex(want, wl, 16));
  else {
    enc_hits[e]++;
    /* decode back */
    int ctx;
    rec_expected_ctx = &ctx;
    rec_reset();
    struct cbor_decoder_result res = cbor_stream_decode(buf, wl, &rec_table, &ctx);
    bool is_strhead = (e == E_BSTART || e == E_SSTART);
    if (!decodable) {
      if (res.status != CBOR_DECODER_ERROR) vh_violation("undecodable-accepted", "simple value %llu is outside the decoder's profile but decoding gave %s", (unsigned long long)v, st_name(res.status));
    } else if (is_strhead && v > 0) {
      /* a string head with no payload: the decoder must ask for head + payload */
      unsigned __int128 full = (unsigned __int128)wl + v;
      unsigned __int128 cap = full > (unsigned __int128)SIZE_MAX ? (unsigned __int128)SIZE_MAX : full;
      if (res.status != CBOR_DECODER_NEDATA || rec_n) vh_violation("decode-mismatch", "string head for %llu bytes without payload decoded as %s with %d callbacks", (unsigned long long)v, st_name(res.status), rec_n);
      else if (res.required <= wl || (unsigned __int128)res.required > cap) vh_violation("decode-mismatch", "string head for %llu bytes: required=%zu", (unsigned long long)v, res.required);
    } else {
      if (res.status != CBOR_DECODER_FINISHED || rec_n != 1) vh_violation("decode-mismatch", "decoding the bytes of cbor_encode_%s(%llu) gave %s with %d callbacks", enc_names[e], (unsigned long long)v, st_name(res.status), rec_n);
      else {
        uint64_t garg = rec_ev[0].arg, warg = darg;
        if (slot == S_FLOAT2) { uint32_t w = ref_half_to_single_bits((uint16_t)darg); warg = ref_is_nan32(w) ? 0x7fc00000u : w; garg = ref_is_nan32((uint32_t)garg) ? 0x7fc00000u : garg; }
        if (slot == S_FLOAT4) garg = ref_is_nan32((uint32_t)garg) ? 0x7fc00000u : garg;
        if (slot == S_FLOAT8) garg = ref_is_nan64(garg) ? 0x7ff8000000000000ull : garg;
        if (rec_ev[0].slot != slot || garg != warg) vh_violation("decode-mismatch", "cbor_encode_%s(%llu) decodes as %s(%llu), expected %s(%llu)", enc_names[e], (unsigned long long)v,
                                                                 rec_ev[0].slot >= 0 && rec_ev[0].slot < S_NSLOTS ? rslot_names[rec_ev[0].slot] : "?", (unsigned long long)rec_ev[0].arg, rslot_names[slot], (unsigned long long)warg);
        if (res.read != wl) vh_violation("decode-mismatch", "decoder consumed %zu of the %zu bytes written", res.read, wl);
      }
    }
  }
  (void)fbits;
  free(buf_base);
  if (g_c10_by_construction) vh_nontrivial_distinct(); else vh_nontrivial(vh_hash(desc, 9));
}

static void c10_run_all(void) {
  struct vh_rng r;
  vh_rng_seed(&r, O.seed ^ 0xc10);
  uint64_t nrand = O.budget ? O.budget : (O.thorough ? 100000000 : 1000000);
  int unit = 0;
#define MINE() ((unit++ % O.nshards) == O.shard)
  for (int e = 0; e < E_N; e++) {
    int bits;
    switch (e) {
      case E_UINT8: case E_NEGINT8: case E_CTRL: bits = 8; break;
      case E_UINT16: case E_NEGINT16: case E_HALF: bits = 16; break;
      case E_UINT32: case E_NEGINT32: case E_SINGLE: bits = 32; break;
      case E_BOOL: bits = 1; break;
      case E_NULL: case E_UNDEF: case E_BREAK: case E_IBSTART: case E_ISSTART: case E_IASTART: case E_IMSTART: bits = 0; break;
      default: bits = 64; break;
    }
    if (bits <= 16) {
      uint64_t cnt = bits == 0 ? 1 : (uint64_t)1 << bits;
      if (MINE()) for (uint64_t v = 0; v < cnt; v++) c10_case(e, v);
      continue;
    }
    uint64_t mask = bits == 32 ? 0xffffffffull : ~0ull;
    /* width-agnostic variants: exhaustive below 2^16 + slack, so every shortest-form boundary up to there is hit */
    if (bits == 64 && e != E_UINT64 && e != E_NEGINT64 && e != E_DOUBLE) { if (MINE()) for (uint64_t v = 0; v < 66000; v++) c10_case(e, v); }
    if (MINE()) {
      for (int k = 0; k <= bits; k++)
        for (int d = -2; d <= 2; d++) c10_case(e, ((k == 64 ? 0 : (uint64_t)1 << k) + (uint64_t)d) & mask);
      for (int i = 0; i < gen_nboundaries; i++) c10_case(e, gen_boundaries[i] & mask);
      for (int s = 0; s < 8; s++) c10_case(e, rotr64(0x0102030405060708ull, 8 * s) & mask);
    }
    uint64_t per = nrand / 12;
    for (int chunk = 0; chunk < 16; chunk++)
      if (MINE()) {
        vh_rng_seed(&r, (O.seed ^ 0xc10) * 1000003 + (uint64_t)e * 64 + (uint64_t)chunk);
        for (uint64_t i = 0; i < per / 16; i++) { uint64_t v = vh_rand(&r); if ((i & 3) == 1) v >>= vh_below(&r, 64); c10_case(e, v & mask); }
      }
  }
  for (int e = 0; e < E_N; e++) { char nm[64]; snprintf(nm, sizeof nm, "encoder_ok.%s", enc_names[e]); vh_count_dyn(nm, enc_hits[e]); }
}

static void c10_exh32(void) {
  static const int encs[] = {E_UINT32, E_NEGINT32, E_SINGLE, E_UINT, E_NEGINT, E_BSTART, E_SSTART, E_ASTART, E_MSTART, E_TAG};
  uint64_t lo = ((uint64_t)O.shard << 32) / (uint64_t)O.nshards, hi = (((uint64_t)O.shard + 1) << 32) / (uint64_t)O.nshards;
  g_c10_by_construction = true;
  for (size_t k = 0; k < sizeof encs / sizeof encs[0]; k++)
    for (uint64_t v = lo; v < hi; v++) c10_case(encs[k], v);
  for (int e = 0; e < E_N; e++) if (enc_hits[e]) { char nm[64]; snprintf(nm, sizeof nm, "encoder_ok.%s", enc_names[e]); vh_count_dyn(nm, enc_hits[e]); }
}

/* ------------------------------------------------------------------ vast buffers (C09, C08)
 * A definite string of 2^33 .. 2^46 bytes at the start of a read-only region of that size (never touched beyond the head:
 * the decoder hands out a pointer, it does not read the payload). With B bytes buffered and the item incomplete the wait
 * must report nothing consumed and ask for more than B and for no more than the item occupies; with the item complete
 * it is delivered whole. descriptor: 'V' + u8 major type + u64 declared length + u64 buffered */
static uint8_t* g_vast; static size_t g_vast_len;
static void vast_case(unsigned mt, uint64_t D, uint64_t B) {
  uint8_t desc[18] = {'V', (uint8_t)mt};
  for (int i = 0; i < 8; i++) { desc[2 + i] = (uint8_t)(D >> (56 - 8 * i)); desc[10 + i] = (uint8_t)(B >> (56 - 8 * i)); }
  if (!vh_case(desc, 18)) return;
  if (!g_vast) {
    for (g_vast_len = ((size_t)1 << 46) + ((size_t)2 << 20); g_vast_len > ((size_t)1 << 34); g_vast_len >>= 1) {
      g_vast = mmap(NULL, g_vast_len, PROT_READ, MAP_PRIVATE | MAP_ANONYMOUS | MAP_NORESERVE, -1, 0);
      if (g_vast != MAP_FAILED) break;
      g_vast = NULL;
    }
    if (!g_vast) vh_die("vast buffers: no address space");
    if (mprotect(g_vast, 4096, PROT_READ | PROT_WRITE)) vh_die("vast buffers: mprotect failed");
  }
  const unsigned __int128 full = (unsigned __int128)D + 9;
  if (full > g_vast_len || B > g_vast_len) { VH_COUNT("vast.skipped_no_address_space", 1); return; }
  g_vast[0] = (uint8_t)(mt << 5 | 27);
  for (int i = 0; i < 8; i++) g_vast[1 + i] = (uint8_t)(D >> (56 - 8 * i));
  int ctx;
  rec_expected_ctx = &ctx;
  rec_reset();
  struct cbor_decoder_result res = cbor_stream_decode(g_vast, (size_t)B, &rec_table, &ctx);
  if (B < 9) {
    if (res.status != CBOR_DECODER_NEDATA || res.read || rec_n || res.required <= B || res.required > 9)
      vh_violation("nedata-contract", "head of a %llu-byte string, %llu bytes buffered: status %s, read %zu, %d callbacks, required %zu", (unsigned long long)D, (unsigned long long)B, st_name(res.status), res.read, rec_n, res.required);
  } else if ((unsigned __int128)B < full) {
    if (res.status != CBOR_DECODER_NEDATA || res.read || rec_n)
      vh_violation("nedata-contract", "%llu-byte string, %llu bytes buffered: status %s, read %zu, %d callbacks (nothing may be consumed or delivered)", (unsigned long long)D, (unsigned long long)B, st_name(res.status), res.read, rec_n);
    else if (res.required <= B || (unsigned __int128)res.required > full)
      vh_violation("required-out-of-range", "%llu-byte string (encoding %llu bytes), %llu bytes buffered: the wait asks for %zu; it must ask for more than is buffered and for no more than the item occupies", (unsigned long long)D,
                   (unsigned long long)(D + 9), (unsigned long long)B, res.required);
  } else {
    if (res.status != CBOR_DECODER_FINISHED || res.read != (size_t)full || rec_n != 1 || rec_ev[0].len != D || rec_ev[0].ptr != g_vast + 9 || rec_ev[0].slot != (mt == 2 ? S_BSTR : S_STR))
      vh_violation("finished-contract", "complete %llu-byte string in a %llu-byte buffer: status %s, read %zu, %d callbacks, length %llu", (unsigned long long)D, (unsigned long long)B, st_name(res.status), res.read, rec_n,
                   rec_n ? (unsigned long long)rec_ev[0].len : 0ull);
  }
  if (rec_bad_ctx) vh_violation("stream-wrong-context", "a callback received a context pointer other than the caller's");
  VH_COUNT("vast.buffer_cases", 1);
  if (B >= ((uint64_t)1 << 39)) VH_COUNT("vast.cases_with_2^39_bytes_or_more_buffered", 1);
  if (B >= ((uint64_t)1 << 45)) VH_COUNT("vast.cases_with_2^45_bytes_or_more_buffered", 1);
  vh_nontrivial(vh_hash(desc, 18));
}
static void vast_all(void) {
  static const uint64_t Ds[] = {((uint64_t)1 << 33) + 5, ((uint64_t)1 << 36), ((uint64_t)1 << 39) - 9, ((uint64_t)1 << 39) - 8, ((uint64_t)1 << 39), ((uint64_t)1 << 39) + 1, ((uint64_t)1 << 40) + 12345, ((uint64_t)1 << 42),
                                ((uint64_t)3 << 42) + 77, ((uint64_t)1 << 45) + 7, ((uint64_t)1 << 46) - 9, ((uint64_t)1 << 46)};
  int k = 0;
  for (size_t di = 0; di < sizeof Ds / sizeof Ds[0]; di++) for (unsigned mt = 2; mt <= 3; mt++) {
    uint64_t D = Ds[di];
    const uint64_t Bs[] = {0, 1, 8, 9, 10, ((uint64_t)1 << 32) + 1, ((uint64_t)1 << 36) + 3, ((uint64_t)1 << 39) - 1, (uint64_t)1 << 39, ((uint64_t)1 << 39) + 1, ((uint64_t)1 << 40), ((uint64_t)1 << 43) + 9, ((uint64_t)1 << 45),
                           D / 2 + 9, D, D + 8, D + 9, D + 10, D + 9 + ((uint64_t)1 << 20)};
    for (size_t bi = 0; bi < sizeof Bs / sizeof Bs[0]; bi++) if (k++ % O.nshards == O.shard) vast_case(mt, D, Bs[bi]);
  }
}

/* ------------------------------------------------------------------ entry */
static void setup(void) {
  P = atoi(O.prop + 1);
  if (P != 8 && P != 9 && P != 10) vh_die("driver stream: --prop must be C08, C09 or C10");
  ref_selftest();
  ta_install();
  if (!ta_selftest()) vh_die("track allocator self-test failed");
}
static void stream_run(void) {
  setup();
  if ((P == 8 || P == 9) && !strcmp(O.stage, "vast")) {
    vast_all();
    vh_set_rule("each case is a definite byte or text string of 2^33 .. 2^46 bytes at the start of a read-only region of that size, decoded with 0 .. 2^46 bytes claimed as buffered: an incomplete item consumes nothing, delivers nothing and asks for more than is buffered and no more than the item occupies; a complete one is delivered whole with its exact length; distinct by (type, declared length, buffered)");
    vh_set_exhaustive(false);
  } else if (P == 8 && !strcmp(O.stage, "huge")) {
    c08_huge_all();
    vh_set_rule("each case is an item head (and payload) at the start of a region larger than 4 GiB, decoded with a claimed buffer length of 2^32-1 .. 2^33+65536; the outcome must equal that of the same bytes in an exactly-sized buffer; distinct by hash of (claimed length, bytes)");
    vh_set_exhaustive(false);
  } else if (P == 8 && !strcmp(O.stage, "exh32")) {
    c08_exh32();
    vh_set_rule("each case is one of the 8 x 2^32 five-byte heads with a 4-byte argument, decoded once (one in 64 also cut to 4 bytes) and judged against the closed-form expectation: status, read, required, exactly one callback of the right kind with the right argument; distinct by construction");
    vh_set_exhaustive(true);
  } else if (P == 10 && !strcmp(O.stage, "exh32")) {
    c10_exh32();
    vh_set_rule("each case is one (encoder, value) pair for every value below 2^32 of the ten encoders whose domain or shortest-form switch lies there (uint32, negint32, single, uint, negint, bytestring/string/array/map start, tag); bytes and return value against the RFC 8949 head, then decoded back; distinct by construction");
    vh_set_exhaustive(true);
  } else if (P == 8) {
    c08_run_all();
    vh_set_rule("each case is one (initial byte, argument bytes, buffer length) triple in an exactly-sized heap block, decoded with a 24-slot recording callback table and compared with a one-head reference tokeniser; distinct by 64-bit hash of the buffer (1- and 2-byte arguments exhaustive); every case is non-trivial because status, read, required, callback slot/argument/pointer, allocator silence, statelessness and independence from trailing bytes are all judged");
    vh_set_exhaustive(false);
  } else if (P == 9) {
    c09_run_all();
    vh_set_rule("each case is a (stream, fragmentation) pair run through a buffering client that follows the documented protocol; non-trivial = the stream tokenises to at least one event and is delivered in at least two fragments; distinct by 64-bit hash of (cuts, stream)");
    vh_set_exhaustive(false);
  } else {
    c10_run_all();
    vh_set_rule("each case is one (encoder, value) pair: bytes and return value are compared with an independently computed RFC 8949 head in an exactly-sized buffer, then decoded back with the recording callback table; distinct by 64-bit hash of (encoder, value) (8/16-bit domains exhaustive, 32/64-bit boundary + seeded random)");
    vh_set_exhaustive(false);
  }
}
static void stream_exec(const uint8_t* d, size_t n) {
  setup();
  if (n == 18 && d[0] == 'V' && !strcmp(O.stage, "vast")) { uint64_t D = 0, B = 0; for (int i = 0; i < 8; i++) { D = D << 8 | d[2 + i]; B = B << 8 | d[10 + i]; } vast_case(d[1], D, B); return; }
  if (P == 8 && n >= 9 && d[0] == 'H' && !strcmp(O.stage, "huge")) { size_t c = 0; for (int i = 0; i < 8; i++) c = c << 8 | d[1 + i]; c08_huge_case(d + 9, n - 9, c); return; }
  if (P == 8) { c08_case(d, n); return; }
  if (P == 10) { if (n != 9) { printf("bad C10 descriptor\n"); return; } uint64_t v = 0; for (int i = 0; i < 8; i++) v = v << 8 | d[1 + i]; c10_case(d[0], v); return; }
  if (n < 2) return;
  size_t nc = (size_t)d[0] << 8 | d[1];
  if (2 + 4 * nc > n) { printf("bad C09 descriptor\n"); return; }
  uint32_t* cuts = malloc((nc + 1) * sizeof *cuts);
  for (size_t i = 0; i < nc; i++) cuts[i] = (uint32_t)d[2 + 4 * i] << 24 | (uint32_t)d[3 + 4 * i] << 16 | (uint32_t)d[4 + 4 * i] << 8 | d[5 + 4 * i];
  c09_case(d + 2 + 4 * nc, n - 2 - 4 * nc, cuts, nc);
  free(cuts);
}
const struct vh_driver drv_stream = {"stream", stream_run, stream_exec, "streaming decoder and low-level encoders (C08, C09, C10)"};
