/* d_load.c — driver "load": cbor_load over enumerated / generated inputs.
 * Decides C01 (safety pipeline), C02 (reference decoder), C05 (failure
 * classification), C14 (independence of trailing bytes), depending on --prop.
 *
 * Stages: bytes (all strings <= N bytes), alpha (all strings over a 16-head
 * alphabet), ctx (every initial byte in every parent context, all truncations),
 * gram (systematic + random well-formed trees and their single-edit
 * neighbours), deep (nesting chains around the limit), seq (C14). */
#define _GNU_SOURCE
#include <stdio_ext.h>
#include <sys/mman.h>
#include <unistd.h>

#include "vh.h"

static int P;            /* 1, 2, 5, 14 */
static FILE* devnull;
static size_t CAP = 65536;
static size_t LIM;       /* nesting limit of the linked library */
static size_t g_minlen;  /* inputs shorter than this are covered by the exhaustive byte sweep: not counted again */
static bool g_stage_exhaustive;
static uint64_t g_describe_n;

static const char* code_name(int c) {
  static const char* n[] = {"NONE", "NOTENOUGHDATA", "NODATA", "MALFORMATED", "MEMERROR", "SYNTAXERROR"};
  return c >= 0 && c <= 5 ? n[c] : "?";
}

static void note_nontrivial(const uint8_t* p, size_t n, bool nontrivial) {
  if (!nontrivial) return;
  if (g_stage_exhaustive) vh_nontrivial_distinct();
  else if (n >= g_minlen) vh_nontrivial(vh_hash(p, n));
}

/* ------------------------------------------------------------------- C01 */
static void stream_pass(const uint8_t* in, size_t n, const struct cbor_callbacks* tbl, bool recording) {
  size_t off = 0;
  int ctxobj;
  rec_expected_ctx = &ctxobj;
  for (size_t iter = 0; iter <= n; iter++) {
    rec_reset();
    struct cbor_decoder_result res = cbor_stream_decode(in + off, n - off, tbl, &ctxobj);
    if (res.status != CBOR_DECODER_FINISHED && res.status != CBOR_DECODER_NEDATA && res.status != CBOR_DECODER_ERROR) {
      vh_violation("stream-bad-status", "cbor_stream_decode returned status %d at offset %zu", (int)res.status, off);
      return;
    }
    if (res.status != CBOR_DECODER_FINISHED) return;
    if (res.read == 0 || res.read > n - off) {
      vh_violation("stream-bad-read", "FINISHED with read=%zu but only %zu bytes remain at offset %zu", res.read, n - off, off);
      return;
    }
    if (recording && rec_n >= 1 && rec_ev[0].ptr) {
      const uint8_t* p = rec_ev[0].ptr;
      if (p < in + off || p > in + n || rec_ev[0].len > (uint64_t)(in + n - p))
        vh_violation("stream-payload-outside-buffer", "callback payload [%p,+%llu) outside caller buffer [%p,+%zu)", (const void*)p,
                     (unsigned long long)rec_ev[0].len, (const void*)in, n);
      else {
        /* touch the payload: an out-of-bounds pointer faults under ASan */
        volatile uint8_t sink = 0;
        for (uint64_t i = 0; i < rec_ev[0].len; i++) sink ^= p[i];
        (void)sink;
      }
    }
    off += res.read;
    if (off == n) {
      /* also the documented "no data at all" call, on a zero-length remainder */
      rec_reset();
      res = cbor_stream_decode(in + off, 0, tbl, &ctxobj);
      if (res.status != CBOR_DECODER_NEDATA) vh_violation("stream-empty-not-nedata", "empty buffer gave status %d", (int)res.status);
      return;
    }
  }
}

/* Failing sinks: a stream that accepts nothing (full device, read-only handle). cbor_describe has no error channel; all it
 * owes the caller is to return. Each call runs under a generous local alarm; one that does not return within it is a hang. */
#include <setjmp.h>
#include <signal.h>
#include <sys/time.h>
static sigjmp_buf g_sink_jmp;
static volatile sig_atomic_t g_sink_armed;
static void sink_alarm(int sig) { (void)sig; if (g_sink_armed) siglongjmp(g_sink_jmp, 1); }
static bool g_sinks_dead; /* after a timeout the stream's lock may be held for ever: no further sink cases in this process */
static void describe_to_failing_sinks(const cbor_item_t* it, size_t n_in) {
  static FILE* sinks[3];
  static const char* const names[3] = {"an unbuffered stream on a full device", "a buffered stream on a full device", "a stream opened read-only"};
  static bool init;
  if (g_sinks_dead) return;
  if (!init) {
    init = true;
    sinks[0] = fopen("/dev/full", "w"); if (sinks[0]) setvbuf(sinks[0], NULL, _IONBF, 0);
    sinks[1] = fopen("/dev/full", "w"); if (sinks[1]) { static char b[256]; setvbuf(sinks[1], b, _IOFBF, sizeof b); }
    sinks[2] = fopen("/dev/null", "r");
    struct sigaction sa;
    memset(&sa, 0, sizeof sa);
    sa.sa_handler = sink_alarm;
    sigaction(SIGPROF, &sa, NULL); /* CPU time, not wall-clock time: a loaded machine cannot make a finite call look endless */
  }
  for (int k = 0; k < 3; k++) {
    if (!sinks[k]) { VH_COUNT("describe.failing_sink_unavailable", 1); continue; }
    if (sigsetjmp(g_sink_jmp, 1) == 0) {
      g_sink_armed = 1;
      struct itimerval tv = {{0, 0}, {20, 0}};
      setitimer(ITIMER_PROF, &tv, NULL);
      cbor_describe((cbor_item_t*)it, sinks[k]);
      struct itimerval off = {{0, 0}, {0, 0}};
      setitimer(ITIMER_PROF, &off, NULL);
      g_sink_armed = 0;
      clearerr(sinks[k]);
      VH_COUNT("ops.describe_to_failing_sink", 1);
    } else {
      g_sink_armed = 0;
      g_sinks_dead = true;
      vh_violation("hang", "cbor_describe of the tree decoded from a %zu-byte input did not return within 20 s of CPU time when given %s (every write fails): it must return whatever the stream does", n_in, names[k]);
      return;
    }
  }
}

/* The decoders may write only memory obtained from the allocator: the same bytes decoded again from pages the process
 * cannot write (PROT_READ, the last byte abutting an inaccessible page), as a client does with a constant table or a
 * file mapping. A store into the input - even one undone before returning - is a SIGSEGV there; the verdicts must equal
 * those obtained from writable memory. */
enum { RO_IN_BYTES = 1 << 16 };
static uint8_t* g_ro_in;  /* the view the library is given: PROT_READ, followed by an inaccessible page */
static uint8_t* g_ro_fill; /* a second, writable view of the same pages, through which the harness places the input */
static uint64_t g_ro_in_cases;
static void readonly_input_pass(const uint8_t* src, size_t n, bool had_item, size_t read, int code) {
  if (n == 0 || n > RO_IN_BYTES) return;
  if (!g_ro_in) {
    int fd = memfd_create("vh-readonly-input", 0);
    if (fd < 0 || ftruncate(fd, RO_IN_BYTES)) vh_die("read-only input region: memfd failed");
    g_ro_fill = mmap(NULL, RO_IN_BYTES, PROT_READ | PROT_WRITE, MAP_SHARED, fd, 0);
    uint8_t* region = mmap(NULL, RO_IN_BYTES + 4096, PROT_NONE, MAP_PRIVATE | MAP_ANONYMOUS | MAP_NORESERVE, -1, 0);
    if (g_ro_fill == MAP_FAILED || region == MAP_FAILED) vh_die("read-only input region: mmap failed");
    g_ro_in = mmap(region, RO_IN_BYTES, PROT_READ, MAP_SHARED | MAP_FIXED, fd, 0);
    if (g_ro_in == MAP_FAILED) vh_die("read-only input region: mapping the read-only view failed");
    close(fd);
  }
  memcpy(g_ro_fill + RO_IN_BYTES - n, src, n);
  uint8_t* at = g_ro_in + RO_IN_BYTES - n;
  struct cbor_load_result r;
  memset(&r, 0x5A, sizeof r);
  const uint64_t ref0 = TA.refused;
  cbor_item_t* it = cbor_load(at, n, &r);
  if (TA.refused == ref0 && ((it != NULL) != had_item || (it && r.read != read) || (!it && (int)r.error.code != code)))
    vh_violation("readonly-input-differs", "cbor_load of the same %zu bytes from read-only pages gave %s/read %zu/code %d, from writable memory %s/read %zu/code %d", n, it ? "item" : "NULL", it ? r.read : 0, (int)r.error.code,
                 had_item ? "item" : "NULL", read, code);
  if (it) cbor_decref(&it);
  size_t off = 0;
  while (off < n) {
    struct cbor_decoder_result d = cbor_stream_decode(at + off, n - off, &cbor_empty_callbacks, NULL);
    if (d.status != CBOR_DECODER_FINISHED || d.read == 0) break;
    off += d.read;
  }
  g_ro_in_cases++;
  if ((g_ro_in_cases & 1023) == 0) VH_COUNT("readonly_input_decodes", 1024);
}

static void c01_case(const uint8_t* src, size_t n) {
  /* the start of the caller's buffer takes every alignment 0..15 over the cases (the end always abuts the red zone) */
  void* in_base;
  unsigned mis = (unsigned)(vh_hash(src, n) >> 17) & 15;
  uint8_t* in = vh_exact_mis(src, n, mis, &in_base);
  { static const char* const an[16] = {"input_alignment.0", "input_alignment.1", "input_alignment.2", "input_alignment.3", "input_alignment.4", "input_alignment.5", "input_alignment.6", "input_alignment.7", "input_alignment.8", "input_alignment.9", "input_alignment.10", "input_alignment.11", "input_alignment.12", "input_alignment.13", "input_alignment.14", "input_alignment.15"}; if ((vh_hash(src, n) & 1023) == 0) vh_count_dyn(an[mis], 1024); }
  ta_reset_stats();
  struct cbor_load_result r;
  memset(&r, 0xA5, sizeof r);
  VH_POISON(&r, sizeof r); /* msan flavour: a field the library leaves unwritten stays poisoned */
  cbor_item_t* it = cbor_load(in, n, &r);
  const bool first_item = it != NULL, first_refused = TA.refused != 0;
  const size_t first_read = it ? r.read : 0;
  const int first_code = (int)r.error.code;
  {
    long u1 = VH_UNINIT_AT(&r.error.code, sizeof r.error.code), u2 = VH_UNINIT_AT(&r.error.position, sizeof r.error.position), u3 = VH_UNINIT_AT(&r.read, sizeof r.read);
    if (u1 >= 0 || (!it && (u2 >= 0 || u3 >= 0)))
      vh_violation("result-field-uninitialised", "cbor_load %s but left result.%s uninitialised", it ? "returned an item" : "failed", u1 >= 0 ? "error.code" : u2 >= 0 ? "error.position" : "read");
    VH_UNPOISON(&r, sizeof r);
  }
  bool nontrivial = false;
  if (it) {
    VH_COUNT("outcome.item", 1);
    nontrivial = true;
    if (r.error.code != CBOR_ERR_NONE) vh_violation("item-with-error-code", "cbor_load returned an item and error code %s", code_name((int)r.error.code));
    if (r.read == 0 || r.read > n) vh_violation("read-out-of-range", "item returned with read=%zu for a %zu-byte buffer", r.read, n);
    size_t nodes = walk_count_nodes(it);
    VH_MAX("max_nodes_in_tree", nodes);
    {
      /* describe writes to the caller's stream and must leave its configuration (buffer, mode) as it found it;
       * one case in 4096 uses the process's own stderr object, which clients commonly pass */
      FILE* out = (g_describe_n++ & 4095) == 7 && nodes <= 8 ? stderr : devnull;
      fputc(' ', out); fflush(out); /* stdio sets a stream's buffer up lazily at its first use: do that before sampling */
      size_t b0 = __fbufsize(out); int l0 = __flbf(out);
      cbor_describe(it, out);
      if (__fbufsize(out) != b0 || __flbf(out) != l0)
        vh_violation("describe-changed-stream-state", "cbor_describe left the caller's %s with a different buffer (size %zu -> %zu, line-buffered %d -> %d): hidden change of process-global stdio state; later output would go through a buffer the caller did not provide",
                     out == stderr ? "stderr" : "stream", b0, __fbufsize(out), l0, __flbf(out));
      if (out == stderr) VH_COUNT("ops.describe_to_stderr", 1);
      if ((g_describe_n & 63) == 9 && nodes <= 64 && n <= 4096) describe_to_failing_sinks(it, n);
    }
    size_t sz = cbor_serialized_size(it);
    if (sz) {
      uint8_t* out = malloc(sz);
      size_t w = cbor_serialize(it, out, sz);
      if (w && w <= sz) { long u = VH_UNINIT_AT(out, w); if (u >= 0) vh_violation("serialized-uninitialised-memory", "byte %ld of the %zu serialized bytes was never written / comes from uninitialised memory", u, w); }
      if (w) { volatile uint8_t s = 0; for (size_t i = 0; i < w && i < sz; i++) s ^= out[i]; (void)s; }
      free(out);
    }
    unsigned char* ab = NULL;
    size_t abn = 0;
    size_t w2 = cbor_serialize_alloc(it, &ab, &abn);
    if (ab) { volatile uint8_t s = 0; for (size_t i = 0; i < w2 && i < abn; i++) s ^= ab[i]; (void)s; ta_free(ab); }
    ab = NULL;
    w2 = cbor_serialize_alloc(it, &ab, NULL); /* the size out-parameter is optional */
    if (ab) { volatile uint8_t s = 0; for (size_t i = 0; i < w2; i++) s ^= ab[i]; (void)s; ta_free(ab); }
    cbor_item_t* cp = cbor_copy(it);
    if (cp) {
      VH_COUNT("ops.copy_ok", 1);
      struct vh_buf d = {0};
      walk_dump_item(cp, &d, WD_REFCOUNTS);
      vb_free(&d);
      cbor_decref(&cp);
      if (cp != NULL) { vh_violation("copy-not-released", "copy root still alive after the only reference was dropped"); }
    } else VH_COUNT("ops.copy_null", 1);
    struct vh_buf d = {0};
    walk_dump_item(it, &d, WD_REFCOUNTS);
    vb_free(&d);
    cbor_decref(&it);
    if (it != NULL) vh_violation("root-not-released", "decoded root still alive after its only reference was dropped (refcount was not 1)");
  } else {
    int c = (int)r.error.code;
    if (c == CBOR_ERR_NONE) vh_violation("null-without-error", "cbor_load returned NULL with error code NONE");
    else if (c < 1 || c > 5) vh_violation("unknown-error-code", "cbor_load returned NULL with error code %d", c);
    else {
      static const char* names[] = {"", "outcome.NOTENOUGHDATA", "outcome.NODATA", "outcome.MALFORMATED", "outcome.MEMERROR", "outcome.SYNTAXERROR"};
      vh_count_dyn(names[c], 1);
      if (c != CBOR_ERR_NODATA && c != CBOR_ERR_MALFORMATED && (c != CBOR_ERR_NOTENOUGHDATA || n > 1)) nontrivial = true;
    }
  }
  if (ta_live_count() != 0) {
    vh_violation("leak", "%zu block(s) still allocated after the pipeline (load%s); events: %s", ta_live_count(), it ? "+ops+release" : " failed", ta_ring_dump());
    ta_forget_all();
  }
  if (TA.refused) VH_COUNT("cases_with_refusal", 1);
  if (!first_refused) readonly_input_pass(src, n, first_item, first_read, first_code);
  if (ta_live_count() != 0) { vh_violation("leak", "%zu block(s) still allocated after decoding from read-only pages", ta_live_count()); ta_forget_all(); }
  stream_pass(in, n, &cbor_empty_callbacks, false);
  stream_pass(in, n, &rec_table, true);
  if (rec_bad_ctx) vh_violation("stream-wrong-context", "a callback received a context pointer other than the caller's");
  if (n == 0) { /* the empty buffer may be represented by a null pointer */
    struct cbor_load_result r0;
    memset(&r0, 0xA5, sizeof r0);
    cbor_item_t* i0 = cbor_load(NULL, 0, &r0);
    if (i0 || r0.error.code != CBOR_ERR_NODATA) { vh_violation("null-empty-buffer", "cbor_load(NULL, 0) returned %s with code %d", i0 ? "an item" : "NULL", (int)r0.error.code); if (i0) cbor_decref(&i0); }
    VH_COUNT("null_pointer_empty_buffer_calls", 1);
  }
  free(in_base);
  note_nontrivial(src, n, nontrivial);
}

/* -------------------------------------------------------------- C02 / C05 */
struct addr_ud { const uint8_t* lo; const uint8_t* hi; int hits; int foreign; };
static void addr_cb(const void* p, size_t len, const char* what, void* ud_) {
  (void)len; (void)what;
  struct addr_ud* ud = ud_;
  if ((const uint8_t*)p >= ud->lo && (const uint8_t*)p < ud->hi) ud->hits++;
}

static void filled_cb(const cbor_item_t* it, void* ud) {
  if (cbor_isa_array(it) && cbor_array_is_definite(it) && cbor_array_size(it) != cbor_array_allocated(it)) ++*(int*)ud;
  if (cbor_isa_map(it) && cbor_map_is_definite(it) && cbor_map_size(it) != cbor_map_allocated(it)) ++*(int*)ud;
}

/* MEMERROR at `pos`: admissible if the allocator observed a refusal, or the head
 * ending at pos declares more members than any allocator within CAP could hold,
 * or the reference itself says the nesting limit is exceeded there. In every case
 * pos must be the end of a head the left-to-right scan reaches. */
static bool memerror_ok(const struct rheads* hs, const struct rverdict* Z, const struct rverdict* E, size_t pos, uint64_t refused, const char** why) {
  if ((Z->code == RC_MEMERROR && Z->pos == pos) || (E->code == RC_MEMERROR && E->pos == pos)) return true;
  size_t hi = (size_t)-1;
  for (size_t i = 0; i < hs->n; i++) if (hs->end[i] == pos) { hi = i; break; }
  if (hi == (size_t)-1) { *why = "position is not the end of an item head reached by a left-to-right scan"; return false; }
  if (refused) return true;
  unsigned mt = hs->ib[hi] >> 5, ai = hs->ib[hi] & 31;
  /* without an observed refusal only a count whose table size is not representable (the multiplication guard, which may
   * be conservative by a bit or two, fails before the allocator is asked) explains a MEMERROR */
  if ((mt == 4 || mt == 5) && ai != 31 && hs->arg[hi] >= ((uint64_t)1 << 59)) return true;
  *why = "the allocator was never refused anything, the declared count is far from overflowing a table size, and nesting is within the limit";
  return false;
}

static void c0205_case(const uint8_t* src, size_t n) {
  struct rheads hs = {0};
  struct rverdict Z = ref_decode(src, n, LIM, RM_LAZY, P == 2, &hs);
  struct rverdict E = Z;
  if (Z.code != RC_ACCEPT && n && (memchr(src, 0x5f, n) || memchr(src, 0x7f, n))) E = ref_decode(src, n, LIM, RM_EAGER, false, NULL);
  void* in_base;
  uint8_t* in = vh_exact_mis(src, n, (unsigned)(vh_hash(src, n) >> 17) & 15, &in_base);
  ta_reset_stats();
  struct cbor_load_result r;
  memset(&r, 0xAA, sizeof r);
  vh_ambient_scramble(vh_hash(src, n) >> 9); /* stale errno / rounding mode must not influence decoding */
  cbor_item_t* it = cbor_load(in, n, &r);
  vh_ambient_restore();
  uint64_t refused = TA.refused;
  const char* why = "";
  bool nontrivial = false;
  if (it) {
    VH_COUNT("lib.accept", 1);
    if (P == 2) {
      nontrivial = true;
      if (Z.code != RC_ACCEPT) {
        struct vh_buf pr = {0};
        walk_print_item(it, &pr);
        vh_violation("accepted-ill-formed", "cbor_load accepted (read=%zu, tree %s) but the reference rejects with %s at %zu", r.read, (char*)pr.p, code_name(Z.code), Z.pos);
        vb_free(&pr);
      } else {
        if (refused) vh_violation("accepted-despite-refusal", "the allocator refused %llu request(s) yet cbor_load returned an item", (unsigned long long)refused);
        if (r.error.code != CBOR_ERR_NONE) vh_violation("item-with-error-code", "item returned with error code %s", code_name((int)r.error.code));
        if (r.read != Z.read) vh_violation("read-mismatch", "read=%zu but the first item's encoded length is %zu", r.read, Z.read);
        if (!walk_all_rc1(it)) {
          struct vh_buf pr = {0};
          walk_print_item(it, &pr);
          vh_violation("node-not-solely-owned", "a node of the returned tree has reference count != 1: %s", (char*)pr.p);
          vb_free(&pr);
        }
        { const char* bad = walk_check_predicates(it); if (bad) vh_violation("predicates-inconsistent", "on a node of the returned tree %s", bad); }
        { int partial = 0; ro_each_node(it, filled_cb, &partial);
          /* "completely filled" (size == declared count) is judged by the tree comparison below; spare capacity is only observed */
          if (partial) VH_COUNT("decoded_definite_containers_with_spare_capacity", partial); }
        struct addr_ud au = {in, in + n, 0, 0};
        walk_blocks(it, addr_cb, &au);
        if (au.hits) vh_violation("tree-refers-to-input", "%d pointer(s) in the returned tree point into the caller's input buffer", au.hits);
        /* the input may be overwritten and freed at once */
        memset(in, 0xDD, n);
        free(in_base);
        in = NULL; in_base = NULL;
        struct vh_buf a = {0}, b = {0};
        walk_dump_item(it, &a, 0);
        walk_dump_ref(Z.tree, &b);
        if (a.n != b.n || memcmp(a.p, b.p, a.n)) {
          struct vh_buf pr = {0};
          walk_print_item(it, &pr);
          vh_violation("tree-mismatch", "returned tree %s differs from the tree the bytes denote (dump lib=%s ref=%s)", (char*)pr.p, vh_hex(a.p, a.n, 80), vh_hex(b.p, b.n, 80));
          vb_free(&pr);
        }
        VH_MAX("max_depth_accepted", Z.max_depth);
        vb_free(&a); vb_free(&b);
      }
    }
    cbor_decref(&it);
  } else {
    int c = (int)r.error.code;
    static const char* names[] = {"lib.NONE", "lib.NOTENOUGHDATA", "lib.NODATA", "lib.MALFORMATED", "lib.MEMERROR", "lib.SYNTAXERROR"};
    if (c >= 0 && c <= 5) vh_count_dyn(names[c], 1);
    if (P == 2) {
      if (Z.code == RC_ACCEPT) {
        nontrivial = true;
        if (!(c == CBOR_ERR_MEMERROR && memerror_ok(&hs, &Z, &E, r.error.position, refused, &why)))
          vh_violation("rejected-well-formed", "cbor_load failed with %s at %zu on an input whose first %zu bytes are a well-formed item within the profile (refused requests: %llu)",
                       code_name(c), r.error.position, Z.read, (unsigned long long)refused);
      } else if (refused && c != CBOR_ERR_MEMERROR) {
        /* iff-clause, other direction is C05's business */
      }
    } else if (Z.code == RC_ACCEPT) {
      VH_COUNT("skipped.reference-accepts", 1);
    } else {
      /* ---- C05 ---- */
      nontrivial = n > 0;
      if (c == CBOR_ERR_NONE) vh_violation("null-without-error", "cbor_load returned NULL with code NONE");
      /* every field written: second run with a different sentinel */
      uint8_t* in2 = vh_exact(src, n);
      struct cbor_load_result r2;
      memset(&r2, 0x55, sizeof r2);
      cbor_item_t* it2 = cbor_load(in2, n, &r2);
      if (it2) { vh_violation("nondeterministic", "second identical call returned an item"); cbor_decref(&it2); }
      free(in2);
      size_t sa, sb; memset(&sa, 0xAA, sizeof sa); memset(&sb, 0x55, sizeof sb);
      int ca, cb_; memset(&ca, 0xAA, sizeof ca); memset(&cb_, 0x55, sizeof cb_);
      if (r.error.position == sa && r2.error.position == sb) vh_violation("unwritten-field", "result.error.position was left untouched (code %s, %zu-byte input)", code_name(c), n);
      if (r.read == sa && r2.read == sb) vh_violation("unwritten-field", "result.read was left untouched (code %s, %zu-byte input)", code_name(c), n);
      if ((int)r.error.code == ca && (int)r2.error.code == cb_) vh_violation("unwritten-field", "result.error.code was left untouched");
      else if (r.error.code != r2.error.code || (r.error.position != r2.error.position && !(r.error.position == sa && r2.error.position == sb)))
        vh_violation("nondeterministic", "two identical calls gave %s@%zu and %s@%zu", code_name(c), r.error.position, code_name((int)r2.error.code), r2.error.position);
      if (r.read != sa && r.read > n) vh_violation("read-out-of-range", "read=%zu exceeds the %zu-byte buffer", r.read, n);
      /* code and position */
      bool pos_written = !(r.error.position == sa && r2.error.position == sb);
      if (Z.code == RC_NODATA) {
        if (c != CBOR_ERR_NODATA) vh_violation("wrong-code", "empty input gave %s instead of NODATA", code_name(c));
        else if (pos_written && r.error.position != 0) vh_violation("wrong-position", "NODATA at position %zu", r.error.position);
      } else if (pos_written || c != Z.code) {
        bool okZ = c == Z.code && r.error.position == Z.pos, okE = c == E.code && r.error.position == E.pos;
        if (c == CBOR_ERR_MEMERROR) {
          size_t bound = Z.pos > E.pos ? Z.pos : E.pos;
          if (!okZ && !okE) {
            if (!memerror_ok(&hs, &Z, &E, r.error.position, refused, &why))
              vh_violation("inadmissible-memerror", "MEMERROR at %zu: %s (reference: %s at %zu)", r.error.position, why, code_name(Z.code), Z.pos);
            else if (r.error.position > bound)
              vh_violation("memerror-after-first-violation", "MEMERROR at %zu but the first violation left to right is %s at %zu", r.error.position, code_name(Z.code), Z.pos);
          }
        } else {
          if (refused) vh_violation("refusal-not-reported", "the allocator refused %llu request(s) but the code is %s, not MEMERROR", (unsigned long long)refused, code_name(c));
          else if (!okZ && !okE) {
            const char* key = c != Z.code && c != E.code ? "wrong-code" : "wrong-position";
            if (Z.code == E.code && Z.pos == E.pos)
              vh_violation(key, "cbor_load reported %s at %zu; the reference says %s at %zu", code_name(c), r.error.position, code_name(Z.code), Z.pos);
            else
              vh_violation(key, "cbor_load reported %s at %zu; admissible are %s at %zu (eager) or %s at %zu (lazy)", code_name(c), r.error.position,
                           code_name(E.code), E.pos, code_name(Z.code), Z.pos);
          }
        }
        if (Z.code != E.code || Z.pos != E.pos) { VH_COUNT("eager_lazy_differ", 1); if (okZ) VH_COUNT("lib_takes_lazy", 1); else if (okE) VH_COUNT("lib_takes_eager", 1); }
      }
      static const char* rnames[] = {"ref.ACCEPT", "ref.NOTENOUGHDATA", "ref.NODATA", "ref.MALFORMATED", "ref.MEMERROR", "ref.SYNTAXERROR"};
      vh_count_dyn(rnames[Z.code], 1);
    }
  }
  if (ta_live_count() != 0) {
    if (P == 5 || it == NULL) vh_violation("leak", "%zu block(s) left allocated after cbor_load %s; events: %s", ta_live_count(), "and release", ta_ring_dump());
    ta_forget_all();
  }
  if (refused) VH_COUNT("cases_with_refusal", 1);
  if (P == 2) { static const char* rnames[] = {"ref.ACCEPT", "ref.NOTENOUGHDATA", "ref.NODATA", "ref.MALFORMATED", "ref.MEMERROR", "ref.SYNTAXERROR"}; vh_count_dyn(rnames[Z.code], 1); }
  VH_MAX("max_heads_scanned", Z.heads);
  if (vh_sampling()) vh_sample_text("lib: %s@%zu read=%zu | ref: %s pos=%zu read=%zu", it ? "ITEM" : code_name((int)r.error.code), r.error.position, r.read, code_name(Z.code), Z.pos, Z.read);
  if (n == 0) { /* the empty buffer may be represented by a null pointer */
    struct cbor_load_result r0;
    memset(&r0, 0xA5, sizeof r0);
    cbor_item_t* i0 = cbor_load(NULL, 0, &r0);
    if (i0 || r0.error.code != CBOR_ERR_NODATA) { vh_violation("null-empty-buffer", "cbor_load(NULL, 0) returned %s with code %d", i0 ? "an item" : "NULL", (int)r0.error.code); if (i0) cbor_decref(&i0); }
    VH_COUNT("null_pointer_empty_buffer_calls", 1);
  }
  free(in_base);
  if (Z.tree) rn_free(Z.tree);
  rheads_free(&hs);
  note_nontrivial(src, n, nontrivial);
}

/* ------------------------------------------------------------------- C14 */
/* Descriptor: 2-byte big-endian |x|, then x, then y. */
static void c14_pair(const uint8_t* x, size_t nx, const uint8_t* y, size_t ny) {
  struct vh_buf d = {0};
  vb_be(&d, nx, 2); vb_put(&d, x, nx); vb_put(&d, y, ny);
  if (!vh_case(d.p, d.n)) { vb_free(&d); return; }
  uint8_t* a = vh_exact(x, nx);
  struct cbor_load_result ra, rb;
  memset(&ra, 0, sizeof ra); memset(&rb, 0, sizeof rb);
  cbor_item_t* ia = cbor_load(a, nx, &ra);
  if (!ia || ra.read != nx) {
    /* x is not exactly one acceptable item: outside the property's domain */
    VH_COUNT("skipped.x-not-one-item", 1);
    if (ia) cbor_decref(&ia);
    free(a); vb_free(&d);
    return;
  }
  /* x||y starts at a different alignment than x alone did */
  unsigned bmis = 1 + ((unsigned)(vh_hash(x, nx) >> 11) % 15);
  uint8_t* b_base = malloc(nx + ny + bmis);
  uint8_t* b = b_base + bmis;
  memcpy(b, x, nx); if (ny) memcpy(b + nx, y, ny);
  cbor_item_t* ib = cbor_load(b, nx + ny, &rb);
  if (!ib) vh_violation("suffix-changes-acceptance", "x alone decodes (read=%zu) but x||y fails with %s at %zu", ra.read, code_name((int)rb.error.code), rb.error.position);
  else {
    if (rb.read != ra.read) vh_violation("suffix-changes-read", "read=%zu for x alone but %zu for x||y", ra.read, rb.read);
    struct vh_buf da = {0}, db = {0};
    walk_dump_item(ia, &da, WD_REFCOUNTS);
    walk_dump_item(ib, &db, WD_REFCOUNTS);
    if (da.n != db.n || memcmp(da.p, db.p, da.n)) vh_violation("suffix-changes-tree", "tree of x||y differs from tree of x (dumps %s vs %s)", vh_hex(db.p, db.n, 60), vh_hex(da.p, da.n, 60));
    vb_free(&da); vb_free(&db);
    cbor_decref(&ib);
  }
  cbor_decref(&ia);
  if (ta_live_count()) { vh_violation("leak", "%zu block(s) left", ta_live_count()); ta_forget_all(); }
  free(a); free(b_base);
  vh_nontrivial(vh_hash(d.p, d.n));
  VH_COUNT("pairs_checked", 1);
  if (ny == 0) VH_COUNT("y.empty", 1); else if (ny == 1) VH_COUNT("y.single_byte", 1); else VH_COUNT("y.multi_byte", 1);
  vb_free(&d);
}

/* x is one big leaf (a string of 128 KiB..16 MiB, a container or chunked string of 10 000..400 000 members, bare or as
 * the last member of an array), y one of 20 continuations covering every kind of first byte. x alone is decoded once;
 * x||y must give the same tree and the same read count for every y. descriptor: 'G' + u32 index */
static void c14_big(uint32_t idx) {
  uint8_t desc[5] = {'G', (uint8_t)(idx >> 24), (uint8_t)(idx >> 16), (uint8_t)(idx >> 8), (uint8_t)idx};
  if (!vh_case(desc, 5)) return;
  rnode* t = gen_bigleaf(idx);
  if (!t) return;
  struct vh_buf x = {0};
  ref_encode_src(t, &x);
  rn_free(t);
  size_t cap0 = CAP;
  CAP = (size_t)1 << 30; ta_set_cap(CAP);
  uint8_t* a = vh_exact(x.p, x.n);
  struct cbor_load_result ra;
  memset(&ra, 0, sizeof ra);
  cbor_item_t* ia = cbor_load(a, x.n, &ra);
  if (!ia || ra.read != x.n) { vh_violation("big-item-not-decoded", "a well-formed %zu-byte item did not decode as one item (code %d, read %zu)", x.n, (int)ra.error.code, ra.read); if (ia) cbor_decref(&ia); goto out; }
  struct vh_buf da = {0};
  walk_dump_item(ia, &da, WD_REFCOUNTS);
  cbor_decref(&ia);
  static const uint8_t ys[][3] = {{0}, {0x00}, {0x01}, {0x17}, {0x18, 0x18}, {0x19, 0x01}, {0x20}, {0x37}, {0x40}, {0x41, 0x00}, {0x60}, {0x80}, {0x81, 0x00}, {0xa0}, {0xc0, 0x00}, {0xf4}, {0xf6}, {0xf9, 0x3c, 0x00}, {0xff}, {0x1c}, {0x5f, 0xff}, {0x9f, 0xff}};
  static const uint8_t yn[] = {0, 1, 1, 1, 2, 2, 1, 1, 1, 2, 1, 1, 2, 1, 2, 1, 1, 3, 1, 1, 2, 2};
  for (size_t k = 0; k < sizeof yn; k++) {
    if (!O.thorough && x.n > 300000 && (k % 3) != (idx % 3) && k > 3) continue; /* quick: the first four and a third of the rest on the largest items */
    uint8_t* base = malloc(x.n + yn[k] + (k & 1)); /* the end abuts the red zone; two start alignments */
    uint8_t* ex = base + (k & 1);
    memcpy(ex, x.p, x.n);
    memcpy(ex + x.n, ys[k], yn[k]);
    struct cbor_load_result rb;
    memset(&rb, 0, sizeof rb);
    cbor_item_t* ib = cbor_load(ex, x.n + yn[k], &rb);
    if (!ib) vh_violation("suffix-changes-acceptance", "a %zu-byte item x decodes alone but x||%s fails with %s at %zu", x.n, vh_hex(ys[k], yn[k], 4), code_name((int)rb.error.code), rb.error.position);
    else {
      if (rb.read != x.n) vh_violation("suffix-changes-read", "read=%zu for the %zu-byte item x alone but %zu for x||%s", x.n, x.n, rb.read, vh_hex(ys[k], yn[k], 4));
      struct vh_buf db = {0};
      walk_dump_item(ib, &db, WD_REFCOUNTS);
      if (da.n != db.n || memcmp(da.p, db.p, da.n)) vh_violation("suffix-changes-tree", "tree of x||%s differs from the tree of the %zu-byte item x alone (dumps of %zu vs %zu bytes; x||y starts %s)", vh_hex(ys[k], yn[k], 4), x.n, db.n, da.n, vh_hex(db.p, db.n, 24));
      vb_free(&db);
      cbor_decref(&ib);
    }
    free(base);
    if (ta_live_count()) { vh_violation("leak", "%zu block(s) left after decoding a big item followed by %s", ta_live_count(), vh_hex(ys[k], yn[k], 4)); ta_forget_all(); }
    VH_COUNT("big_x.pairs_checked", 1);
  }
  vb_free(&da);
  VH_COUNT("big_x.items", 1);
  vh_nontrivial(vh_hash(desc, 5));
out:
  free(a);
  CAP = cap0; ta_set_cap(CAP);
  vb_free(&x);
}

/* Descriptor for sequences: 0xFFFF marker, count k, then k x (2-byte length, bytes). */
static void c14_sequence(const struct vh_buf* items, size_t k) {
  struct vh_buf d = {0}, cat = {0};
  vb_be(&d, 0xffff, 2); vb_u8(&d, (uint8_t)k);
  for (size_t i = 0; i < k; i++) { vb_be(&d, items[i].n, 2); vb_put(&d, items[i].p, items[i].n); vb_put(&cat, items[i].p, items[i].n); }
  if (!vh_case(d.p, d.n)) { vb_free(&d); vb_free(&cat); return; }
  /* every item must decode alone, else the case is outside the domain */
  struct vh_buf* dumps = calloc(k, sizeof *dumps);
  bool ok = true;
  for (size_t i = 0; i < k && ok; i++) {
    uint8_t* a = vh_exact(items[i].p, items[i].n);
    struct cbor_load_result r;
    cbor_item_t* it = cbor_load(a, items[i].n, &r);
    if (!it || r.read != items[i].n) ok = false;
    if (it) { walk_dump_item(it, &dumps[i], 0); cbor_decref(&it); }
    free(a);
  }
  if (ok) {
    uint8_t* buf = vh_exact(cat.p, cat.n);
    size_t off = 0;
    for (size_t i = 0; i < k; i++) {
      struct cbor_load_result r;
      memset(&r, 0, sizeof r);
      if (off >= cat.n) { vh_violation("sequence-ended-early", "buffer exhausted after %zu of %zu items", i, k); break; }
      cbor_item_t* it = cbor_load(buf + off, cat.n - off, &r);
      if (!it) { vh_violation("sequence-item-rejected", "item %zu of %zu at offset %zu failed with %s at %zu", i, k, off, code_name((int)r.error.code), r.error.position); break; }
      struct vh_buf dd = {0};
      walk_dump_item(it, &dd, 0);
      if (dd.n != dumps[i].n || memcmp(dd.p, dumps[i].p, dd.n)) vh_violation("sequence-item-differs", "item %zu decoded from the sequence differs from the item decoded alone", i);
      if (r.read != items[i].n) vh_violation("sequence-read-differs", "item %zu: read=%zu in the sequence, %zu alone", i, r.read, items[i].n);
      vb_free(&dd);
      cbor_decref(&it);
      off += r.read;
    }
    if (off != cat.n && !0) { if (off < cat.n) vh_violation("sequence-not-at-end", "splitting stopped at %zu of %zu bytes", off, cat.n); }
    free(buf);
    VH_COUNT("sequences_checked", 1);
    VH_COUNT("sequence_items", k);
    vh_nontrivial(vh_hash(d.p, d.n));
  } else VH_COUNT("skipped.x-not-one-item", 1);
  if (ta_live_count()) { vh_violation("leak", "%zu block(s) left", ta_live_count()); ta_forget_all(); }
  for (size_t i = 0; i < k; i++) vb_free(&dumps[i]);
  free(dumps);
  vb_free(&d); vb_free(&cat);
}

/* a long CBOR sequence: k small items back to back (tens of thousands, the running offset crossing 2^16), split by repeated
 * cbor_load at the advancing offset; descriptor 'Q', u32 seed, u32 k */
static void c14_long(uint32_t seed, uint32_t k) {
  uint8_t desc[9] = {'Q'};
  for (int i = 0; i < 4; i++) { desc[1 + i] = (uint8_t)(seed >> (24 - 8 * i)); desc[5 + i] = (uint8_t)(k >> (24 - 8 * i)); }
  if (!vh_case(desc, 9)) return;
  struct vh_rng r;
  vh_rng_seed(&r, 0x5e90000ull + seed);
  static const char* const pool[] = {"00", "17", "1818", "190100", "20", "3903e7", "40", "4161", "60", "62c3a9", "80", "8101", "a0", "a10102", "9fff", "5f4100ff", "7fff", "c100", "d81840", "f4", "f6", "f7", "f93c00", "fa3fc00000",
                                     "fb3ff0000000000000", "826161a10203", "bf01f5ff", "d9d9f700", "1a00010000", "1b0000000100000000", "58180102030405060708090a0b0c0d0e0f101112131415161718", "9f9f9fffffff"};
  const size_t np = sizeof pool / sizeof pool[0];
  struct vh_buf cat = {0};
  uint32_t* lens = malloc(k * sizeof *lens);
  uint8_t* which = malloc(k);
  for (uint32_t i = 0; i < k; i++) {
    size_t pi = vh_below(&r, np);
    which[i] = (uint8_t)pi;
    const char* h = pool[pi];
    lens[i] = (uint32_t)(strlen(h) / 2);
    for (; *h; h += 2) { unsigned v; sscanf(h, "%2x", &v); vb_u8(&cat, (uint8_t)v); }
  }
  /* each pool item decoded alone: the expected dumps */
  struct vh_buf alone[32];
  memset(alone, 0, sizeof alone);
  for (size_t pi = 0; pi < np; pi++) {
    uint8_t b[64]; size_t n = strlen(pool[pi]) / 2;
    for (size_t q = 0; q < n; q++) { unsigned v; sscanf(pool[pi] + 2 * q, "%2x", &v); b[q] = (uint8_t)v; }
    uint8_t* ex = vh_exact(b, n);
    struct cbor_load_result lr;
    cbor_item_t* it = cbor_load(ex, n, &lr);
    if (!it || lr.read != n) vh_die("c14_long: pool item %s does not decode alone", pool[pi]);
    walk_dump_item(it, &alone[pi], 0);
    cbor_decref(&it);
    free(ex);
  }
  uint8_t* buf = vh_exact(cat.p, cat.n);
  size_t off = 0;
  uint32_t i = 0;
  for (; i < k; i++) {
    if (off >= cat.n) { vh_violation("sequence-ended-early", "buffer exhausted after %u of %u items", i, k); break; }
    struct cbor_load_result lr;
    memset(&lr, 0, sizeof lr);
    cbor_item_t* it = cbor_load(buf + off, cat.n - off, &lr);
    if (!it) { vh_violation("sequence-item-rejected", "item %u of %u at offset %zu (%zu bytes remaining) failed with %s at %zu", i, k, off, cat.n - off, code_name((int)lr.error.code), lr.error.position); break; }
    if (lr.read != lens[i]) { vh_violation("sequence-read-differs", "item %u at offset %zu: read=%zu in the sequence, %u alone", i, off, lr.read, lens[i]); cbor_decref(&it); break; }
    if ((i & 7) == 0 || off >> 16 != (off + lr.read) >> 16) {
      struct vh_buf dd = {0};
      walk_dump_item(it, &dd, 0);
      if (dd.n != alone[which[i]].n || memcmp(dd.p, alone[which[i]].p, dd.n)) vh_violation("sequence-item-differs", "item %u at offset %zu decoded from the sequence differs from the item decoded alone", i, off);
      vb_free(&dd);
    }
    cbor_decref(&it);
    off += lr.read;
  }
  if (i == k && off != cat.n) vh_violation("sequence-not-at-end", "splitting %u items stopped at %zu of %zu bytes", k, off, cat.n);
  free(buf);
  for (size_t pi = 0; pi < np; pi++) vb_free(&alone[pi]);
  free(lens); free(which);
  if (ta_live_count()) { vh_violation("leak", "%zu block(s) left", ta_live_count()); ta_forget_all(); }
  VH_COUNT("long_sequences", 1);
  VH_MAX("max_items_in_one_sequence", k);
  VH_MAX("max_sequence_bytes", cat.n);
  vb_free(&cat);
  vh_nontrivial(vh_hash(desc, 9));
}

/* ------------------------------------------------------------ dispatching */
static void run_input(const uint8_t* p, size_t n) {
  if (!vh_case(p, n)) return;
  if (P == 1) c01_case(p, n);
  else c0205_case(p, n);
}
static void input_cb(const uint8_t* p, size_t n, void* ud) { (void)ud; run_input(p, n); }

static void hugebuf_case(const uint8_t* x, size_t nx, size_t claimed);
static void gianterr_case(int which);
static void load_exec(const uint8_t* d, size_t n) {
  if (!strcmp(O.stage, "gianterr") && n == 2 && d[0] == 'Z') { gianterr_case(d[1]); return; }
  if (!strcmp(O.stage, "hugebuf") && n >= 9 && d[0] == 'H') { size_t c = 0; for (int i = 0; i < 8; i++) c = c << 8 | d[1 + i]; hugebuf_case(d + 9, n - 9, c); return; }
  if (P == 14 && n == 5 && d[0] == 'G') { c14_big((uint32_t)d[1] << 24 | (uint32_t)d[2] << 16 | (uint32_t)d[3] << 8 | d[4]); return; }
  if (P == 14 && n == 9 && d[0] == 'Q') { c14_long((uint32_t)d[1] << 24 | (uint32_t)d[2] << 16 | (uint32_t)d[3] << 8 | d[4], (uint32_t)d[5] << 24 | (uint32_t)d[6] << 16 | (uint32_t)d[7] << 8 | d[8]); return; }
  if (P == 14) {
    if (n >= 3 && d[0] == 0xff && d[1] == 0xff) {
      size_t k = d[2], off = 3;
      struct vh_buf* items = calloc(k ? k : 1, sizeof *items);
      for (size_t i = 0; i < k && off + 2 <= n; i++) { size_t l = (size_t)d[off] << 8 | d[off + 1]; off += 2; vb_put(&items[i], d + off, l); off += l; }
      c14_sequence(items, k);
      return;
    }
    size_t nx = n >= 2 ? ((size_t)d[0] << 8 | d[1]) : 0;
    if (nx + 2 > n) { printf("bad C14 descriptor\n"); return; }
    c14_pair(d + 2, nx, d + 2 + nx, n - 2 - nx);
    return;
  }
  if (P == 1) c01_case(d, n); else c0205_case(d, n);
}

static void setup(void) {
  P = atoi(O.prop + 1);
  if (P != 1 && P != 2 && P != 5 && P != 14) vh_die("driver load: --prop must be C01, C02, C05 or C14");
  LIM = (size_t)O.L;
  ref_selftest();
  ta_install();
  if (!ta_selftest()) vh_die("track allocator self-test failed");
  if (!strcmp(O.stage, "bigcount") || !strcmp(O.stage, "bigleaf") || !strcmp(O.stage, "lateerr")) CAP = (size_t)1 << 30; /* tables of tens of MiB are granted: "memory permitting" holds */
  ta_set_cap(CAP);
  devnull = fopen("/dev/null", "w");
  if (!devnull) vh_die("cannot open /dev/null");
  static char iobuf[1 << 16];
  setvbuf(devnull, iobuf, _IOFBF, sizeof iobuf);
}

/* ---- stage: bytes ---- */
static void stage_bytes(void) {
  size_t N = O.budget ? (size_t)O.budget : (O.thorough ? 4 : 3);
  g_stage_exhaustive = true;
  uint8_t b[8];
  if (O.shard == 0) run_input(b, 0);
  for (size_t len = 1; len <= N; len++) {
    uint64_t per = 1;
    for (size_t i = 1; i < len; i++) per *= 256;
    for (unsigned first = 0; first < 256; first++) {
      if ((int)(first % (unsigned)O.nshards) != O.shard) continue;
      b[0] = (uint8_t)first;
      for (uint64_t v = 0; v < per; v++) {
        for (size_t i = 1; i < len; i++) b[i] = (uint8_t)(v >> (8 * (len - 1 - i)));
        run_input(b, len);
      }
    }
  }
}
/* ---- stage: alpha ---- */
static void stage_alpha(void) {
  size_t N = O.budget ? (size_t)O.budget : (O.thorough ? 7 : 5);
  size_t from = O.budget2 ? (size_t)O.budget2 : 1;
  g_stage_exhaustive = false; /* overlaps with the byte sweep for short strings: hashed above g_minlen */
  uint8_t b[16];
  for (size_t len = from; len <= N; len++) {
    uint64_t total = 1;
    for (size_t i = 0; i < len; i++) total *= 16;
    for (uint64_t v = 0; v < total; v++) {
      uint64_t unit = len >= 2 ? v >> (4 * (len - 2)) : v;
      if ((int)(unit % (uint64_t)O.nshards) != O.shard) { if (len >= 2) v |= ((uint64_t)1 << (4 * (len - 2))) - 1; continue; }
      for (size_t i = 0; i < len; i++) b[i] = gen_alphabet[(v >> (4 * (len - 1 - i))) & 15];
      run_input(b, len);
    }
  }
}
/* ---- stage: ctx ---- */
static const struct { const char* pre; const char* suf; const char* name; } ctxs[] = {
    {"", "", "top"}, {"8200", "", "def-array-last"}, {"82", "00", "def-array-first"}, {"9f", "ff", "indef-array"},
    {"a1", "00", "def-map-key"}, {"a100", "", "def-map-value"}, {"bf", "00ff", "indef-map-key"}, {"bf00", "ff", "indef-map-value"},
    {"c1", "", "tag-content"}, {"5f", "ff", "in-chunked-bytes"}, {"7f", "ff", "in-chunked-text"}, {"5f4100", "ff", "in-chunked-bytes-after-chunk"},
    {"d9d9f7", "", "tag-2B"}};
static void stage_ctx(void) {
  g_stage_exhaustive = false;
  struct vh_buf in = {0};
  for (unsigned ib = 0; ib < 256; ib++) {
    if ((int)(ib % (unsigned)O.nshards) != O.shard) continue;
    unsigned mt = ib >> 5, ai = ib & 31;
    size_t argn = ai < 24 ? 0 : ai == 24 ? 1 : ai == 25 ? 2 : ai == 26 ? 4 : ai == 27 ? 8 : 0;
    uint64_t nvals = argn == 0 ? 1 : argn == 1 ? 256 : (uint64_t)gen_nboundaries + 8 + (argn >= 4 ? 3 * 8 * argn : 0);
    for (uint64_t vi = 0; vi < nvals; vi++) {
      uint64_t arg;
      if (argn == 0) arg = ai;
      else if (argn == 1) arg = vi;
      else if (vi < (uint64_t)gen_nboundaries) arg = gen_boundaries[vi];
      else if (vi < (uint64_t)gen_nboundaries + 8) arg = (0x0102030405060708ull >> (8 * (vi - (uint64_t)gen_nboundaries))) | (vi << 60);
      else { uint64_t j = vi - (uint64_t)gen_nboundaries - 8; arg = ((uint64_t)1 << (j / 3)) + (j % 3) - 1; } /* every 2^k and 2^k +- 1 */
      if (argn < 8 && argn > 0) arg &= (((uint64_t)1 << (8 * argn)) - 1);
      for (size_t cx = 0; cx < sizeof ctxs / sizeof ctxs[0]; cx++) {
        uint8_t *pre, *suf;
        size_t npre = vh_unhex(ctxs[cx].pre, &pre), nsuf = vh_unhex(ctxs[cx].suf, &suf);
        vb_reset(&in);
        vb_put(&in, pre, npre);
        vb_u8(&in, (uint8_t)ib);
        vb_be(&in, arg, (int)argn);
        /* completion */
        if ((mt == 2 || mt == 3) && ai != 31 && arg <= 300) for (uint64_t i = 0; i < arg; i++) vb_u8(&in, (uint8_t)('a' + i % 26));
        else if ((mt == 4 || mt == 5) && ai != 31 && arg <= 3) for (uint64_t i = 0; i < arg * (mt == 5 ? 2 : 1); i++) vb_u8(&in, 0x00);
        else if ((mt == 2 || mt == 3) && ai == 31) { vb_u8(&in, (uint8_t)(mt << 5 | 1)); vb_u8(&in, 'z'); vb_u8(&in, 0xff); }
        else if (mt == 4 && ai == 31) { vb_u8(&in, 0x00); vb_u8(&in, 0xff); }
        else if (mt == 5 && ai == 31) { vb_u8(&in, 0x00); vb_u8(&in, 0x01); vb_u8(&in, 0xff); }
        else if (mt == 6) vb_u8(&in, 0x00);
        vb_put(&in, suf, nsuf);
        run_input(in.p, in.n);
        size_t tmax = in.n < 40 ? in.n : 40;
        for (size_t k = 0; k < tmax; k++) run_input(in.p, k);
        if (in.n > 40) run_input(in.p, in.n - 1);
        free(pre); free(suf);
      }
    }
  }
  vb_free(&in);
}
/* ---- stage: gram ---- */
static void stage_gram(void) {
  g_stage_exhaustive = false;
  uint64_t nsys = gen_systematic_count();
  uint64_t nrand = O.budget ? O.budget : (O.thorough ? 300000 : 30000);
  struct gen_cfg cfg = {.max_nodes = 14, .max_depth = 6, .nonminimal = true, .assigned_simple_only = true};
  struct vh_buf x = {0};
  uint64_t sys_stride = O.budget2 ? O.budget2 : 1; /* lighter stages take every n-th systematic item */
  for (uint64_t u = 0; u < nsys + nrand; u++) {
    if (u < nsys && (u % sys_stride) != 0) continue;
    if ((int)((u / (u < nsys ? sys_stride : 1)) % (uint64_t)O.nshards) != O.shard) continue;
    rnode* t;
    if (u < nsys) t = gen_systematic(u);
    else {
      struct vh_rng r;
      vh_rng_seed(&r, O.seed * 0x100000001b3ull + u);
      cfg.max_nodes = 3 + (int)(u % 23);
      t = gen_tree(&r, &cfg);
    }
    if (!t) continue;
    vb_reset(&x);
    ref_encode_src(t, &x);
    size_t tree_nodes = rn_count(t);
    rn_free(t);
    vh_count_dyn(u < nsys ? "base_items.systematic" : "base_items.random", 1);
    run_input(x.p, x.n);
    uint64_t uh = (u * 0x9e3779b97f4a7c15ull) >> 40; /* decorrelated from the shard assignment */
    bool full = u < nsys ? (O.thorough || (uh % 8 == 0)) : (uh % 64 == 0);
    if (x.n <= 1200 && tree_nodes <= 150) gen_neighbours(x.p, x.n, full, input_cb, NULL);
    else if (x.n <= 40000) { /* big items: the item itself, a spread of truncations and a few corruptions (cost per case grows with the item) */
      for (int k = 1; k <= 12; k++) run_input(x.p, x.n * (size_t)k / 13);
      run_input(x.p, x.n - 1);
      struct vh_buf m = {0};
      for (int k = 0; k < 6; k++) { vb_reset(&m); vb_put(&m, x.p, x.n); m.p[(x.n * (size_t)(2 * k + 1)) / 12] ^= (uint8_t)(0x80 >> k); run_input(m.p, m.n); }
      vb_reset(&m); vb_put(&m, x.p, x.n); vb_u8(&m, 0xff); run_input(m.p, m.n);
      vb_free(&m);
    }
    /* havoc: several random edits at once (beyond the single-edit neighbourhood) */
    if (x.n >= 2 && x.n <= 2048) {
      struct vh_rng hr;
      vh_rng_seed(&hr, O.seed * 0x4a7c15 + u);
      static const uint8_t nasty[] = {0xff, 0x5f, 0x7f, 0x9f, 0xbf, 0x1c, 0xf8, 0x18, 0x19, 0x1b, 0x40, 0x60, 0x80, 0xa0, 0xc0, 0xd8, 0x9b, 0xbb, 0x5b, 0x7b, 0x00, 0xf6, 0xfb};
      int rounds = O.thorough ? 64 : 16;
      struct vh_buf m = {0};
      for (int h = 0; h < rounds; h++) {
        vb_reset(&m); vb_put(&m, x.p, x.n);
        int edits = 2 + (int)vh_below(&hr, 3);
        for (int e = 0; e < edits && m.n > 0; e++) {
          size_t at = vh_below(&hr, m.n);
          switch (vh_below(&hr, 6)) {
            case 0: m.p[at] ^= (uint8_t)(1u << vh_below(&hr, 8)); break;
            case 1: m.p[at] = nasty[vh_below(&hr, sizeof nasty)]; break;
            case 2: { vb_u8(&m, 0); memmove(m.p + at + 1, m.p + at, m.n - 1 - at); m.p[at] = nasty[vh_below(&hr, sizeof nasty)]; break; }
            case 3: { size_t len = 1 + vh_below(&hr, 4); if (at + len > m.n) len = m.n - at; memmove(m.p + at, m.p + at + len, m.n - at - len); m.n -= len; break; }
            case 4: { size_t len = 1 + vh_below(&hr, 8); if (at + len > m.n) len = m.n - at; vb_reserve(&m, len); memmove(m.p + at + len, m.p + at, m.n - at); m.n += len; break; }
            default: m.n = at + 1; break; /* cut */
          }
        }
        run_input(m.p, m.n);
        VH_COUNT("havoc_inputs", 1);
      }
      vb_free(&m);
    }
  }
  vb_free(&x);
}
/* ---- stage: deep ---- */
static void stage_deep(void) {
  g_stage_exhaustive = false;
  struct vh_buf x = {0};
  size_t depths[6];
  size_t nd = 0;
  if (LIM > 1) depths[nd++] = LIM - 1;
  depths[nd++] = LIM; depths[nd++] = LIM + 1; depths[nd++] = LIM + 2;
  depths[nd++] = 4 * LIM; if (O.thorough) depths[nd++] = 16 * LIM;
  int unit = 0;
  for (int kind = 0; kind < CH_NKINDS; kind++)
    for (int leaf = 0; leaf < 5; leaf++)
      for (size_t di = 0; di < nd; di++, unit++) {
        if (unit % O.nshards != O.shard) continue;
        size_t depth = depths[di];
        if ((leaf == 1 || leaf == 2) && depth > 0) depth -= 1; /* the chunked string is the innermost open level */
        vb_reset(&x);
        gen_chain(kind, depth, leaf, &x, NULL);
        run_input(x.p, x.n);
        /* a few truncations and corruptions around the boundary */
        size_t cuts[] = {x.n / 2, x.n - 1, LIM, LIM + 1, 2 * LIM};
        for (size_t c = 0; c < 5; c++) if (cuts[c] < x.n) run_input(x.p, cuts[c]);
        VH_COUNT("deep_inputs", 1);
      }
  vb_free(&x);
}
/* ---- stage: seq (C14) ---- */
static void stage_seq(void) {
  uint64_t nsys = gen_systematic_count();
  uint64_t nx = O.budget ? O.budget : (O.thorough ? 50000 : 5000);
  struct gen_cfg cfg = {.max_nodes = 10, .max_depth = 5, .nonminimal = true, .assigned_simple_only = true};
  /* a pool of well-formed items and of garbage suffixes */
  enum { POOL = 32 };
  struct vh_buf items[POOL], garbage[POOL];
  memset(items, 0, sizeof items); memset(garbage, 0, sizeof garbage);
  struct vh_rng r;
  vh_rng_seed(&r, O.seed ^ 0xc14);
  for (int i = 0; i < POOL; i++) {
    rnode* t = i < 16 ? gen_systematic((uint64_t)i * 97 % nsys) : gen_tree(&r, &cfg);
    ref_encode_src(t, &items[i]);
    rn_free(t);
    size_t gl = 1 + vh_below(&r, 6);
    static const uint8_t nasty[] = {0xff, 0x1c, 0x5f, 0x7f, 0x9f, 0xbf, 0xc0, 0xf8, 0x18, 0x5b, 0x9b, 0xfe};
    for (size_t k = 0; k < gl; k++) vb_u8(&garbage[i], vh_below(&r, 2) ? nasty[vh_below(&r, sizeof nasty)] : (uint8_t)vh_rand(&r));
  }
  struct vh_buf x = {0};
  for (uint64_t u = 0; u < nx; u++) {
    if ((int)(u % (uint64_t)O.nshards) != O.shard) continue;
    rnode* t;
    struct vh_rng ru;
    vh_rng_seed(&ru, O.seed * 0x9e37 + u);
    if (u < nsys && u < nx / 2) t = gen_systematic((u * 7919) % nsys);
    else { cfg.max_nodes = 2 + (int)(u % 17); t = gen_tree(&ru, &cfg); }
    vb_reset(&x);
    ref_encode_src(t, &x);
    rn_free(t);
    if (x.n > 60000) continue;
    c14_pair(x.p, x.n, NULL, 0);
    for (int b = 0; b < 256; b++) { uint8_t y = (uint8_t)b; c14_pair(x.p, x.n, &y, 1); }
    for (int i = 0; i < POOL; i++) { c14_pair(x.p, x.n, items[i].p, items[i].n); c14_pair(x.p, x.n, garbage[i].p, garbage[i].n); }
    /* x followed by each proper prefix of x (truncated second copy) */
    for (size_t k = 1; k < x.n && k < 24; k++) c14_pair(x.p, x.n, x.p, k);
  }
  /* the dictionary of well-known encodings, every entry, as x (labels and magic numbers an implementation might treat specially) */
  for (uint64_t u = nsys - gen_dict_count(); u < nsys; u++) {
    if ((int)(u % (uint64_t)O.nshards) != O.shard) continue;
    rnode* t = gen_systematic(u);
    if (!t) continue;
    vb_reset(&x);
    ref_encode_src(t, &x);
    rn_free(t);
    c14_pair(x.p, x.n, NULL, 0);
    for (int b = 0; b < 256; b++) { uint8_t y = (uint8_t)b; c14_pair(x.p, x.n, &y, 1); }
    for (int i = 0; i < POOL; i++) { c14_pair(x.p, x.n, items[i].p, items[i].n); c14_pair(x.p, x.n, garbage[i].p, garbage[i].n); }
    c14_pair(x.p, x.n, x.p, x.n);
    struct vh_buf seq[3] = {{0}, {0}, {0}};
    vb_put(&seq[0], x.p, x.n); vb_u8(&seq[1], 0x01); vb_put(&seq[2], x.p, x.n);
    c14_sequence(seq, 3);
    for (int i = 0; i < 3; i++) vb_free(&seq[i]);
    VH_COUNT("dictionary_items_as_x", 1);
  }
  /* concatenations of up to 6 items */
  uint64_t nseq = O.budget2 ? O.budget2 : (O.thorough ? 200000 : 20000);
  for (uint64_t u = 0; u < nseq; u++) {
    if ((int)(u % (uint64_t)O.nshards) != O.shard) continue;
    struct vh_rng ru;
    vh_rng_seed(&ru, O.seed * 0x5e9 + u);
    size_t k = 1 + vh_below(&ru, 6);
    struct vh_buf seq[6];
    memset(seq, 0, sizeof seq);
    for (size_t i = 0; i < k; i++) {
      rnode* t;
      if (vh_below(&ru, 3) == 0) t = gen_systematic(vh_below(&ru, nsys));
      else { cfg.max_nodes = 1 + (int)vh_below(&ru, 9); t = gen_tree(&ru, &cfg); }
      ref_encode_src(t, &seq[i]);
      rn_free(t);
      if (seq[i].n > 60000) { seq[i].n = 0; vb_u8(&seq[i], 0xf6); }
    }
    c14_sequence(seq, k);
    for (size_t i = 0; i < k; i++) vb_free(&seq[i]);
  }
  /* big x */
  { uint32_t nb = (uint32_t)gen_bigleaf_count(); for (uint32_t u = 0; u < nb; u++) if ((int)(u % (uint32_t)O.nshards) == O.shard) c14_big(u); }
  /* long sequences */
  { static const uint32_t ks[] = {300, 5000, 70000, 200000};
    for (uint32_t q = 0; q < 16; q++) if ((int)(q % (uint32_t)O.nshards) == O.shard) c14_long(q + (uint32_t)O.seed * 16, ks[q % 4]); }
  /* small exhaustive layer: every x of <= 2 bytes and every alphabet string of length 3..4,
   * followed by every single byte (x that do not decode alone are skipped by the checker) */
  if (O.shard == 0 || O.nshards > 1) {
    uint8_t b[8];
    for (unsigned v = 0; v < 65536 + 256; v++) {
      if ((int)(v % (unsigned)O.nshards) != O.shard) continue;
      size_t len = v < 256 ? 1 : 2;
      if (len == 1) b[0] = (uint8_t)v; else { b[0] = (uint8_t)((v - 256) >> 8); b[1] = (uint8_t)(v - 256); }
      /* quick pre-filter with the reference to avoid 256 pointless calls */
      struct rverdict z = ref_decode(b, len, LIM, RM_LAZY, false, NULL);
      if (z.code != RC_ACCEPT || z.read != len) continue;
      for (int y = 0; y < 256; y += (O.thorough ? 1 : 5)) { uint8_t yy = (uint8_t)y; c14_pair(b, len, &yy, 1); }
    }
    for (size_t len = 3; len <= 4; len++)
      for (uint64_t v = 0; v < ((uint64_t)1 << (4 * len)); v++) {
        if ((int)(v % (uint64_t)O.nshards) != O.shard) continue;
        for (size_t i = 0; i < len; i++) b[i] = gen_alphabet[(v >> (4 * (len - 1 - i))) & 15];
        struct rverdict z = ref_decode(b, len, LIM, RM_LAZY, false, NULL);
        if (z.code != RC_ACCEPT || z.read != len) continue;
        for (int y = 0; y < 16; y++) c14_pair(b, len, &gen_alphabet[y], 1);
      }
  }
  for (int i = 0; i < POOL; i++) { vb_free(&items[i]); vb_free(&garbage[i]); }
  vb_free(&x);
}

/* ---- stage: hugebuf — the caller's buffer itself is larger than 4 GiB (x followed by gigabytes of y) ---- */
static void hugebuf_case(const uint8_t* x, size_t nx, size_t claimed) {
  struct vh_buf d = {0};
  vb_u8(&d, 'H'); vb_be(&d, claimed, 8); vb_put(&d, x, nx);
  if (!vh_case(d.p, d.n)) { vb_free(&d); return; }
  size_t rl;
  uint8_t* reg = vh_huge_region(&rl);
  if (!reg || claimed > rl) { VH_COUNT("huge.skipped_no_address_space", 1); vb_free(&d); return; }
  uint8_t* ex = vh_exact(x, nx);
  struct cbor_load_result ra, rb;
  memset(&ra, 0, sizeof ra); memset(&rb, 0, sizeof rb);
  cbor_item_t* ia = cbor_load(ex, nx, &ra);
  free(ex);
  if (ia && ra.read == nx) {
    memcpy(reg, x, nx);
    memset(reg + nx, 0xff, 64); /* what follows x must not matter */
    /* ... nor how the buffer ends: alternately a break byte and a zero as its very last byte */
    uint8_t last_saved = reg[claimed - 1];
    bool poke_last = claimed > nx + 64 && ((claimed ^ nx) & 1);
    if (poke_last) reg[claimed - 1] = 0xff;
    cbor_item_t* ib = cbor_load(reg, claimed, &rb);
    if (poke_last) reg[claimed - 1] = last_saved;
    if (!ib) vh_violation("huge-buffer-changes-acceptance", "x decodes alone (read=%zu) but in a %zu-byte buffer cbor_load fails with %s at %zu", ra.read, claimed, code_name((int)rb.error.code), rb.error.position);
    else {
      if (rb.read != ra.read) vh_violation("huge-buffer-changes-read", "read=%zu alone, %zu in a %zu-byte buffer", ra.read, rb.read, claimed);
      struct vh_buf da = {0}, db = {0};
      walk_dump_item(ia, &da, WD_REFCOUNTS); walk_dump_item(ib, &db, WD_REFCOUNTS);
      if (da.n != db.n || memcmp(da.p, db.p, da.n)) vh_violation("huge-buffer-changes-tree", "tree decoded from a %zu-byte buffer differs", claimed);
      vb_free(&da); vb_free(&db);
      cbor_decref(&ib);
    }
    VH_COUNT("huge.buffer_cases", 1);
    vh_nontrivial(vh_hash(d.p, d.n));
  } else VH_COUNT("skipped.x-not-one-item", 1);
  if (ia) cbor_decref(&ia);
  if (ta_live_count()) { vh_violation("leak", "%zu block(s) left", ta_live_count()); ta_forget_all(); }
  vb_free(&d);
}
static void stage_hugebuf(void) {
  uint64_t nsys = gen_systematic_count();
  static const size_t sizes[] = {65537, (size_t)1 << 20, ((size_t)1 << 20) + 7, (size_t)1 << 24, ((size_t)1 << 28) + 1, ((size_t)1 << 31) - 1, (size_t)1 << 31, ((size_t)1 << 31) + 1,
                                 ((size_t)1 << 32) - 1, (size_t)1 << 32, ((size_t)1 << 32) + 1, ((size_t)1 << 32) + 2, ((size_t)1 << 32) + 5, ((size_t)1 << 32) + 9, ((size_t)3 << 31) + 3, (size_t)1 << 33, ((size_t)1 << 33) + 11};
  struct vh_buf x = {0};
  uint64_t stride = O.thorough ? 3 : 29;
  uint64_t unit = 0;
  for (uint64_t u = 0; u < nsys; u += stride) {
    if ((int)(unit++ % (uint64_t)O.nshards) != O.shard) continue;
    rnode* t = gen_systematic(u);
    if (!t) continue;
    vb_reset(&x);
    ref_encode_src(t, &x);
    rn_free(t);
    if (x.n > 2000) continue;
    for (size_t si = 0; si < sizeof sizes / sizeof sizes[0]; si++) hugebuf_case(x.p, x.n, sizes[si]);
    /* 2^32 + k for every k up to the item's length: every head of x is claimed with the low 32 bits of the remaining size running out */
    for (size_t k = 0; k <= x.n && k <= 40; k++) hugebuf_case(x.p, x.n, ((size_t)1 << 32) + k);
  }
  vb_free(&x);
}

/* ---- stage: bigcount ----
 * Declared counts between 2^16 and 2^22 with an allocator that grants the table (16..64 MiB): what follows the head —
 * nothing, a few members, a reserved byte, a stray break — decides the outcome, not the size of the count. */
static void stage_bigcount(void) {
  static const uint32_t counts[] = {65537, 1u << 20, (1u << 20) + 1, 1u << 21, (1u << 21) + 1, 3u << 20, 1u << 22};
  static const char* const ctx_open[] = {"", "9f", "c1", "a100", "bf00", "8201"};
  static const char* const tails[] = {"", "01", "0102", "01020304050607080910", "1c", "011c", "ff", "01ff", "0102ff", "01020304ff", "f8", "5f01", "7f4100", "81", "a1", "01a1", "1801", "19"};
  struct vh_buf b = {0};
  int unit = 0;
  for (size_t ci = 0; ci < sizeof counts / sizeof counts[0]; ci++)
    for (int mt = 4; mt <= 5; mt++)
      for (size_t x = 0; x < sizeof ctx_open / sizeof ctx_open[0]; x++)
        for (size_t t = 0; t < sizeof tails / sizeof tails[0]; t++, unit++) {
          if (unit % O.nshards != O.shard) continue;
          if (mt == 5 && counts[ci] > (1u << 21)) continue; /* map tables are twice as large */
          vb_reset(&b);
          for (const char* h = ctx_open[x]; *h; h += 2) { unsigned v; sscanf(h, "%2x", &v); vb_u8(&b, (uint8_t)v); }
          vb_u8(&b, (uint8_t)(mt << 5 | 26)); vb_be(&b, counts[ci], 4);
          for (const char* h = tails[t]; *h; h += 2) { unsigned v; sscanf(h, "%2x", &v); vb_u8(&b, (uint8_t)v); }
          run_input(b.p, b.n);
          VH_COUNT("bigcount.inputs", 1);
          VH_MAX("bigcount.max_declared_count", counts[ci]);
        }
  vb_free(&b);
}

/* ---- stage: gianterr — offsets beyond 2^32 inside one input ----
 * [ h'<2^32 zero bytes>', <tail> ]: the string's payload lies in the lazily mapped region (reading it costs no memory),
 * the library's copy costs 4 GiB, so the stage is skipped (and says so) below 12 GiB available. What the tail is decides
 * the outcome; every position and the bytes-read count lie beyond 2^32. Expectations are closed-form (the reference
 * decoder is not asked to copy 4 GiB). */
#include <unistd.h>
static void gianterr_case(int which) {
  uint8_t desc[2] = {'Z', (uint8_t)which};
  if (!vh_case(desc, 2)) return;
  long av = sysconf(_SC_AVPHYS_PAGES), ps = sysconf(_SC_PAGESIZE);
  if (av < 0 || ps < 0 || (unsigned long long)av * (unsigned long long)ps < (12ull << 30)) { VH_COUNT("giant.skipped_less_than_12GiB_available", 1); return; }
  size_t rl;
  uint8_t* reg = vh_huge_region(&rl);
  const size_t PAY = (size_t)1 << 32;
  if (!reg || rl < PAY + 64) { VH_COUNT("huge.skipped_no_address_space", 1); return; }
  static const struct { const char* name; uint8_t tail[3]; size_t ntail; int code; size_t pos_after_payload; size_t read_after_payload; } T[] = {
      {"followed by one more member", {0x01}, 1, CBOR_ERR_NONE, 0, 1},
      {"followed by a reserved byte", {0x1c}, 1, CBOR_ERR_MALFORMATED, 0, 0},
      {"followed by a stray break", {0xff}, 1, CBOR_ERR_SYNTAXERROR, 1, 0},
      {"followed by nothing", {0}, 0, CBOR_ERR_NOTENOUGHDATA, 0, 0},
      {"followed by a truncated two-byte head", {0x19, 0x01}, 2, CBOR_ERR_NOTENOUGHDATA, 0, 0},
  };
  if (which < 0 || which >= (int)(sizeof T / sizeof T[0])) return;
  /* layout: 82 5b 00000001 00000000 <payload> <tail> */
  size_t hdr = 10;
  memset(reg, 0, 16);
  reg[0] = 0x82; reg[1] = 0x5b; reg[5] = 0x01;
  uint8_t saved[4];
  memcpy(saved, reg + hdr + PAY, 4);
  memcpy(reg + hdr + PAY, T[which].tail, T[which].ntail);
  size_t n = hdr + PAY + T[which].ntail;
  size_t cap0 = CAP;
  ta_set_cap((size_t)5 << 30);
  ta_reset_stats();
  struct cbor_load_result r;
  memset(&r, 0xAA, sizeof r);
  cbor_item_t* it = cbor_load(reg, n, &r);
  ta_set_cap(cap0);
  size_t after = hdr + PAY;
  if (T[which].code == CBOR_ERR_NONE) {
    if (!it) vh_violation("rejected-well-formed", "[h'<2^32 bytes>', 1] (%zu bytes) failed with code %d at %zu (refused requests: %llu)", n, (int)r.error.code, r.error.position, (unsigned long long)TA.refused);
    else {
      if (r.read != after + T[which].read_after_payload) vh_violation("read-mismatch", "read=%zu but the item's encoded length is %zu", r.read, after + 1);
      if (!cbor_isa_array(it) || cbor_array_size(it) != 2 || !cbor_isa_bytestring(cbor_array_handle(it)[0]) || cbor_bytestring_length(cbor_array_handle(it)[0]) != PAY)
        vh_violation("tree-mismatch", "the tree decoded from [h'<2^32 bytes>', 1] is not a 2-array whose first member is a 2^32-byte string");
      else {
        const unsigned char* h = cbor_bytestring_handle(cbor_array_handle(it)[0]);
        if (h >= reg && h < reg + n) vh_violation("tree-refers-to-input", "the 2^32-byte string's data pointer points into the caller's input buffer (offset %zu)", (size_t)(h - reg));
        else {
          if (h[0] != 0 || h[PAY - 1] != 0 || h[PAY / 2 + 12345] != 0) vh_violation("tree-mismatch", "the 2^32-byte string's content was not copied from the input");
          /* the input may be overwritten at once */
          reg[hdr + 77] = 0x5a; reg[hdr + PAY - 1] = 0x5a;
          if (h[77] != 0 || h[PAY - 1] != 0) vh_violation("tree-refers-to-input", "overwriting the input buffer changed the decoded 2^32-byte string");
          reg[hdr + 77] = 0; reg[hdr + PAY - 1] = 0;
        }
      }
    }
  } else {
    if (it) vh_violation("accepted-ill-formed", "[h'<2^32 bytes>' %s] was accepted", T[which].name);
    else if ((int)r.error.code != T[which].code || r.error.position != after + T[which].pos_after_payload)
      vh_violation("wrong-code", "[h'<2^32 bytes>' %s]: cbor_load reported %s at %zu; the first violation is %s at %zu (refused requests: %llu)", T[which].name, code_name((int)r.error.code), r.error.position, code_name(T[which].code),
                   after + T[which].pos_after_payload, (unsigned long long)TA.refused);
  }
  if (it) cbor_decref(&it);
  memcpy(reg + hdr + PAY, saved, 4);
  memset(reg, 0, 16);
  if (ta_live_count()) { vh_violation("leak", "%zu block(s) left", ta_live_count()); ta_forget_all(); }
  VH_COUNT("giant.inputs_with_offsets_beyond_2_32", 1);
  vh_nontrivial(vh_hash(desc, 2));
}
static void stage_gianterr(void) {
  for (int w = 0; w < 5; w++) { if (w % O.nshards != O.shard) continue; if (!O.thorough && w == 4) continue; gianterr_case(w); }
}

/* ---- stage: bigleaf — the whole pipeline on single big leaves (and, for C05, on their truncations) ---- */
static void stage_bigleaf(void) {
  uint64_t nb = gen_bigleaf_count();
  struct vh_buf x = {0};
  size_t cap0 = CAP;
  CAP = (size_t)1 << 30; ta_set_cap(CAP); /* "memory permitting": the tables and payloads are granted */
  for (uint64_t u = 0; u < nb; u++) {
    if ((int)(u % (uint64_t)O.nshards) != O.shard) continue;
    rnode* t = gen_bigleaf(u);
    if (!t) continue;
    vb_reset(&x);
    ref_encode_src(t, &x);
    rn_free(t);
    if (P == 5) {
      const size_t cuts[] = {x.n - 1, x.n / 2, 3, 1};
      for (size_t c = 0; c < 4; c++) if (cuts[c] < x.n) run_input(x.p, cuts[c]);
      /* a reserved byte / a stray break right after the big item inside an array context */
      vb_u8(&x, 0x1c); run_input(x.p, x.n);
    } else run_input(x.p, x.n);
    VH_COUNT("bigleaf.items", 1);
    VH_MAX("bigleaf.max_input_bytes", x.n);
  }
  CAP = cap0; ta_set_cap(CAP);
  vb_free(&x);
}

/* ---- stage: lateerr — something that is not a chunk, opened inside a chunked string, complete, followed by a tail ----
 * The one place where C05 admits two answers (§6.1): the eager one at the offending head, the lazy one when the item
 * completes or the input ends. Which later bytes are consumed before the verdict depends on the nested item being
 * counted down correctly, so the nested item comes in every flavour and with member counts from 0 to 70 000. */
static void stage_lateerr(void) {
  static const size_t cnt[] = {0, 1, 2, 3, 23, 24, 255, 256, 1000, 4095, 4096, 4097, 5000, 8191, 8192, 8193, 10000, 16384, 16385, 32768, 65535, 65536, 65537, 70000};
  static const char* const tails[] = {"", "ff", "1c", "41004100", "4100ff", "00ff", "ffff", "6100ff", "f8", "18"};
  struct vh_buf b = {0};
  int unit = 0;
  for (int outer = 0; outer < 2; outer++)
    for (int kind = 0; kind < 7; kind++)
      for (size_t ci = 0; ci < sizeof cnt / sizeof cnt[0]; ci++)
        for (size_t t = 0; t < sizeof tails / sizeof tails[0]; t++, unit++) {
          if (unit % O.nshards != O.shard) continue;
          size_t c = cnt[ci];
          if (kind == 6 && ci > 2) continue;
          vb_reset(&b);
          vb_u8(&b, outer ? 0x7f : 0x5f);
          vb_u8(&b, outer ? 0x61 : 0x41); vb_u8(&b, 'k'); /* one proper chunk first */
          switch (kind) {
            case 0: case 2: { unsigned mt = kind == 0 ? 4 : 5; if (c < 24) vb_u8(&b, (uint8_t)(mt << 5 | c)); else if (c < 256) { vb_u8(&b, (uint8_t)(mt << 5 | 24)); vb_u8(&b, (uint8_t)c); } else if (c < 65536) { vb_u8(&b, (uint8_t)(mt << 5 | 25)); vb_be(&b, c, 2); } else { vb_u8(&b, (uint8_t)(mt << 5 | 26)); vb_be(&b, c, 4); }
                              for (size_t i = 0; i < c * (kind == 0 ? 1 : 2); i++) vb_u8(&b, (uint8_t)(i % 24)); break; }
            case 1: case 3: vb_u8(&b, kind == 1 ? 0x9f : 0xbf); for (size_t i = 0; i < c * (kind == 1 ? 1 : 2); i++) vb_u8(&b, (uint8_t)(i % 24)); vb_u8(&b, 0xff); break;
            case 4: for (size_t i = 0; i < (c > 2000 ? 2000 : c) + 1; i++) vb_u8(&b, 0xc1); vb_u8(&b, 0x00); break; /* a chain of tags around an integer */
            case 5: vb_u8(&b, outer ? 0x5f : 0x7f); for (size_t i = 0; i < c; i++) { vb_u8(&b, outer ? 0x41 : 0x61); vb_u8(&b, 'x'); } vb_u8(&b, 0xff); break; /* a chunked string of the other kind */
            default: vb_u8(&b, c == 0 ? 0x00 : c == 1 ? 0xf6 : 0xfa); if (c >= 2) vb_be(&b, 0x3fc00000u, 4); break; /* a scalar */
          }
          for (const char* h = tails[t]; *h; h += 2) { unsigned v; sscanf(h, "%2x", &v); vb_u8(&b, (uint8_t)v); }
          run_input(b.p, b.n);
          /* and cut just before the nested item completes */
          if (t == 0 && b.n > 6) run_input(b.p, b.n - 1);
          VH_COUNT("lateerr.inputs", 1);
        }
  vb_free(&b);
}

/* ---- stage: pairlen — two strings side by side, every pair of lengths ----
 * Length sweeps vary one string at a time; code that combines two strings (a key and its value on one output line, two
 * members in one scratch buffer, a chunk appended to its predecessor) depends on the SUM or on a relation of two lengths.
 * Every (a, b) in 0..72 x 0..72 for five arrangements and the four text/bytes combinations. */
static void stage_pairlen(void) {
  struct vh_buf b = {0};
  uint64_t unit = 0;
  for (int arr = 0; arr < 5; arr++)
    for (int kinds = 0; kinds < 4; kinds++)
      for (size_t la = 0; la <= 72; la++) {
        if ((int)(unit++ % (uint64_t)O.nshards) != O.shard) continue;
        for (size_t lb = 0; lb <= 72; lb++) {
          vb_reset(&b);
          unsigned ma = (kinds & 1) ? 3 : 2, mb = (kinds & 2) ? 3 : 2;
          switch (arr) {
            case 0: vb_u8(&b, 0xa1); break;                 /* {a: b} */
            case 1: vb_u8(&b, 0x82); break;                 /* [a, b] */
            case 2: vb_u8(&b, 0xbf); break;                 /* {_ a: b} */
            case 3: vb_u8(&b, 0xa2); vb_u8(&b, 0x01); break; /* {1: a, b: 2} */
            default: if (ma != mb) continue; vb_u8(&b, (uint8_t)(ma << 5 | 31)); break; /* (_ a, b) two chunks */
          }
          if (la < 24) vb_u8(&b, (uint8_t)(ma << 5 | la)); else { vb_u8(&b, (uint8_t)(ma << 5 | 24)); vb_u8(&b, (uint8_t)la); }
          for (size_t i = 0; i < la; i++) vb_u8(&b, (uint8_t)('a' + i % 26));
          if (lb < 24) vb_u8(&b, (uint8_t)(mb << 5 | lb)); else { vb_u8(&b, (uint8_t)(mb << 5 | 24)); vb_u8(&b, (uint8_t)lb); }
          for (size_t i = 0; i < lb; i++) vb_u8(&b, (uint8_t)('A' + i % 26));
          if (arr == 3) vb_u8(&b, 0x02);
          if (arr == 2 || arr == 4) vb_u8(&b, 0xff);
          run_input(b.p, b.n);
        }
      }
  vb_free(&b);
}

static void load_run(void) {
  setup();
  size_t bytesN = O.thorough ? 4 : 3;
  g_minlen = bytesN + 1;
  const char* st = O.stage;
  if (!strcmp(st, "bytes")) { g_minlen = 0; stage_bytes(); }
  else if (!strcmp(st, "alpha")) stage_alpha();
  else if (!strcmp(st, "ctx")) stage_ctx();
  else if (!strcmp(st, "gram")) stage_gram();
  else if (!strcmp(st, "deep")) stage_deep();
  else if (!strcmp(st, "seq")) stage_seq();
  else if (!strcmp(st, "hugebuf")) stage_hugebuf();
  else if (!strcmp(st, "bigcount")) stage_bigcount();
  else if (!strcmp(st, "gianterr")) stage_gianterr();
  else if (!strcmp(st, "bigleaf")) stage_bigleaf();
  else if (!strcmp(st, "lateerr")) stage_lateerr();
  else if (!strcmp(st, "pairlen")) stage_pairlen();
  else vh_die("driver load: unknown stage '%s'", st);
  if (P == 1) vh_set_rule("every enumerated/generated input is run through load, describe, size, serialize, serialize_alloc, copy, release and two streaming passes under ASan+UBSan with CBOR_ASSERT armed; non-trivial = the decoder got past the first head (an item was built, or the failure is a hard error / truncation after at least one complete head); distinct by construction in the exhaustive sweep, by 64-bit hash elsewhere (inputs short enough to be in the sweep are not counted again)");
  else if (P == 2) vh_set_rule("each input is decoded by cbor_load and by the independent RFC 8949 reference decoder; non-trivial = at least one side accepts (tree, read and ownership are then compared); distinct by construction in the exhaustive sweep, by hash elsewhere");
  else if (P == 5) vh_set_rule("each input the reference rejects is decoded twice with different sentinel fills; code and position are compared with the reference classifier's admissible set {eager, lazy}; non-trivial = non-empty rejected input; distinct by construction in the exhaustive sweep, by hash elsewhere");
  else vh_set_rule("pairs (x,y) and item sequences: x is an item that decodes alone; non-trivial = x decoded alone and x||y was compared; distinct by 64-bit hash of (x,y)");
  vh_set_exhaustive(!strcmp(st, "bytes"));
}

static void load_exec_entry(const uint8_t* d, size_t n) {
  setup();
  g_minlen = 0;
  load_exec(d, n);
}

const struct vh_driver drv_load = {"load", load_run, load_exec_entry, "cbor_load over enumerated/generated inputs (C01, C02, C05, C14)"};
