/* d_hist.c — driver "hist": API histories executed against a model.
 *   C04: shadow ownership graph (expected refcount = client refs + in-degree,
 *        death propagation) vs cbor_refcount and the allocator's free events
 *   C12: abstract list model of container contents, capacity rules, growth cost
 *   C13: the same histories under allocators that make any bypass fatal
 * A history is a byte-coded program: 4 bytes per op {opcode, p1, p2, p3}. */
#include "vh.h"
#include "cbor/internal/builder_callbacks.h"
#include "cbor/internal/stack.h"

static int P;        /* 4, 12, 13 */
static int ALLOC;    /* 0 track, 1 tagged, 2 arena */
enum { A_TRACK, A_TAGGED, A_ARENA };

#define MAXN 40
#define MAXMEM 12
#define NSLOT 4
enum { K_INT, K_BSTR, K_TSTR, K_DARR, K_IARR, K_DMAP, K_IMAP, K_TAG, K_IBS, K_ITS, K_FLOAT, K_NKINDS };
static const char* const kind_names[K_NKINDS] = {"int", "bytes", "text", "def-array", "indef-array", "def-map", "indef-map", "tag", "chunked-bytes", "chunked-text", "float"};
enum { OP_NEW = 1, OP_INCREF, OP_DECREF, OP_IDECREF, OP_PUSH, OP_SET, OP_REPLACE, OP_GET, OP_MAPADD, OP_ADDCHUNK, OP_TAGSET, OP_TAGITEM,
       OP_BUILDTAG, OP_COPY, OP_LOAD, OP_SERIALIZE, OP_MOVEPUSH, OP_DESCRIBE, OP_REHANDLE, OP_DETACH, OP_SETVALUE, OP_NOPS };
static const char* const op_names[OP_NOPS] = {"?", "new", "incref", "decref", "intermediate_decref", "push", "set", "replace", "get", "map_add", "add_chunk",
  "tag_set_item", "tag_item", "build_tag", "copy", "load", "serialize", "push(move)", "describe", "set_handle(same block)", "detach_handle", "set_value"};

struct mnode { uint8_t alive, kind, cap, nmem; int8_t mem[MAXMEM]; };
struct mstate { struct mnode n[MAXN]; int nn; int8_t slot[NSLOT]; uint8_t hold[NSLOT]; };

/* real side */
static cbor_item_t* ritem[MAXN];
static cbor_item_t* rslot[NSLOT];
static size_t last_alloc[MAXN]; /* C12: capacity must never shrink */
static FILE* devnull;

static const char* const load_inputs[] = {"8301820203f6", "bf6161c1f5ff", "5f4101420203ff", "d8184401020304", "9f7f6161ffa10102ff"};
#define NLOADS 5

/* index codes >= 200 stand for indices far beyond any real array: base[(c-200)/4] + (c-200)%4, so that the low bits
 * (and the index modulo 2^32, 2^61, ...) fall on existing members of small arrays */
static size_t huge_index(unsigned code) {
  static const size_t base[14] = {(size_t)1 << 31, (size_t)1 << 32, (size_t)1 << 33, (size_t)3 << 32, (size_t)1 << 40, (size_t)1 << 48, (size_t)1 << 61, (size_t)1 << 62, (size_t)3 << 61,
                                 (size_t)1 << 63, ((size_t)1 << 63) + ((size_t)1 << 32), (size_t)7 << 61, (size_t)0 - 4, ((size_t)1 << 16) << 16};
  unsigned k = code - 200;
  return base[(k / 4) % 14] + (k % 4);
}
static bool is_array(int k) { return k == K_DARR || k == K_IARR; }
static bool is_map(int k) { return k == K_DMAP || k == K_IMAP; }

static int m_client(const struct mstate* m, int node) {
  int c = 0;
  for (int s = 0; s < NSLOT; s++) if (m->slot[s] == node) c += m->hold[s];
  return c;
}
static int m_indeg(const struct mstate* m, int node) {
  int c = 0;
  for (int i = 0; i < m->nn; i++) if (m->n[i].alive) for (int k = 0; k < m->n[i].nmem; k++) if (m->n[i].mem[k] == node) c++;
  return c;
}
static void m_reap(struct mstate* m) {
  bool again = true;
  while (again) {
    again = false;
    for (int i = 0; i < m->nn; i++)
      if (m->n[i].alive && m_client(m, i) + m_indeg(m, i) == 0) { m->n[i].alive = 0; m->n[i].nmem = 0; again = true; }
  }
}
static bool m_reaches(const struct mstate* m, int from, int target) {
  if (from == target) return true;
  for (int k = 0; k < m->n[from].nmem; k++) if (m->n[from].mem[k] >= 0 && m_reaches(m, m->n[from].mem[k], target)) return true;
  return false;
}
static bool m_complete(const struct mstate* m, int node) {
  if (m->n[node].kind == K_TAG && m->n[node].nmem == 0) return false;
  for (int k = 0; k < m->n[node].nmem; k++) if (!m_complete(m, m->n[node].mem[k])) return false;
  return true;
}
static int m_tree_size(const struct mstate* m, int node) {
  int c = 1;
  for (int k = 0; k < m->n[node].nmem; k++) c += m_tree_size(m, m->n[node].mem[k]);
  return c;
}
static int m_newnode(struct mstate* m, int kind, int cap) {
  if (m->nn >= MAXN) return -1;
  int i = m->nn++;
  memset(&m->n[i], 0, sizeof m->n[i]);
  m->n[i].alive = 1; m->n[i].kind = (uint8_t)kind; m->n[i].cap = (uint8_t)cap;
  return i;
}
static int m_copy_tree(struct mstate* m, int src) {
  int d = m_newnode(m, m->n[src].kind, m->n[src].kind == K_DARR ? m->n[src].nmem : m->n[src].kind == K_DMAP ? m->n[src].nmem / 2 : 0);
  if (d < 0) return -1;
  for (int k = 0; k < m->n[src].nmem; k++) {
    int c = m_copy_tree(m, m->n[src].mem[k]);
    if (c < 0) return -1;
    m->n[d].mem[m->n[d].nmem++] = (int8_t)c;
  }
  return d;
}
static int m_from_ref(struct mstate* m, const rnode* r) {
  int kind;
  switch (r->kind) {
    case R_UINT: case R_NEGINT: case R_SIMPLE: kind = K_INT; break;
    case R_FLOAT: kind = K_FLOAT; break;
    case R_BYTES: kind = r->indef ? K_IBS : K_BSTR; break;
    case R_TEXT: kind = r->indef ? K_ITS : K_TSTR; break;
    case R_ARRAY: kind = r->indef ? K_IARR : K_DARR; break;
    case R_MAP: kind = r->indef ? K_IMAP : K_DMAP; break;
    default: kind = K_TAG; break;
  }
  int d = m_newnode(m, kind, kind == K_DARR ? (int)r->nkids : kind == K_DMAP ? (int)r->nkids / 2 : 0);
  if (d < 0) return -1;
  for (size_t k = 0; k < r->nkids; k++) {
    int c = m_from_ref(m, r->kids[k]);
    if (c < 0 || m->n[d].nmem >= MAXMEM) return -1;
    m->n[d].mem[m->n[d].nmem++] = (int8_t)c;
  }
  return d;
}

/* Applies `op` to the model. Returns -1 if the op is not applicable in this
 * state (precondition of the documented rules), else the expected boolean
 * result (1 success / 0 refused) of the call. */
struct op { uint8_t code, a, b, c; };
static int m_apply(struct mstate* m, struct op o, bool allow_oob) {
  int a = o.a < NSLOT ? m->slot[o.a] : -1;
  switch (o.code) {
    case OP_NEW:
      if (o.a >= NSLOT || m->slot[o.a] >= 0 || o.b >= K_NKINDS) return -1;
      { int n = m_newnode(m, o.b, (o.b == K_DARR || o.b == K_DMAP) ? o.c : 0); if (n < 0) return -1; m->slot[o.a] = (int8_t)n; m->hold[o.a] = 1; }
      return 1;
    case OP_INCREF:
      if (a < 0 || m->hold[o.a] >= 3) return -1;
      m->hold[o.a]++;
      return 1;
    case OP_DECREF: case OP_IDECREF:
      if (a < 0) return -1;
      if (--m->hold[o.a] == 0) m->slot[o.a] = -1;
      m_reap(m);
      return 1;
    case OP_PUSH: case OP_MOVEPUSH: {
      int x = o.b < NSLOT ? m->slot[o.b] : -1;
      if (a < 0 || x < 0 || !is_array(m->n[a].kind) || m_reaches(m, x, a)) return -1;
      bool room = m->n[a].kind == K_IARR || m->n[a].nmem < m->n[a].cap;
      if (m->n[a].nmem >= MAXMEM) return -1;
      if (o.code == OP_MOVEPUSH) {
        if (!room) return -1; /* move only into a call known to succeed */
        if (--m->hold[o.b] == 0) m->slot[o.b] = -1;
      }
      if (!room) return 0;
      m->n[a].mem[m->n[a].nmem++] = (int8_t)x;
      return 1;
    }
    case OP_SET: case OP_REPLACE: {
      int x = o.c < NSLOT ? m->slot[o.c] : -1;
      if (a < 0 || x < 0 || !is_array(m->n[a].kind) || m_reaches(m, x, a)) return -1;
      int i = o.b;
      if (i >= 200) return allow_oob ? 0 : -1; /* far out of range: must be refused */
      if (i > m->n[a].nmem + (allow_oob ? 2 : 0)) return -1;
      if (i < m->n[a].nmem) { m->n[a].mem[i] = (int8_t)x; m_reap(m); return 1; }
      if (o.code == OP_REPLACE) return allow_oob ? 0 : -1;
      if (i == m->n[a].nmem) {
        bool room = m->n[a].kind == K_IARR || m->n[a].nmem < m->n[a].cap;
        if (m->n[a].nmem >= MAXMEM) return -1;
        if (!room) return 0;
        m->n[a].mem[m->n[a].nmem++] = (int8_t)x;
        return 1;
      }
      return 0;
    }
    case OP_GET: {
      if (a < 0 || !is_array(m->n[a].kind) || o.c >= NSLOT || m->slot[o.c] >= 0) return -1;
      int i = o.b;
      if (i >= 200) return allow_oob ? 0 : -1;
      if (i >= m->n[a].nmem) return (allow_oob && i <= m->n[a].nmem + 2) ? 0 : -1;
      m->slot[o.c] = m->n[a].mem[i]; m->hold[o.c] = 1;
      return 1;
    }
    case OP_MAPADD: {
      int k = o.b < NSLOT ? m->slot[o.b] : -1, v = o.c < NSLOT ? m->slot[o.c] : -1;
      if (a < 0 || k < 0 || v < 0 || !is_map(m->n[a].kind) || m_reaches(m, k, a) || m_reaches(m, v, a)) return -1;
      if (m->n[a].nmem + 2 > MAXMEM) return -1;
      bool room = m->n[a].kind == K_IMAP || m->n[a].nmem / 2 < m->n[a].cap;
      if (!room) return 0;
      m->n[a].mem[m->n[a].nmem++] = (int8_t)k;
      m->n[a].mem[m->n[a].nmem++] = (int8_t)v;
      return 1;
    }
    case OP_ADDCHUNK: {
      int c = o.b < NSLOT ? m->slot[o.b] : -1;
      if (a < 0 || c < 0) return -1;
      if (!((m->n[a].kind == K_IBS && m->n[c].kind == K_BSTR) || (m->n[a].kind == K_ITS && m->n[c].kind == K_TSTR))) return -1;
      if (m->n[a].nmem >= MAXMEM) return -1;
      m->n[a].mem[m->n[a].nmem++] = (int8_t)c;
      return 1;
    }
    case OP_TAGSET: {
      int x = o.b < NSLOT ? m->slot[o.b] : -1;
      if (a < 0 || x < 0 || m->n[a].kind != K_TAG || m_reaches(m, x, a)) return -1;
      if (m->n[a].nmem == 1) {
        /* documented: the previous item's count is left unchanged, so the tag's
         * reference to it passes to the client, who needs a slot to hold it */
        if (o.c >= NSLOT || m->slot[o.c] >= 0) return -1;
        m->slot[o.c] = m->n[a].mem[0]; m->hold[o.c] = 1;
      }
      m->n[a].mem[0] = (int8_t)x; m->n[a].nmem = 1;
      return 1;
    }
    case OP_TAGITEM:
      if (a < 0 || m->n[a].kind != K_TAG || m->n[a].nmem != 1 || o.b >= NSLOT || m->slot[o.b] >= 0) return -1;
      m->slot[o.b] = m->n[a].mem[0]; m->hold[o.b] = 1;
      return 1;
    case OP_BUILDTAG: {
      if (a < 0 || o.b >= NSLOT || m->slot[o.b] >= 0) return -1;
      int t = m_newnode(m, K_TAG, 0);
      if (t < 0) return -1;
      m->n[t].mem[0] = (int8_t)a; m->n[t].nmem = 1;
      m->slot[o.b] = (int8_t)t; m->hold[o.b] = 1;
      return 1;
    }
    case OP_COPY: {
      if (a < 0 || o.b >= NSLOT || m->slot[o.b] >= 0 || !m_complete(m, a) || m->nn + m_tree_size(m, a) > MAXN) return -1;
      int c = m_copy_tree(m, a);
      if (c < 0) return -1;
      m->slot[o.b] = (int8_t)c; m->hold[o.b] = 1;
      return 1;
    }
    case OP_LOAD: {
      if (o.a >= NSLOT || m->slot[o.a] >= 0 || o.b >= NLOADS || m->nn + 8 > MAXN) return -1;
      uint8_t* in; size_t n = vh_unhex(load_inputs[o.b], &in);
      struct rverdict v = ref_decode(in, n, (size_t)O.L, RM_LAZY, true, NULL);
      free(in);
      if (v.code == RC_MEMERROR) return 0; /* nests deeper than this library's configured limit: documented refusal */
      if (v.code != RC_ACCEPT) vh_die("hist: built-in load input %d is not well-formed", o.b);
      int r = m_from_ref(m, v.tree);
      rn_free(v.tree);
      if (r < 0) return -1;
      m->slot[o.a] = (int8_t)r; m->hold[o.a] = 1;
      return 1;
    }
    case OP_SERIALIZE: case OP_DESCRIBE:
      if (a < 0 || !m_complete(m, a)) return -1;
      return 1;
    case OP_SETVALUE: /* a value setter (set_uint*, mark_*, set_bool, set_ctrl, set_float*) on a scalar, however many references it has: item graph unchanged */
      if (a < 0 || (m->n[a].kind != K_INT && m->n[a].kind != K_FLOAT)) return -1;
      return 1;
    case OP_DETACH: /* the client takes the string's block back (set_handle(NULL, 0)) and releases it itself: item graph unchanged */
    case OP_REHANDLE: /* re-attach the block the string already owns (in-place edit / truncation): ownership unchanged */
      if (a < 0 || (m->n[a].kind != K_BSTR && m->n[a].kind != K_TSTR)) return -1;
      return 1;
  }
  return -1;
}

/* ------------------------------------------------------------ real side */
#define LIB(expr) (vh_in_lib = 1, (expr))
#define LIBEND() (vh_in_lib = 0)
static void* freed[256];
static int nfreed;
static void free_hook(void* p, size_t size) { (void)size; if (nfreed < 256) freed[nfreed++] = p; }

static uint64_t g_new_strings, g_hist_salt, g_new_scalars, g_setvalue_calls, g_setvalue_shared;
static cbor_item_t* r_new(int kind, int cap) {
  cbor_item_t* it = NULL;
  vh_in_lib = 1;
  switch (kind) {
    /* "int" stands for any scalar that is not a float: integers of both signs and every width, booleans, other simple values */
    case K_INT: switch ((g_new_scalars++ + g_hist_salt) % 7) {
        case 1: it = cbor_build_bool(true); break;
        case 2: it = cbor_build_negint16(300); break;
        case 3: it = cbor_new_undef(); break;
        case 4: it = cbor_build_uint64(1ull << 40); break;
        case 5: it = cbor_new_null(); break;
        default: it = cbor_build_uint8(7);
      } break;
    case K_FLOAT: it = cbor_build_float4(1.5f); break;
    /* one string in four is created without ever being given a buffer: a valid empty string (handle NULL, length 0) */
    case K_BSTR: it = ((g_new_strings++ + g_hist_salt) & 3) == 3 ? cbor_new_definite_bytestring() : cbor_build_bytestring((const unsigned char*)"abcdefgh", 8); break;
    case K_TSTR: it = ((g_new_strings++ + g_hist_salt) & 3) == 3 ? cbor_new_definite_string() : cbor_build_string("stuvwxyz"); break;
    case K_DARR: it = cbor_new_definite_array((size_t)cap); break;
    case K_IARR: it = cbor_new_indefinite_array(); break;
    case K_DMAP: it = cbor_new_definite_map((size_t)cap); break;
    case K_IMAP: it = cbor_new_indefinite_map(); break;
    case K_TAG: it = cbor_new_tag(42); break;
    case K_IBS: it = cbor_new_indefinite_bytestring(); break;
    case K_ITS: it = cbor_new_indefinite_string(); break;
  }
  vh_in_lib = 0;
  return it;
}
/* bind model nodes of a fresh tree (copy / load) to the real items, walking both */
static bool bind_tree(const struct mstate* m, int node, cbor_item_t* it) {
  if (!it) return false;
  ritem[node] = it;
  const struct mnode* n = &m->n[node];
  switch (n->kind) {
    case K_DARR: case K_IARR:
      if (!cbor_isa_array(it) || cbor_array_size(it) != n->nmem) return false;
      for (int k = 0; k < n->nmem; k++) if (!bind_tree(m, n->mem[k], cbor_array_handle(it)[k])) return false;
      return true;
    case K_DMAP: case K_IMAP:
      if (!cbor_isa_map(it) || cbor_map_size(it) * 2 != n->nmem) return false;
      for (int k = 0; k < n->nmem; k += 2) if (!bind_tree(m, n->mem[k], cbor_map_handle(it)[k / 2].key) || !bind_tree(m, n->mem[k + 1], cbor_map_handle(it)[k / 2].value)) return false;
      return true;
    case K_IBS:
      if (!cbor_isa_bytestring(it) || !cbor_bytestring_is_indefinite(it) || cbor_bytestring_chunk_count(it) != n->nmem) return false;
      for (int k = 0; k < n->nmem; k++) if (!bind_tree(m, n->mem[k], cbor_bytestring_chunks_handle(it)[k])) return false;
      return true;
    case K_ITS:
      if (!cbor_isa_string(it) || !cbor_string_is_indefinite(it) || cbor_string_chunk_count(it) != n->nmem) return false;
      for (int k = 0; k < n->nmem; k++) if (!bind_tree(m, n->mem[k], cbor_string_chunks_handle(it)[k])) return false;
      return true;
    case K_TAG:
      if (!cbor_isa_tag(it)) return false;
      if (n->nmem) return bind_tree(m, n->mem[0], it->metadata.tag_metadata.tagged_item);
      return true;
    default: return true;
  }
}

/* "Lending": the documented cbor_move idiom hands an argument to the call with the client's reference already given
 * up (its count may be 0 during the call); whatever the call answers, the client re-acquires it with cbor_incref
 * afterwards, which is legal because either the container now keeps the item alive or the refused call left it exactly
 * as it was. The net effect equals the plain call, so the model is unchanged; what differs is the count the library
 * sees, in particular 0 on a refusal path. */
static uint64_t g_detaches, g_late_attaches;
static bool g_lend;
static uint64_t g_lent_calls, g_lent_refused;
#define LEND(x) do { if (g_lend) cbor_move(x); } while (0)
#define UNLEND(x, res_) do { if (g_lend) { cbor_incref(x); g_lent_calls++; if (!(res_)) g_lent_refused++; } } while (0)

/* Executes op on the library, given the model states before (pre) and after (post).
 * Returns the observed boolean result (or -2 on a structural surprise). */
static int r_apply(const struct mstate* pre, const struct mstate* post, struct op o, int expect) {
  int a = o.a < NSLOT ? pre->slot[o.a] : -1;
  int res = 1;
  switch (o.code) {
    case OP_NEW: {
      cbor_item_t* it = r_new(o.b, o.c);
      if (!it) return 0;
      ritem[post->slot[o.a]] = it; rslot[o.a] = it;
      return 1;
    }
    case OP_INCREF: LIB(cbor_incref(rslot[o.a])); LIBEND(); return 1;
    case OP_DECREF: {
      cbor_item_t* p = rslot[o.a];
      bool dies = !post->n[a].alive;
      LIB(cbor_decref(&p)); LIBEND();
      if (dies != (p == NULL)) vh_violation("decref-pointer-contract", "cbor_decref %s the caller's pointer although the item %s", p ? "kept" : "cleared", dies ? "was released" : "is still referenced");
      if (post->slot[o.a] < 0) rslot[o.a] = NULL;
      return 1;
    }
    case OP_IDECREF:
      LIB(cbor_intermediate_decref(rslot[o.a])); LIBEND();
      if (post->slot[o.a] < 0) rslot[o.a] = NULL;
      return 1;
    case OP_PUSH: LEND(rslot[o.b]); res = LIB(cbor_array_push(rslot[o.a], rslot[o.b])); LIBEND(); UNLEND(rslot[o.b], res); return res;
    case OP_MOVEPUSH:
      res = LIB(cbor_array_push(rslot[o.a], cbor_move(rslot[o.b]))); LIBEND();
      if (post->slot[o.b] < 0) rslot[o.b] = NULL;
      return res;
    case OP_SET: case OP_REPLACE: {
      /* also when the call displaces the lent item itself, or a container that holds it: the callee takes its own
       * reference to the new value, so the hand-over is rule-following however the old member relates to it */
      LEND(rslot[o.c]);
      res = o.code == OP_SET ? LIB(cbor_array_set(rslot[o.a], o.b >= 200 ? huge_index(o.b) : o.b, rslot[o.c])) : LIB(cbor_array_replace(rslot[o.a], o.b >= 200 ? huge_index(o.b) : o.b, rslot[o.c]));
      LIBEND(); UNLEND(rslot[o.c], res);
      return res;
    }
    case OP_GET: {
      cbor_item_t* g = LIB(cbor_array_get(rslot[o.a], o.b >= 200 ? huge_index(o.b) : o.b)); LIBEND();
      if (expect == 0 && g != NULL) { cbor_item_t* tmp = g; (void)tmp; } /* reported below as result-differs-from-model */
      if (expect == 1) {
        if (g != ritem[post->slot[o.c]]) { vh_violation("get-wrong-item", "cbor_array_get(index %d) returned %p, the model's member is %p", o.b, (void*)g, (void*)ritem[post->slot[o.c]]); return -2; }
        rslot[o.c] = g;
        return 1;
      }
      return g == NULL ? 0 : 1;
    }
    case OP_MAPADD:
      LEND(rslot[o.b]); if (rslot[o.c] != rslot[o.b]) LEND(rslot[o.c]);
      res = LIB(cbor_map_add(rslot[o.a], (struct cbor_pair){.key = rslot[o.b], .value = rslot[o.c]})); LIBEND();
      UNLEND(rslot[o.b], res); if (rslot[o.c] != rslot[o.b]) UNLEND(rslot[o.c], res);
      return res;
    case OP_ADDCHUNK:
      LEND(rslot[o.b]);
      res = pre->n[a].kind == K_IBS ? LIB(cbor_bytestring_add_chunk(rslot[o.a], rslot[o.b])) : LIB(cbor_string_add_chunk(rslot[o.a], rslot[o.b]));
      LIBEND();
      UNLEND(rslot[o.b], res);
      return res;
    case OP_TAGSET:
      if (pre->n[a].nmem == 1) rslot[o.c] = ritem[pre->n[a].mem[0]];
      LIB(cbor_tag_set_item(rslot[o.a], rslot[o.b])); LIBEND();
      return 1;
    case OP_TAGITEM: {
      cbor_item_t* g = LIB(cbor_tag_item(rslot[o.a])); LIBEND();
      if (g != ritem[post->slot[o.b]]) { vh_violation("tag-item-wrong", "cbor_tag_item returned %p, the model's content is %p", (void*)g, (void*)ritem[post->slot[o.b]]); return -2; }
      rslot[o.b] = g;
      return 1;
    }
    case OP_BUILDTAG: {
      cbor_item_t* t = LIB(cbor_build_tag(99, rslot[o.a])); LIBEND();
      if (!t) return 0;
      ritem[post->slot[o.b]] = t; rslot[o.b] = t;
      return 1;
    }
    case OP_COPY: {
      cbor_item_t* c = LIB(cbor_copy(rslot[o.a])); LIBEND();
      if (!c) return 0;
      rslot[o.b] = c;
      if (!bind_tree(post, post->slot[o.b], c)) { vh_violation("copy-shape", "the copy does not have the shape of its source"); return -2; }
      return 1;
    }
    case OP_LOAD: {
      uint8_t* in; size_t n = vh_unhex(load_inputs[o.b], &in);
      uint8_t* ex = vh_exact(in, n);
      struct cbor_load_result r;
      cbor_item_t* it = LIB(cbor_load(ex, n, &r)); LIBEND();
      free(in); free(ex);
      if (!it) return 0;
      rslot[o.a] = it;
      if (!bind_tree(post, post->slot[o.a], it)) { vh_violation("load-shape", "the decoded tree does not have the expected shape"); return -2; }
      return 1;
    }
    case OP_SERIALIZE: {
      size_t sz = LIB(cbor_serialized_size(rslot[o.a])); LIBEND();
      uint8_t* out = malloc(sz ? sz : 1);
      size_t w = LIB(cbor_serialize(rslot[o.a], out, sz)); LIBEND();
      free(out);
      unsigned char* ab = NULL; size_t abn = 0;
      size_t w2 = LIB(cbor_serialize_alloc(rslot[o.a], &ab, &abn)); LIBEND();
      if (ab) { LIB(_cbor_free(ab)); LIBEND(); }
      /* a complete tree (no tag waiting for its content) that has a size serializes into exactly that many bytes */
      if (sz && m_complete(pre, a) && (w != sz || w2 != sz))
        vh_violation("serialize-disagrees-with-size", "cbor_serialized_size says %zu but cbor_serialize into a buffer of that size returned %zu and cbor_serialize_alloc %zu (tree %s)", sz, w, w2, kind_names[pre->n[a].kind]);
      /* every smaller buffer is refused and nothing is written beyond it (trees edited after they were assembled included) */
      if (sz && sz <= 160 && m_complete(pre, a)) {
        uint8_t* big = malloc(sz + 64);
        for (size_t nn = 0; nn < sz; nn++) {
          memset(big, 0x5e, sz + 64);
          size_t r = LIB(cbor_serialize(rslot[o.a], big, nn)); LIBEND();
          if (r != 0) { vh_violation("wrong-return", "tree of serialized size %zu, buffer of %zu bytes: cbor_serialize returned %zu", sz, nn, r); break; }
          bool clean = true;
          for (size_t q = nn; q < sz + 64; q++) if (big[q] != 0x5e) { clean = false; break; }
          if (!clean) { vh_violation("write-beyond-buffer", "tree of serialized size %zu (%s): cbor_serialize with buffer_size=%zu wrote beyond the buffer", sz, kind_names[pre->n[a].kind], nn); break; }
        }
        free(big);
      }
      return 1;
    }
    case OP_DESCRIBE:
      /* --wrap only redirects references made from the linked objects (harness + libcbor), never libc's own internal
       * allocations for stdio, so cbor_describe can run inside the bypass detector like everything else */
      LIB(cbor_describe(rslot[o.a], devnull)); LIBEND();
      return 1;
    case OP_SETVALUE: {
      cbor_item_t* it = rslot[o.a];
      g_setvalue_calls++;
      if (cbor_refcount(it) > 1) g_setvalue_shared++;
      vh_in_lib = 1;
      if (cbor_is_int(it)) {
        if (o.b & 1) { if (cbor_isa_uint(it)) cbor_mark_negint(it); else cbor_mark_uint(it); }
        else switch (cbor_int_get_width(it)) {
          case CBOR_INT_8: cbor_set_uint8(it, (uint8_t)(cbor_get_uint8(it) + 1 + o.b)); break;
          case CBOR_INT_16: cbor_set_uint16(it, (uint16_t)(cbor_get_uint16(it) * 3 + o.b)); break;
          case CBOR_INT_32: cbor_set_uint32(it, cbor_get_uint32(it) ^ 0x10001u); break;
          default: cbor_set_uint64(it, cbor_get_uint64(it) + 0x100000001ull);
        }
      } else if (cbor_isa_float_ctrl(it)) {
        if (cbor_float_ctrl_is_ctrl(it)) { if (cbor_is_bool(it)) cbor_set_bool(it, (o.b & 2) ? !cbor_get_bool(it) : cbor_get_bool(it)); else cbor_set_ctrl(it, cbor_ctrl_value(it) == 22 ? 23 : 22); } /* null <-> undefined: values the decoder yields, so encodings stay loadable */
        else switch (cbor_float_get_width(it)) {
          case CBOR_FLOAT_16: cbor_set_float2(it, 0.5f * (float)(1 + o.b)); break;
          case CBOR_FLOAT_32: cbor_set_float4(it, -cbor_float_get_float4(it) + (float)o.b); break;
          default: cbor_set_float8(it, -cbor_float_get_float8(it) * 3.0); break;
        }
      }
      vh_in_lib = 0;
      return 1;
    }
    case OP_DETACH: {
      /* set_handle does not release the block an item already owns; handing it NULL leaves the old block with the client,
       * who releases it through the installed allocator — the item must forget it */
      cbor_item_t* it = rslot[o.a];
      unsigned char* h = cbor_isa_bytestring(it) ? cbor_bytestring_handle(it) : cbor_string_handle(it);
      if (cbor_isa_bytestring(it)) { LIB(cbor_bytestring_set_handle(it, NULL, 0)); LIBEND(); } else { LIB(cbor_string_set_handle(it, NULL, 0)); LIBEND(); }
      if (h) _cbor_free(h);
      if ((cbor_isa_bytestring(it) ? cbor_bytestring_handle(it) : cbor_string_handle(it)) != NULL || (cbor_isa_bytestring(it) ? cbor_bytestring_length(it) : cbor_string_length(it)) != 0)
        vh_violation("detached-string-keeps-its-block", "after set_handle(NULL, 0) the string still reports a data pointer or a non-zero length");
      g_detaches++;
      return 1;
    }
    case OP_REHANDLE: {
      cbor_item_t* it = rslot[o.a];
      /* a string that was created (and perhaps already attached to a container or a chunked string) without a buffer
       * gets its buffer now: structure first, contents later */
      if ((cbor_isa_bytestring(it) ? cbor_bytestring_handle(it) : cbor_string_handle(it)) == NULL) {
        size_t nl = 3 + (o.b & 7) * 5;
        unsigned char* blk = _cbor_malloc(nl);
        if (blk) {
          for (size_t q = 0; q < nl; q++) blk[q] = (unsigned char)('k' + q % 7);
          if (cbor_isa_bytestring(it)) { LIB(cbor_bytestring_set_handle(it, blk, nl)); LIBEND(); } else { LIB(cbor_string_set_handle(it, blk, nl)); LIBEND(); }
          g_late_attaches++;
        }
        return 1;
      }
      if (cbor_isa_bytestring(it)) {
        size_t len = cbor_bytestring_length(it);
        unsigned char* h = cbor_bytestring_handle(it);
        if (h && len) h[0] ^= 0x01;
        LIB(cbor_bytestring_set_handle(it, h, (o.b & 3) == 1 && len ? len - 1 : (o.b & 3) == 2 ? len / 2 : (o.b & 3) == 3 ? 0 : len)); LIBEND();
      } else {
        size_t len = cbor_string_length(it);
        unsigned char* h = cbor_string_handle(it);
        if (h && len) h[0] = (unsigned char)('a' + (o.b % 26));
        LIB(cbor_string_set_handle(it, h, (o.b & 3) == 1 && len ? len - 1 : (o.b & 3) == 2 ? len / 2 : (o.b & 3) == 3 ? 0 : len)); LIBEND();
      }
      return 1;
    }
  }
  return -2;
}

static void render_history(const struct op* ops, int n, struct vh_buf* out) {
  for (int i = 0; i < n; i++) {
    struct op o = ops[i];
    if (i) vb_printf(out, "; ");
    if (o.code & 0x80) vb_printf(out, "[allocator refuses everything] ");
    if (o.code & 0x40) vb_printf(out, "[arguments passed through cbor_move, re-acquired with cbor_incref after the call] ");
    o.code &= 0x3f;
    switch (o.code) {
      case OP_NEW: vb_printf(out, "s%d=new(%s%s%.0d)", o.a, kind_names[o.b < K_NKINDS ? o.b : 0], (o.b == K_DARR || o.b == K_DMAP) ? " cap " : "", (o.b == K_DARR || o.b == K_DMAP) ? o.c : 0); if ((o.b == K_DARR || o.b == K_DMAP) && o.c == 0) vb_printf(out, "0"); break;
      case OP_INCREF: case OP_DECREF: case OP_IDECREF: case OP_SERIALIZE: case OP_DESCRIBE: case OP_REHANDLE: case OP_DETACH: case OP_SETVALUE: vb_printf(out, "%s(s%d)", op_names[o.code], o.a); break;
      case OP_PUSH: case OP_MOVEPUSH: case OP_ADDCHUNK: vb_printf(out, "%s(s%d, s%d)", op_names[o.code], o.a, o.b); break;
      case OP_SET: case OP_REPLACE: if (o.b >= 200) vb_printf(out, "%s(s%d, %zu, s%d)", op_names[o.code], o.a, huge_index(o.b), o.c); else vb_printf(out, "%s(s%d, %d, s%d)", op_names[o.code], o.a, o.b, o.c); break;
      case OP_GET: if (o.b >= 200) vb_printf(out, "s%d=get(s%d, %zu)", o.c, o.a, huge_index(o.b)); else vb_printf(out, "s%d=get(s%d, %d)", o.c, o.a, o.b); break;
      case OP_MAPADD: vb_printf(out, "map_add(s%d, s%d:s%d)", o.a, o.b, o.c); break;
      case OP_TAGSET: vb_printf(out, "tag_set_item(s%d, s%d)[old->s%d]", o.a, o.b, o.c); break;
      case OP_TAGITEM: vb_printf(out, "s%d=tag_item(s%d)", o.b, o.a); break;
      case OP_BUILDTAG: vb_printf(out, "s%d=build_tag(s%d)", o.b, o.a); break;
      case OP_COPY: vb_printf(out, "s%d=copy(s%d)", o.b, o.a); break;
      case OP_LOAD: vb_printf(out, "s%d=load(%s)", o.a, load_inputs[o.b < NLOADS ? o.b : 0]); break;
      default: vb_printf(out, "op%d", o.code);
    }
  }
  vb_u8(out, 0); out->n--;
}

static uint64_t n_refused(void) { return ALLOC == A_TRACK ? TA.refused : ALLOC == A_TAGGED ? TG_refused : AR_refused; }
static void refuse_all(bool on) {
  if (ALLOC == A_TRACK) ta_fail_from(on ? (int64_t)TA.requests : -1);
  else if (ALLOC == A_TAGGED) TG_refuse_all = on;
  else AR_refuse_all = on;
}
static size_t live_blocks(void) { return ALLOC == A_TRACK ? ta_live_count() : ALLOC == A_TAGGED ? (size_t)TG_live : (size_t)AR_live; }

/* C12: observable contents of every live container vs the model's lists */
static void check_contents(const struct mstate* m, const struct op* ops, int upto) {
  (void)ops; (void)upto;
  for (int i = 0; i < m->nn; i++) {
    if (!m->n[i].alive) continue;
    const struct mnode* n = &m->n[i];
    cbor_item_t* it = ritem[i];
    switch (n->kind) {
      case K_DARR: case K_IARR: {
        size_t sz = cbor_array_size(it), al = cbor_array_allocated(it);
        if (sz != n->nmem) { vh_violation("size-differs-from-model", "array holds %zu items, the list model %d", sz, n->nmem); break; }
        if (sz && !cbor_array_handle(it)) { vh_violation("contents-differ-from-model", "array reports %zu items but its storage pointer is NULL (contents lost)", sz); break; }
        if (sz > al) vh_violation("size-exceeds-capacity", "array size %zu > allocated %zu", sz, al);
        if (ALLOC == A_TRACK && al && cbor_array_handle(it) && ta_block_size(cbor_array_handle(it)) != (size_t)-1 && ta_block_size(cbor_array_handle(it)) < al * sizeof(cbor_item_t*))
          vh_violation("capacity-exceeds-block", "array reports capacity %zu but its table block holds only %zu bytes", al, ta_block_size(cbor_array_handle(it)));
        if (n->kind == K_DARR && al != n->cap) vh_violation("definite-capacity-changed", "definite array preallocated for %d reports allocated=%zu", n->cap, al);
        if (cbor_array_is_definite(it) != (n->kind == K_DARR)) vh_violation("flavour-changed", "array flavour changed");
        if (al < last_alloc[i]) vh_violation("capacity-shrank", "array capacity went from %zu to %zu", last_alloc[i], al);
        last_alloc[i] = al;
        for (size_t k = 0; k < sz; k++) if (cbor_array_handle(it)[k] != ritem[n->mem[k]]) { vh_violation("contents-differ-from-model", "array slot %zu holds %p, the model's member is %p", k, (void*)cbor_array_handle(it)[k], (void*)ritem[n->mem[k]]); break; }
        break;
      }
      case K_DMAP: case K_IMAP: {
        size_t sz = cbor_map_size(it), al = cbor_map_allocated(it);
        if (sz * 2 != n->nmem) { vh_violation("size-differs-from-model", "map holds %zu pairs, the list model %d", sz, n->nmem / 2); break; }
        if (sz && !cbor_map_handle(it)) { vh_violation("contents-differ-from-model", "map reports %zu pairs but its storage pointer is NULL (contents lost)", sz); break; }
        if (sz > al) vh_violation("size-exceeds-capacity", "map size %zu > allocated %zu", sz, al);
        if (ALLOC == A_TRACK && al && cbor_map_handle(it) && ta_block_size(cbor_map_handle(it)) != (size_t)-1 && ta_block_size(cbor_map_handle(it)) < al * sizeof(struct cbor_pair))
          vh_violation("capacity-exceeds-block", "map reports capacity %zu but its table block holds only %zu bytes", al, ta_block_size(cbor_map_handle(it)));
        if (n->kind == K_DMAP && al != n->cap) vh_violation("definite-capacity-changed", "definite map preallocated for %d reports allocated=%zu", n->cap, al);
        if (al < last_alloc[i]) vh_violation("capacity-shrank", "map capacity went from %zu to %zu", last_alloc[i], al);
        last_alloc[i] = al;
        for (size_t k = 0; k < sz; k++)
          if (cbor_map_handle(it)[k].key != ritem[n->mem[2 * k]] || cbor_map_handle(it)[k].value != ritem[n->mem[2 * k + 1]]) { vh_violation("contents-differ-from-model", "map pair %zu differs from the model", k); break; }
        break;
      }
      case K_IBS: case K_ITS: {
        size_t cnt = n->kind == K_IBS ? cbor_bytestring_chunk_count(it) : cbor_string_chunk_count(it);
        cbor_item_t** h = n->kind == K_IBS ? cbor_bytestring_chunks_handle(it) : cbor_string_chunks_handle(it);
        size_t capn = ((struct cbor_indefinite_string_data*)it->data)->chunk_capacity;
        if (cnt != n->nmem) { vh_violation("size-differs-from-model", "chunked string holds %zu chunks, the list model %d", cnt, n->nmem); break; }
        if (cnt && !h) { vh_violation("contents-differ-from-model", "chunked string reports %zu chunks but its chunk table pointer is NULL (contents lost)", cnt); break; }
        if (cnt > capn) vh_violation("size-exceeds-capacity", "chunk count %zu > chunk capacity %zu", cnt, capn);
        if (capn < last_alloc[i]) vh_violation("capacity-shrank", "chunk capacity went from %zu to %zu", last_alloc[i], capn);
        last_alloc[i] = capn;
        for (size_t k = 0; k < cnt; k++) if (h[k] != ritem[n->mem[k]]) { vh_violation("contents-differ-from-model", "chunk %zu differs from the model", k); break; }
        break;
      }
      case K_TAG:
        if ((n->nmem ? ritem[n->mem[0]] : NULL) != it->metadata.tag_metadata.tagged_item) vh_violation("contents-differ-from-model", "tag content differs from the model");
        break;
      default: break;
    }
  }
}

static uint64_t g_shared_steps, g_free_steps, g_ops_executed, g_op_hist[OP_NOPS], g_refused_ops, g_refusals_hit;

/* Runs one history. Returns the number of ops that were applicable and executed. */
static bool g_switch_allocators;
static uint64_t g_allocator_switches;
static int run_history(const struct op* ops, int nops, bool allow_oob) {
  /* "installed with cbor_set_allocs before any item exists": between two histories no item exists, so a client may
   * install a different triple; the library must use the triple installed last, for every request and release */
  if (g_switch_allocators) {
    /* arena, then the eight tagged triples in Gray-code order (consecutive ones differ in exactly one function: only the
     * malloc, only the realloc, only the free), then arena again */
    static const unsigned gray[8] = {0, 1, 3, 2, 6, 7, 5, 4};
    uint64_t k = g_allocator_switches++ % 9;
    if (k == 0) { ALLOC = A_ARENA; ar_install(); if (AR_live == 0) ar_reset(); }
    else { ALLOC = A_TAGGED; tg_install_variant(gray[k - 1]); }
  }
  struct mstate m;
  memset(&m, 0, sizeof m);
  memset(m.slot, -1, sizeof m.slot);
  memset(ritem, 0, sizeof ritem);
  memset(rslot, 0, sizeof rslot);
  memset(last_alloc, 0, sizeof last_alloc);
  g_new_strings = 0;
  g_hist_salt = (uint64_t)nops; /* which of a history's strings is the handle-less one varies with its length */
  size_t live0 = live_blocks();
  int executed = 0;
  struct op done[64];
  for (int i = 0; i <= nops; i++) {
    bool final_phase = i == nops;
    /* after the program: the client drops every reference it still holds */
    for (int guard = 0; guard < (final_phase ? 64 : 1); guard++) {
      struct op o;
      if (final_phase) {
        int s;
        for (s = 0; s < NSLOT; s++) if (m.slot[s] >= 0) break;
        if (s == NSLOT) break;
        o = (struct op){OP_DECREF, (uint8_t)s, 0, 0};
      } else o = ops[i];
      bool refuse = (o.code & 0x80) != 0;
      struct op shown = o;
      g_lend = (o.code & 0x40) != 0;
      o.code &= 0x3f;
      struct mstate pre = m;
      int expect = m_apply(&m, o, allow_oob);
      if (expect < 0) { m = pre; if (final_phase) vh_die("hist: final drop not applicable"); goto next_op; }
      nfreed = 0;
      uint64_t refused0 = n_refused();
      if (refuse) refuse_all(true);
      int got = r_apply(&pre, &m, o, expect);
      if (refuse) {
        refuse_all(false);
        if (n_refused() > refused0) { /* the call needed memory and was refused: documented failure, nothing may change */
          expect = 0;
          m = pre;
          g_refusals_hit++;
        }
      }
      o = shown;
      if (executed < 64) done[executed] = o;
      executed++;
      g_ops_executed++;
      g_op_hist[o.code & 0x3f]++;
      if (expect == 0) g_refused_ops++;
      if (got == -2) return executed;
      if (got != expect) {
        struct vh_buf h = {0};
        render_history(done, executed < 64 ? executed : 64, &h);
        vh_violation("result-differs-from-model", "%s returned %s, the model of the documented behaviour says %s; history: %s", op_names[o.code & 0x3f], got ? "success/item" : "failure/NULL", expect ? "success" : "refusal", (char*)h.p);
        vb_free(&h);
        return executed;
      }
      /* reference counts */
      bool shared = false;
      for (int k = 0; k < m.nn; k++) {
        if (!m.n[k].alive) continue;
        int want = m_client(&m, k) + m_indeg(&m, k);
        if (want >= 2) shared = true;
        size_t have = cbor_refcount(ritem[k]);
        if (P != 13 && have != (size_t)want) {
          struct vh_buf h = {0};
          render_history(done, executed < 64 ? executed : 64, &h);
          vh_violation("refcount-differs-from-rules", "after step %d (%s) node %d (%s) has reference count %zu; the ownership rules say %d (%d held by the client, %d by containers); history: %s",
                       executed, op_names[o.code & 0x3f], k, kind_names[m.n[k].kind], have, want, m_client(&m, k), m_indeg(&m, k), (char*)h.p);
          vb_free(&h);
          return executed;
        }
      }
      if (shared) g_shared_steps++;
      /* lifetimes: what the allocator saw released in this step vs what the rules say dies */
      if (ALLOC == A_TRACK) {
        for (int k = 0; k < pre.nn; k++) {
          if (!pre.n[k].alive) continue;
          bool was_freed = false;
          for (int f = 0; f < nfreed; f++) if (freed[f] == (void*)ritem[k]) was_freed = true;
          bool dies = !m.n[k].alive;
          if (was_freed && !dies) {
            struct vh_buf h = {0};
            render_history(done, executed < 64 ? executed : 64, &h);
            vh_violation("released-while-referenced", "step %d (%s) released node %d (%s) although %d reference(s) to it remain; history: %s", executed, op_names[o.code & 0x3f], k, kind_names[pre.n[k].kind], m_client(&m, k) + m_indeg(&m, k), (char*)h.p);
            vb_free(&h);
            return executed;
          }
          if (dies && !was_freed) {
            struct vh_buf h = {0};
            render_history(done, executed < 64 ? executed : 64, &h);
            vh_violation("not-released-with-last-reference", "step %d (%s) dropped the last reference to node %d (%s) but its block was not released; history: %s", executed, op_names[o.code & 0x3f], k, kind_names[pre.n[k].kind], (char*)h.p);
            vb_free(&h);
            return executed;
          }
        }
        if (nfreed) g_free_steps++;
      }
      if (P == 12) {
        uint64_t v0 = vh_violation_count();
        check_contents(&m, done, executed);
        if (vh_violation_count() != v0) { /* the structure is not what the model says: stop using it */
          if (ALLOC == A_TRACK) ta_forget_all(); else if (ALLOC == A_TAGGED) TG_live = 0; else ar_reset();
          return executed;
        }
      }
      if (!final_phase) break;
    }
  next_op:;
  }
  size_t live1 = live_blocks();
  if (live1 != live0) {
    struct vh_buf h = {0};
    render_history(done, executed < 64 ? executed : 64, &h);
    vh_violation("leak", "%zu block(s) remain allocated after the client dropped all references; history: %s%s%s", live1 - live0, (char*)h.p, ALLOC == A_TRACK ? "; events: " : "", ALLOC == A_TRACK ? ta_ring_dump() : "");
    vb_free(&h);
    if (ALLOC == A_TRACK) ta_forget_all();
    else if (ALLOC == A_TAGGED) TG_live = 0;
    else ar_reset();
  }
  if (ALLOC == A_ARENA) ar_reset();
  return executed;
}

static void history_case(const struct op* ops, int nops, bool allow_oob) {
  uint8_t desc[4 * 64 + 1];
  if (nops > 64) nops = 64;
  desc[0] = allow_oob ? 1 : 0;
  for (int i = 0; i < nops; i++) { desc[1 + 4 * i] = ops[i].code; desc[2 + 4 * i] = ops[i].a; desc[3 + 4 * i] = ops[i].b; desc[4 + 4 * i] = ops[i].c; }
  if (!vh_case(desc, 1 + 4 * (size_t)nops)) return;
  if (vh_sampling()) { struct vh_buf h = {0}; render_history(ops, nops, &h); vh_sample_text("%s", (char*)h.p); vb_free(&h); }
  int ex = run_history(ops, nops, allow_oob);
  VH_MAX("max_history_length", ex);
  if (ex >= 2) vh_nontrivial(vh_hash(desc, 1 + 4 * (size_t)nops));
}

/* ------------------------------------------------------- exhaustive DFS */
static const uint8_t dfs_kinds[] = {K_INT, K_BSTR, K_DARR, K_IARR, K_IMAP, K_TAG, K_IBS};
static int g_dfs_slots;
static uint64_t g_dfs_unit, g_dfs_histories;

static int gen_ops(const struct mstate* m, struct op* out, int maxout, int nslots) {
  int n = 0;
#define ADD(c_, a_, b_, cc_) do { if (n < maxout) out[n++] = (struct op){(uint8_t)(c_), (uint8_t)(a_), (uint8_t)(b_), (uint8_t)(cc_)}; } while (0)
  int lowest_empty = -1;
  for (int s = 0; s < nslots; s++) if (m->slot[s] < 0) { lowest_empty = s; break; }
  if (lowest_empty >= 0) {
    for (size_t k = 0; k < sizeof dfs_kinds; k++) ADD(OP_NEW, lowest_empty, dfs_kinds[k], dfs_kinds[k] == K_DARR ? 1 : 0);
    ADD(OP_LOAD, lowest_empty, 0, 0);
  }
  for (int s = 0; s < nslots; s++) {
    if (m->slot[s] < 0) continue;
    int node = m->slot[s];
    int kind = m->n[node].kind;
    ADD(OP_INCREF, s, 0, 0);
    ADD(OP_DECREF, s, 0, 0);
    if (m->hold[s] > 1 || m_indeg(m, node) > 0) ADD(OP_IDECREF, s, 0, 0);
    ADD(OP_SERIALIZE, s, 0, 0);
    if (kind == K_BSTR || kind == K_TSTR) { ADD(OP_REHANDLE, s, 1, 0); ADD(OP_REHANDLE, s, 3, 0); ADD(OP_DETACH, s, 0, 0); }
    if ((kind == K_INT || kind == K_FLOAT) && (m->hold[s] > 1 || m_indeg(m, node) > 0)) ADD(OP_SETVALUE, s, 2, 0); /* a value setter on a scalar someone else refers to as well */
    if (lowest_empty >= 0) { ADD(OP_COPY, s, lowest_empty, 0); ADD(OP_BUILDTAG, s, lowest_empty, 0); }
    for (int x = 0; x < nslots; x++) {
      if (m->slot[x] < 0) continue;
      if (is_array(kind)) {
        ADD(OP_PUSH, s, x, 0);
        ADD(OP_MOVEPUSH, s, x, 0);
        for (int i = 0; i <= m->n[node].nmem; i++) { ADD(OP_SET, s, i, x); if (i < m->n[node].nmem) ADD(OP_REPLACE, s, i, x); }
      }
      if (is_map(kind)) for (int y = 0; y < nslots; y++) if (m->slot[y] >= 0) ADD(OP_MAPADD, s, x, y);
      if (kind == K_IBS || kind == K_ITS) ADD(OP_ADDCHUNK, s, x, 0);
      if (kind == K_TAG) ADD(OP_TAGSET, s, x, lowest_empty >= 0 ? lowest_empty : 0);
    }
    if (is_array(kind) && lowest_empty >= 0) for (int i = 0; i < m->n[node].nmem; i++) ADD(OP_GET, s, i, lowest_empty);
    if (kind == K_TAG && lowest_empty >= 0) ADD(OP_TAGITEM, s, lowest_empty, 0);
  }
  return n;
#undef ADD
}

static void dfs(struct mstate* m, struct op* prefix, int depth, int maxdepth) {
  struct op cand[400];
  int nc = gen_ops(m, cand, 400, g_dfs_slots);
  for (int c = 0; c < nc; c++) {
    struct mstate next = *m;
    if (m_apply(&next, cand[c], false) < 0) continue;
    prefix[depth] = cand[c];
    if (depth == 1) { /* shard on the first two ops */
      if ((int)(g_dfs_unit++ % (uint64_t)O.nshards) != O.shard) continue;
    }
    if (depth >= 1 || maxdepth == 1) { history_case(prefix, depth + 1, false); g_dfs_histories++; }
    else if (O.shard == 0) { history_case(prefix, depth + 1, false); g_dfs_histories++; }
    if (depth + 1 < maxdepth) dfs(&next, prefix, depth + 1, maxdepth);
  }
}

/* ---------------------------------------------------------- random histories */
static void random_history(uint64_t u, int maxlen, bool allow_oob) {
  struct vh_rng r;
  vh_rng_seed(&r, O.seed * 0x4157 + u);
  struct op ops[64];
  struct mstate m;
  memset(&m, 0, sizeof m);
  memset(m.slot, -1, sizeof m.slot);
  int len = 4 + (int)vh_below(&r, (uint64_t)maxlen - 3), n = 0;
  static const uint8_t kinds[] = {K_INT, K_INT, K_BSTR, K_TSTR, K_DARR, K_IARR, K_IARR, K_DMAP, K_IMAP, K_TAG, K_IBS, K_ITS, K_FLOAT};
  for (int tries = 0; n < len && tries < len * 30; tries++) {
    struct op o = {0, 0, 0, 0};
    int pick = (int)vh_below(&r, 100);
    o.a = (uint8_t)vh_below(&r, NSLOT); o.b = (uint8_t)vh_below(&r, NSLOT); o.c = (uint8_t)vh_below(&r, NSLOT);
    if (pick < 18) { o.code = OP_NEW; o.b = kinds[vh_below(&r, sizeof kinds)]; o.c = (uint8_t)vh_below(&r, 4); }
    else if (pick < 34) o.code = vh_below(&r, 2) ? OP_PUSH : OP_MOVEPUSH; /* biased towards sharing one child among several containers */
    else if (pick < 42) { o.code = OP_SET; o.b = (uint8_t)vh_below(&r, 5); if (allow_oob && vh_below(&r, 6) == 0) o.b = (uint8_t)(200 + vh_below(&r, 56)); }
    else if (pick < 48) { o.code = OP_REPLACE; o.b = (uint8_t)vh_below(&r, 4); if (allow_oob && vh_below(&r, 6) == 0) o.b = (uint8_t)(200 + vh_below(&r, 56)); }
    else if (pick < 54) { o.code = OP_GET; o.b = (uint8_t)vh_below(&r, 4); if (allow_oob && vh_below(&r, 6) == 0) o.b = (uint8_t)(200 + vh_below(&r, 56)); }
    else if (pick < 62) o.code = OP_MAPADD;
    else if (pick < 67) o.code = OP_ADDCHUNK;
    else if (pick < 72) o.code = OP_TAGSET;
    else if (pick < 75) o.code = OP_TAGITEM;
    else if (pick < 78) o.code = OP_BUILDTAG;
    else if (pick < 82) o.code = OP_COPY;
    else if (pick < 84) { o.code = OP_LOAD; o.b = (uint8_t)vh_below(&r, NLOADS); }
    else if (pick < 87) o.code = OP_SERIALIZE;
    else if (pick < 88) { int w = (int)vh_below(&r, 4); o.code = w == 0 ? OP_DESCRIBE : w == 1 ? OP_DETACH : OP_REHANDLE; o.b = (uint8_t)vh_below(&r, 8); }
    else if (pick < 90) o.code = OP_INCREF;
    else if (pick < 92) { o.code = OP_SETVALUE; o.b = (uint8_t)vh_below(&r, 8); }
    else if (pick < 98) o.code = OP_DECREF;
    else o.code = OP_IDECREF;
    struct mstate next = m;
    if (m_apply(&next, o, allow_oob) < 0) continue;
    /* one op in seven that can allocate runs with an allocator that refuses everything: either it
     * needed no memory (model as usual) or it must fail and leave everything as it was. The model
     * is advanced optimistically here; run_history rolls it back when the refusal fires, so later
     * ops of the program may become inapplicable and are skipped. */
    if (vh_below(&r, 7) == 0 && (o.code == OP_NEW || o.code == OP_PUSH || o.code == OP_SET || o.code == OP_MAPADD || o.code == OP_ADDCHUNK || o.code == OP_COPY || o.code == OP_LOAD || o.code == OP_BUILDTAG)) {
      bool grows = false;
      int a = o.a < NSLOT ? m.slot[o.a] : -1;
      if (o.code == OP_PUSH || o.code == OP_SET || o.code == OP_MAPADD || o.code == OP_ADDCHUNK) {
        /* the model does not know capacities of indefinite containers: assume the refusal fires iff the member count is 0 or a power of two (geometric growth) */
        int cnt = a >= 0 ? (is_map(m.n[a].kind) ? m.n[a].nmem / 2 : m.n[a].nmem) : 0;
        grows = a >= 0 && (m.n[a].kind == K_IARR || m.n[a].kind == K_IMAP || m.n[a].kind == K_IBS || m.n[a].kind == K_ITS) && (cnt & (cnt - 1)) == 0 && !(o.code == OP_SET && o.b < m.n[a].nmem);
      } else grows = true;
      o.code |= 0x80;
      if (!grows) m = next; /* expected to proceed without allocating */
    } else m = next;
    { int base = o.code & 0x3f; if ((base == OP_PUSH || base == OP_SET || base == OP_REPLACE || base == OP_MAPADD || base == OP_ADDCHUNK) && vh_below(&r, 3) == 0) o.code |= 0x40; }
    ops[n++] = o;
  }
  history_case(ops, n, allow_oob);
}

/* ------------------------------------------------------------ C12 stages */
/* exhaustive sequences over {push x, set i x, replace i x, get i} on one container */
static void c12_dfs(struct mstate* m, struct op* prefix, int base, int depth, int maxlen, int kind) {
  struct op alpha[96];
  int na = 0;
  int sz = m->n[m->slot[0]].nmem;
  if (is_array(kind)) {
    for (int x = 1; x <= 2; x++) alpha[na++] = (struct op){OP_PUSH, 0, (uint8_t)x, 0};
    for (int i = 0; i <= sz + 2 && i < MAXMEM; i++) {
      for (int x = 1; x <= 2; x++) { alpha[na++] = (struct op){OP_SET, 0, (uint8_t)i, (uint8_t)x}; alpha[na++] = (struct op){OP_REPLACE, 0, (uint8_t)i, (uint8_t)x}; }
      alpha[na++] = (struct op){OP_GET, 0, (uint8_t)i, 3};
    }
    alpha[na++] = (struct op){OP_DECREF, 3, 0, 0}; /* give back what get handed out */
  } else if (is_map(kind)) {
    for (int x = 1; x <= 2; x++) for (int y = 1; y <= 2; y++) alpha[na++] = (struct op){OP_MAPADD, 0, (uint8_t)x, (uint8_t)y};
  } else {
    for (int x = 1; x <= 2; x++) alpha[na++] = (struct op){OP_ADDCHUNK, 0, (uint8_t)x, 0};
    /* a chunk edited and truncated in place while it sits in the chunked string, then the whole serialized */
    alpha[na++] = (struct op){OP_REHANDLE, 1, 2, 0};
    alpha[na++] = (struct op){OP_REHANDLE, 2, 3, 0};
    alpha[na++] = (struct op){OP_DETACH, 1, 0, 0};
    alpha[na++] = (struct op){OP_SERIALIZE, 0, 0, 0};
  }
  /* refused variants of the inserting ops (the allocator refuses everything during the call) */
  { int na0 = na; for (int c = 0; c < na0 && na < 96; c++) if (alpha[c].code == OP_PUSH || alpha[c].code == OP_MAPADD || alpha[c].code == OP_ADDCHUNK) { alpha[na] = alpha[c]; alpha[na].code |= 0x80; na++; } }
  /* ... and the same with the argument lent through cbor_move (count 0 inside the call), refused and not */
  { int na0 = na; for (int c = 0; c < na0 && na < 96; c++) if (alpha[c].b == 1 && alpha[c].c == ((alpha[c].code & 0x3f) == OP_MAPADD ? 2 : 0) && ((alpha[c].code & 0x3f) == OP_PUSH || (alpha[c].code & 0x3f) == OP_MAPADD || (alpha[c].code & 0x3f) == OP_ADDCHUNK)) { alpha[na] = alpha[c]; alpha[na].code |= 0x40; na++; } }
  for (int c = 0; c < na; c++) {
    struct mstate next = *m;
    struct op plain = alpha[c];
    plain.code &= 0x3f;
    if (m_apply(&next, plain, true) < 0) continue;
    if (alpha[c].code & 0x80) {
      /* the continuation after a refused insert is explored from the unchanged state when the container had to grow */
      int cnt = is_map(kind) ? sz / 2 : sz;
      bool indef = kind == K_IARR || kind == K_IMAP || kind == K_IBS || kind == K_ITS;
      if (indef && (cnt & (cnt - 1)) == 0) next = *m;
    }
    prefix[base + depth] = alpha[c];
    if (depth == 1 || maxlen == 1) { if ((int)(g_dfs_unit++ % (uint64_t)O.nshards) != O.shard) continue; }
    if (depth >= 1 || maxlen == 1 || O.shard == 0) { history_case(prefix, base + depth + 1, true); g_dfs_histories++; }
    if (depth + 1 < maxlen) c12_dfs(&next, prefix, base, depth + 1, maxlen, kind);
  }
}
static void c12_seq(int kind, int cap, int maxlen) {
  struct op prefix[24];
  int base = 0;
  prefix[base++] = (struct op){OP_NEW, 0, (uint8_t)kind, (uint8_t)cap};
  prefix[base++] = (struct op){OP_NEW, 1, (uint8_t)((kind == K_IBS) ? K_BSTR : (kind == K_ITS) ? K_TSTR : K_INT), 0};
  prefix[base++] = (struct op){OP_NEW, 2, (uint8_t)((kind == K_IBS) ? K_BSTR : (kind == K_ITS) ? K_TSTR : K_FLOAT), 0};
  struct mstate m;
  memset(&m, 0, sizeof m);
  memset(m.slot, -1, sizeof m.slot);
  for (int i = 0; i < base; i++) if (m_apply(&m, prefix[i], true) < 0) vh_die("c12_seq: prefix not applicable");
  c12_dfs(&m, prefix, base, 0, maxlen, kind);
}

/* the real size of the container's table block, as the allocator recorded it */
static size_t real_capacity(int kind, cbor_item_t* c) {
  const void* tab = kind == K_IARR ? (const void*)cbor_array_handle(c) : kind == K_IMAP ? (const void*)cbor_map_handle(c) : (const void*)((struct cbor_indefinite_string_data*)c->data)->chunks;
  if (!tab || ALLOC != A_TRACK) return (size_t)-1;
  size_t b = ta_block_size(tab);
  return b == (size_t)-1 ? b : b / (kind == K_IMAP ? sizeof(struct cbor_pair) : sizeof(cbor_item_t*));
}
/* `via`: 0 = a fresh container; 3 = a fresh indefinite array filled through cbor_array_set at index == size; 1 = the container is first filled with n0 members, copied with cbor_copy, and the COPY is
 * extended; 2 = likewise but serialized and loaded back, and the LOADED tree is extended (a table sized by someone else) */
static void c12_growth_via(int kind, size_t n, int via, size_t n0);
static void c12_growth(int kind, size_t n) { c12_growth_via(kind, n, 0, 0); }
static void c12_growth_via(int kind, size_t n, int via, size_t n0) {
  uint8_t desc[20] = {'G', (uint8_t)kind};
  for (int i = 0; i < 8; i++) desc[2 + i] = (uint8_t)(n >> (56 - 8 * i));
  desc[10] = (uint8_t)via;
  for (int i = 0; i < 8; i++) desc[11 + i] = (uint8_t)(n0 >> (56 - 8 * i));
  if (!vh_case(desc, via ? 19 : 10)) return;
  cbor_item_t* c = r_new(kind, 0);
  cbor_item_t* x = r_new(kind == K_IBS ? K_BSTR : kind == K_ITS ? K_TSTR : K_INT, 0);
  size_t base_rc = 0;
  if (via == 1 || via == 2) {
    for (size_t i = 0; i < n0; i++) {
      bool ok = kind == K_IARR ? cbor_array_push(c, x) : kind == K_IMAP ? cbor_map_add(c, (struct cbor_pair){.key = x, .value = x}) : kind == K_IBS ? cbor_bytestring_add_chunk(c, x) : cbor_string_add_chunk(c, x);
      if (!ok) vh_die("c12_growth_via: prefill failed");
    }
    cbor_item_t* d = NULL;
    if (via == 1) d = cbor_copy(c);
    else {
      unsigned char* buf = NULL; size_t bl = 0;
      if (cbor_serialize_alloc(c, &buf, &bl)) { struct cbor_load_result lr; d = cbor_load(buf, bl, &lr); _cbor_free(buf); }
    }
    if (!d) vh_die("c12_growth_via: copy/load of the prefilled container failed");
    cbor_decref(&c);
    c = d;
    base_rc = 1; /* x is no longer referenced by the container: the copy has its own members */
    size_t sz0 = kind == K_IARR ? cbor_array_size(c) : kind == K_IMAP ? cbor_map_size(c) : kind == K_IBS ? cbor_bytestring_chunk_count(c) : cbor_string_chunk_count(c);
    if (sz0 != n0) vh_violation("size-differs-from-model", "the %s of a %s with %zu members reports size %zu", via == 1 ? "copy" : "reloaded encoding", kind_names[kind], n0, sz0);
  }
  ta_reset_stats();
  size_t prev_cap = 0, done = 0;
  if (via == 1 || via == 2) { prev_cap = kind == K_IARR ? cbor_array_allocated(c) : kind == K_IMAP ? cbor_map_allocated(c) : ((struct cbor_indefinite_string_data*)c->data)->chunk_capacity;
             size_t rc0 = real_capacity(kind, c);
             if (rc0 != (size_t)-1 && prev_cap > rc0) vh_violation("capacity-exceeds-block", "the %s of a %s with %zu members reports capacity %zu but its table block holds only %zu entries", via == 1 ? "copy" : "reloaded encoding", kind_names[kind], n0, prev_cap, rc0); }
  for (size_t i = 0; i < n; i++, done++) {
    bool ok;
    size_t capn, sz;
    if (kind == K_IARR) { ok = via == 3 ? cbor_array_set(c, cbor_array_size(c), x) : cbor_array_push(c, x); capn = cbor_array_allocated(c); sz = cbor_array_size(c); }
    else if (kind == K_IMAP) { ok = cbor_map_add(c, (struct cbor_pair){.key = x, .value = x}); capn = cbor_map_allocated(c); sz = cbor_map_size(c); }
    else { ok = kind == K_IBS ? cbor_bytestring_add_chunk(c, x) : cbor_string_add_chunk(c, x); capn = ((struct cbor_indefinite_string_data*)c->data)->chunk_capacity; sz = kind == K_IBS ? cbor_bytestring_chunk_count(c) : cbor_string_chunk_count(c); }
    if (!ok) { vh_violation("indefinite-container-refused", "insertion %zu into an indefinite %s was refused although no allocation was refused", i, kind_names[kind]); break; }
    if (sz != n0 + i + 1) { vh_violation("size-differs-from-model", "after %zu insertions the %s reports size %zu", n0 + i + 1, kind_names[kind], sz); break; }
    if (sz > capn) { vh_violation("size-exceeds-capacity", "size %zu > capacity %zu", sz, capn); break; }
    if (capn != prev_cap || i < 3) { size_t rcap = real_capacity(kind, c); if (rcap != (size_t)-1 && capn > rcap) { vh_violation("capacity-exceeds-block", "after %zu insertions the %s reports capacity %zu but its table block holds only %zu entries", n0 + i + 1, kind_names[kind], capn, rcap); break; } }
    if (capn < prev_cap) { vh_violation("capacity-shrank", "capacity went from %zu to %zu", prev_cap, capn); break; }
    /* geometric = every growth step multiplies the capacity by a factor bounded away from 1, whatever the size reached
     * (the configured factor is 2; anything from 1.25 up is accepted); an additive step has a factor that tends to 1 */
    if (capn != prev_cap && prev_cap >= 4 && capn - prev_cap < prev_cap / 4) {
      vh_violation("growth-not-geometric", "insertion %zu into an indefinite %s grew the capacity from %zu to %zu, a factor below 1.25: the step no longer scales with the size", i + 1, kind_names[kind], prev_cap, capn);
      done++;
      break;
    }
    if (capn != prev_cap) VH_MAX("max_capacity_step_observed", capn);
    prev_cap = capn;
  }
  /* logarithmic number of reallocations */
  double lg = 0; for (size_t t = n + n0; t > 1; t >>= 1) lg += 1;
  uint64_t bound = (uint64_t)(2 * lg + 4);
  if (TA.reallocs > bound) vh_violation("growth-not-geometric", "%zu insertions into an indefinite %s cost %llu reallocations (bound 2*log2(n)+4 = %llu)", n, kind_names[kind], (unsigned long long)TA.reallocs, (unsigned long long)bound);
  size_t want_rc = 1 + (kind == K_IMAP ? 2 * done : done);
  (void)base_rc;
  if (done == n && cbor_refcount(x) != want_rc) vh_violation("refcount-differs-from-rules", "member inserted %zu times has refcount %zu (expected %zu)", n, cbor_refcount(x), want_rc);
  VH_MAX("max_growth_insertions", n);
  VH_MAX("max_reallocs_in_growth_run", TA.reallocs);
  cbor_decref(&c);
  cbor_decref(&x);
  if (ta_live_count()) { vh_violation("leak", "%zu block(s) left after a growth run", ta_live_count()); ta_forget_all(); }
  vh_nontrivial(vh_hash(desc, 10));
}

/* --------------------------------------------------- C13: corpus replays */
static uint64_t g_no_alloc_calls;
static uint64_t n_allocs(void) { return ALLOC == A_TAGGED ? TG_allocs : ALLOC == A_ARENA ? AR_allocs : TA.requests; }
static uint64_t n_frees(void) { return ALLOC == A_TAGGED ? TG_frees : ALLOC == A_ARENA ? AR_frees : TA.frees; }
static void c13_corpus_case(const uint8_t* in, size_t n) {
  struct vh_buf d = {0};
  vb_u8(&d, 'I'); vb_put(&d, in, n);
  if (!vh_case(d.p, d.n)) { vb_free(&d); return; }
  size_t live0 = live_blocks();
  uint8_t* ex = vh_exact(in, n);
  struct cbor_load_result r;
  uint64_t a0 = n_allocs(), f0 = n_frees();
  /* clause: the streaming decoder requests no memory */
  int ctx; rec_expected_ctx = &ctx; rec_reset();
  LIB(cbor_stream_decode(ex, n, &rec_table, &ctx)); LIBEND();
  uint64_t a1 = n_allocs(), f1 = n_frees();
  if (a1 != a0 || f1 != f0) vh_violation("stream-decode-allocates", "cbor_stream_decode made %llu allocator requests", (unsigned long long)(a1 - a0));
  g_no_alloc_calls++;
  cbor_item_t* it = LIB(cbor_load(ex, n, &r)); LIBEND();
  free(ex);
  if (it) {
    a0 = n_allocs(); f0 = n_frees();
    size_t sz = LIB(cbor_serialized_size(it)); LIBEND();
    uint8_t* out = malloc(sz ? sz : 1);
    LIB(cbor_serialize(it, out, sz)); LIBEND();
    a1 = n_allocs(); f1 = n_frees();
    if (a1 != a0 || f1 != f0) vh_violation("serialize-allocates", "size computation / fixed-buffer serialization made %llu allocator requests and %llu releases", (unsigned long long)(a1 - a0), (unsigned long long)(f1 - f0));
    g_no_alloc_calls += 2;
    free(out);
    unsigned char* ab = NULL; size_t abn = 0;
    LIB(cbor_serialize_alloc(it, &ab, &abn)); LIBEND();
    if (ab) { LIB(_cbor_free(ab)); LIBEND(); }
    ab = NULL;
    LIB(cbor_serialize_alloc(it, &ab, NULL)); LIBEND();
    if (ab) { LIB(_cbor_free(ab)); LIBEND(); }
    cbor_item_t* cp = LIB(cbor_copy(it)); LIBEND();
    LIB(cbor_describe(it, devnull)); LIBEND();
    if (cp) { LIB(cbor_decref(&cp)); LIBEND(); }
    LIB(cbor_decref(&it)); LIBEND();
    VH_COUNT("corpus.trees", 1);
  } else VH_COUNT("corpus.rejected", 1);
  if (live_blocks() != live0) {
    vh_violation("leak", "%zu block(s) of the configured allocator remain after load/ops/release", live_blocks() - live0);
    if (ALLOC == A_TAGGED) TG_live = live0; else if (ALLOC == A_ARENA) ar_reset(); else ta_forget_all();
  }
  if (ALLOC == A_ARENA && AR_live == 0) ar_reset();
  vh_nontrivial(vh_hash(d.p, d.n));
  vb_free(&d);
}
static void c13_cb(const uint8_t* p, size_t n, void* ud) { (void)ud; c13_corpus_case(p, n); }

/* ------------------------------------------------------------------ entry */
static void setup(void) {
  P = atoi(O.prop + 1);
  if (P != 4 && P != 12 && P != 13) vh_die("driver hist: --prop must be C04, C12 or C13");
  ref_selftest();
  ALLOC = A_TRACK;
  if (P == 13) {
    if (strstr(O.stage, "tagged")) ALLOC = A_TAGGED;
    else if (strstr(O.stage, "bump")) { ALLOC = A_ARENA; AR_bump_mode = true; }
    else if (strstr(O.stage, "arena")) ALLOC = A_ARENA;
    else if (strstr(O.stage, "count")) ALLOC = A_TRACK;
    else vh_die("driver hist: C13 stage must name tagged, arena or count");
  }
  if (ALLOC == A_TRACK) { ta_install(); if (!ta_selftest()) vh_die("track allocator self-test failed"); ta_set_free_hook(free_hook); if (P == 13) ta_set_cap((size_t)1 << 20); if (P == 13 && strstr(O.stage, "zeronull")) ta_set_zero_null(true); }
  else if (ALLOC == A_TAGGED) tg_install();
  else { ar_install(); ar_reset(); }
  g_switch_allocators = P == 13 && strstr(O.stage, "switch") != NULL;
  devnull = fopen("/dev/null", "w");
  static char iobuf[1 << 16];
  setvbuf(devnull, iobuf, _IOFBF, sizeof iobuf);
}

#ifdef VH_WRAP
void* __real_malloc(size_t);
void* __real_calloc(size_t, size_t);
void* __real_realloc(void*, size_t);
void __real_free(void*);
static void bypass(const char* what) {
  if (ALLOC != A_ARENA) return; /* the tagged and tracking allocators are themselves backed by the C library */
  VH_bypass_calls++;
  int save = vh_in_lib;
  vh_in_lib = 0;
  vh_violation("libc-allocator-bypass", "libcbor called the C library's %s directly while an arena allocator without libc backing was configured", what);
  vh_in_lib = save;
}
void* __wrap_malloc(size_t n) { if (vh_in_lib) bypass("malloc"); return __real_malloc(n); }
void* __wrap_calloc(size_t a, size_t b) { if (vh_in_lib) bypass("calloc"); return __real_calloc(a, b); }
void* __wrap_realloc(void* p, size_t n) { if (vh_in_lib) bypass("realloc"); return __real_realloc(p, n); }
void __wrap_free(void* p) { if (vh_in_lib && p) bypass("free"); __real_free(p); }
/* the rest of the C library's allocating family */
void* __real_reallocarray(void*, size_t, size_t);
int __real_posix_memalign(void**, size_t, size_t);
void* __real_aligned_alloc(size_t, size_t);
void* __real_memalign(size_t, size_t);
void* __real_valloc(size_t);
char* __real_strdup(const char*);
char* __real_strndup(const char*, size_t);
void* __wrap_reallocarray(void* p, size_t a, size_t b) { if (vh_in_lib) bypass("reallocarray"); return __real_reallocarray(p, a, b); }
int __wrap_posix_memalign(void** r, size_t a, size_t n) { if (vh_in_lib) bypass("posix_memalign"); return __real_posix_memalign(r, a, n); }
void* __wrap_aligned_alloc(size_t a, size_t n) { if (vh_in_lib) bypass("aligned_alloc"); return __real_aligned_alloc(a, n); }
void* __wrap_memalign(size_t a, size_t n) { if (vh_in_lib) bypass("memalign"); return __real_memalign(a, n); }
void* __wrap_valloc(size_t n) { if (vh_in_lib) bypass("valloc"); return __real_valloc(n); }
char* __wrap_strdup(const char* z) { if (vh_in_lib) bypass("strdup"); return __real_strdup(z); }
char* __wrap_strndup(const char* z, size_t n) { if (vh_in_lib) bypass("strndup"); return __real_strndup(z, n); }
#endif

static void hist_run(void) {
  setup();
  const char* st = O.stage;
  if (P == 4 || (P == 13 && strstr(st, "hist"))) {
    if (P == 4 && !strcmp(st, "dfs")) {
      int maxlen = O.budget ? (int)O.budget : (O.thorough ? 5 : 4);
      g_dfs_slots = O.budget2 ? (int)O.budget2 : (O.thorough ? 4 : 3);
      struct mstate m;
      memset(&m, 0, sizeof m);
      memset(m.slot, -1, sizeof m.slot);
      struct op prefix[16];
      dfs(&m, prefix, 0, maxlen);
      vh_count_dyn("dfs.histories", g_dfs_histories);
      vh_note("dfs", "every precondition-respecting history of length <= %d over %d slots (new of %zu kinds, load, incref, decref, intermediate_decref, serialize, copy, build_tag, push, push(move), set, replace, map_add, add_chunk, tag_set_item, tag_item, get), each re-executed from scratch and ended by dropping all client references", maxlen, g_dfs_slots, sizeof dfs_kinds);
    } else if (P == 4 && !strcmp(st, "deepapi")) {
      /* trees assembled through the construction API may nest deeper than the decoder's limit: releasing the root must
       * still release everything, and a leaf shared with the client must end with exactly the client's reference */
      size_t L = (size_t)O.L;
      size_t depths[] = {L > 1 ? L - 1 : 1, L, L + 1, L + 2, 2 * L + 50, 3 * L};
      int unit = 0;
      for (size_t di = 0; di < sizeof depths / sizeof depths[0]; di++)
        for (int pattern = 0; pattern < 5; pattern++, unit++) {
          if (unit % O.nshards != O.shard) continue;
          size_t D = depths[di];
          if (D > 20000) continue;
          uint8_t desc[10] = {'D', (uint8_t)pattern};
          for (int i = 0; i < 8; i++) desc[2 + i] = (uint8_t)(D >> (56 - 8 * i));
          if (!vh_case(desc, 10)) continue;
          size_t live0 = ta_live_count();
          cbor_item_t* leaf = cbor_build_string("leaf");
          cbor_item_t* cur = cbor_incref(leaf); /* one reference for the client, one handed to the innermost container */
          bool ok = leaf != NULL;
          for (size_t d = 0; d < D && ok; d++) {
            int k = pattern == 4 ? (int)(d % 4) : pattern;
            cbor_item_t* c = NULL;
            if (k == 0) { c = cbor_new_tag(d); if (c) cbor_tag_set_item(c, cur); }
            else if (k == 1) { c = cbor_new_indefinite_array(); ok = c && cbor_array_push(c, cur); }
            else if (k == 2) { c = cbor_new_definite_map(1); cbor_item_t* key = cbor_build_uint8(1); ok = c && key && cbor_map_add(c, (struct cbor_pair){.key = key, .value = cur}); if (key) cbor_decref(&key); }
            else { c = cbor_new_indefinite_map(); cbor_item_t* val = cbor_new_null(); ok = c && val && cbor_map_add(c, (struct cbor_pair){.key = cur, .value = val}); if (val) cbor_decref(&val); }
            if (!c) { ok = false; break; }
            cbor_decref(&cur); /* the container holds it now */
            cur = c;
          }
          if (ok) {
            if (cbor_refcount(leaf) != 2) vh_violation("refcount-differs-from-rules", "leaf shared between the client and a %zu-level chain has refcount %zu, expected 2", D, cbor_refcount(leaf));
            cbor_decref(&cur);
            if (cur) vh_violation("not-released-with-last-reference", "root of a %zu-level chain survived the release of its only reference", D);
            if (cbor_refcount(leaf) != 1) vh_violation("refcount-differs-from-rules", "after releasing a %zu-level chain (limit %zu) the shared leaf has refcount %zu, expected 1: part of the chain was not released", D, L, cbor_refcount(leaf));
            cbor_decref(&leaf);
            if (ta_live_count() != live0) { vh_violation("leak", "%zu block(s) remain after releasing a %zu-level API-built chain (decoder limit %zu)", ta_live_count() - live0, D, L); ta_forget_all(); }
            vh_nontrivial(vh_hash(desc, 10));
            VH_MAX("max_api_built_depth_released", D);
          } else { vh_die("deepapi: construction failed"); }
        }
    } else if (P == 4 && !strcmp(st, "builderseq")) {
      /* the exported builder callbacks driven by the client itself over a CBOR sequence with ONE long-lived context, the way
       * cbor_load uses them: each completed root belongs to the client, who copies the pointer out and releases it later */
      uint64_t nseq = O.budget ? O.budget : (O.thorough ? 100000 : 10000);
      uint64_t nsys = gen_systematic_count();
      struct cbor_callbacks cbs = {
          .uint8 = &cbor_builder_uint8_callback, .uint16 = &cbor_builder_uint16_callback, .uint32 = &cbor_builder_uint32_callback, .uint64 = &cbor_builder_uint64_callback,
          .negint8 = &cbor_builder_negint8_callback, .negint16 = &cbor_builder_negint16_callback, .negint32 = &cbor_builder_negint32_callback, .negint64 = &cbor_builder_negint64_callback,
          .byte_string = &cbor_builder_byte_string_callback, .byte_string_start = &cbor_builder_byte_string_start_callback, .string = &cbor_builder_string_callback,
          .string_start = &cbor_builder_string_start_callback, .array_start = &cbor_builder_array_start_callback, .indef_array_start = &cbor_builder_indef_array_start_callback,
          .map_start = &cbor_builder_map_start_callback, .indef_map_start = &cbor_builder_indef_map_start_callback, .tag = &cbor_builder_tag_callback, .null = &cbor_builder_null_callback,
          .undefined = &cbor_builder_undefined_callback, .boolean = &cbor_builder_boolean_callback, .float2 = &cbor_builder_float2_callback, .float4 = &cbor_builder_float4_callback,
          .float8 = &cbor_builder_float8_callback, .indef_break = &cbor_builder_indef_break_callback};
      for (uint64_t u = 0; u < nseq; u++) {
        if ((int)(u % (uint64_t)O.nshards) != O.shard) continue;
        struct vh_rng r;
        vh_rng_seed(&r, O.seed * 0xb5e9 + u);
        size_t k = 2 + vh_below(&r, 5);
        struct vh_buf cat = {0}, dumps[8];
        size_t ends[8];
        memset(dumps, 0, sizeof dumps);
        struct gen_cfg cfg = {.max_nodes = 8, .max_depth = 4, .nonminimal = true, .assigned_simple_only = true};
        for (size_t i = 0; i < k; i++) {
          rnode* t = vh_below(&r, 3) ? gen_tree(&r, &cfg) : gen_systematic(vh_below(&r, nsys));
          size_t before = cat.n;
          ref_encode_src(t, &cat);
          if (cat.n - before > 3000) { cat.n = before; vb_u8(&cat, 0xf6); rn_free(t); t = rn_new(R_SIMPLE); t->val = 22; }
          walk_dump_ref(t, &dumps[i]);
          ends[i] = cat.n;
          rn_free(t);
        }
        uint8_t desc[12] = {'B'};
        for (int i = 0; i < 8; i++) desc[1 + i] = (uint8_t)(u >> (56 - 8 * i));
        if (!vh_case(desc, 9)) { vb_free(&cat); for (size_t i = 0; i < k; i++) vb_free(&dumps[i]); continue; }
        size_t live0 = ta_live_count();
        uint8_t* buf = vh_exact(cat.p, cat.n);
        struct _cbor_stack stack = _cbor_stack_init();
        struct _cbor_decoder_context ctx = {.stack = &stack, .creation_failed = false, .syntax_error = false, .root = NULL};
        cbor_item_t* roots[8] = {0};
        size_t got = 0, off = 0;
        bool failed = false;
        while (off < cat.n && got < k) {
          struct cbor_decoder_result res = cbor_stream_decode(buf + off, cat.n - off, &cbs, &ctx);
          if (res.status != CBOR_DECODER_FINISHED || ctx.creation_failed || ctx.syntax_error) { vh_violation("builder-sequence-failed", "driving the builder callbacks over a sequence of %zu well-formed items failed at offset %zu (status %d, creation_failed %d, syntax_error %d)", k, off, (int)res.status, ctx.creation_failed, ctx.syntax_error); failed = true; break; }
          off += res.read;
          if (stack.size == 0) {
            roots[got] = ctx.root; /* the pointer is copied out; the context is reused as it is, like cbor_load's `return context.root` */
            if (off != ends[got]) vh_violation("builder-sequence-boundary", "item %zu completed at offset %zu, expected %zu", got, off, ends[got]);
            got++;
          }
        }
        if (!failed) {
          if (got != k) vh_violation("builder-sequence-count", "%zu of %zu items completed", got, k);
          /* the client now uses and releases what it owns: every root must still be alive, intact and solely owned */
          for (size_t i = 0; i < got; i++) {
            struct vh_buf d = {0};
            walk_dump_item(roots[i], &d, 0);
            if (d.n != dumps[i].n || memcmp(d.p, dumps[i].p, d.n)) vh_violation("builder-sequence-item-differs", "item %zu of the sequence differs from what its bytes denote after later items were decoded with the same context", i);
            if (cbor_refcount(roots[i]) != 1) vh_violation("refcount-differs-from-rules", "root %zu handed to the client has refcount %zu", i, cbor_refcount(roots[i]));
            vb_free(&d);
          }
          for (size_t i = 0; i < got; i++) cbor_decref(&roots[i]);
        } else {
          while (stack.size > 0) { cbor_decref(&stack.top->item); _cbor_stack_pop(&stack); }
          for (size_t i = 0; i < got; i++) if (roots[i]) cbor_decref(&roots[i]);
        }
        if (ta_live_count() != live0) { vh_violation("leak", "%zu block(s) left after a client-driven builder sequence", ta_live_count() - live0); ta_forget_all(); }
        free(buf);
        vb_free(&cat);
        for (size_t i = 0; i < k; i++) vb_free(&dumps[i]);
        vh_nontrivial(vh_hash(desc, 9));
        VH_COUNT("builder_sequences", 1);
      }
    } else if (P == 4 && !strcmp(st, "wide")) {
      /* reference counts beyond 32 bits: the count of an item is put near 2^32 (and 2^48, 2^63) through the public struct,
       * as if that many references were held, then references are taken and released across the boundary */
      static const size_t starts[] = {((size_t)1 << 32) - 2, ((size_t)1 << 32) - 1, ((size_t)1 << 32), ((size_t)1 << 31) - 1, ((size_t)1 << 16) - 1, ((size_t)1 << 48) - 1, ((size_t)1 << 63) - 1, 254, 255, 65535};
      int unit = 0;
      for (int kind = 0; kind < K_NKINDS; kind++)
        for (size_t si = 0; si < sizeof starts / sizeof starts[0]; si++, unit++) {
          if (unit % O.nshards != O.shard) continue;
          uint8_t desc[10] = {'W', (uint8_t)kind};
          for (int i = 0; i < 8; i++) desc[2 + i] = (uint8_t)(starts[si] >> (56 - 8 * i));
          if (!vh_case(desc, 10)) continue;
          cbor_item_t* it = r_new(kind, 2);
          cbor_item_t* arr = r_new(K_IARR, 0);
          if (!it || !arr) vh_die("wide: allocation failed");
          it->refcount = starts[si];
          size_t expect = starts[si];
          for (int k = 0; k < 3; k++) { cbor_incref(it); expect++; if (cbor_refcount(it) != expect) { vh_violation("refcount-differs-from-rules", "an item (%s) with %zu references: after one more cbor_incref cbor_refcount reports %zu, expected %zu", kind_names[kind], expect - 1, cbor_refcount(it), expect); break; } }
          for (int k = 0; k < 2; k++) { if (!cbor_array_push(arr, it)) break; expect++; }
          if (cbor_refcount(it) != expect) vh_violation("refcount-differs-from-rules", "an item (%s) referenced %zu times reports %zu", kind_names[kind], expect, cbor_refcount(it));
          /* release the references taken above; the item must stay alive (ASan flags any touch of a freed block) */
          cbor_decref(&arr);
          expect -= 2;
          for (int k = 0; k < 3 && it; k++) { cbor_item_t* t = it; cbor_decref(&t); expect--; if (!t) { vh_violation("released-while-referenced", "an item (%s) was released although %zu references remain", kind_names[kind], expect); it = NULL; } }
          if (it) {
            if (cbor_refcount(it) != expect) vh_violation("refcount-differs-from-rules", "after releasing, cbor_refcount reports %zu, expected %zu", cbor_refcount(it), expect);
            it->refcount = 1;
            cbor_decref(&it);
          }
          if (ta_live_count()) { if (it == NULL) ta_forget_all(); else { vh_violation("leak", "%zu block(s) left", ta_live_count()); ta_forget_all(); } }
          vh_nontrivial(vh_hash(desc, 10));
        }
    } else {
      uint64_t nh = O.budget ? O.budget : (O.thorough ? 500000 : 20000);
      for (uint64_t u = 0; u < nh; u++) if ((int)(u % (uint64_t)O.nshards) == O.shard) random_history(u, 60, false);
      if (g_switch_allocators && O.shard == 0) {
        /* a triple that keeps the malloc the library started with and replaces only realloc and free */
        uint8_t desc[2] = {'P', 'T'};
        if (vh_case(desc, 2)) {
          pt_install();
          PT_reallocs = PT_frees = 0;
          cbor_item_t* a = cbor_new_indefinite_array(), * x = cbor_build_uint8(1);
          size_t pushed = 0;
          if (a && x) for (int i = 0; i < 40; i++) pushed += cbor_array_push(a, x);
          if (a) cbor_decref(&a);
          if (x) cbor_decref(&x);
          if (pushed != 40) vh_violation("indefinite-container-refused", "40 pushes under (malloc, counting realloc, counting free): %zu succeeded", pushed);
          if (PT_reallocs < 6 || PT_frees < 3)
            vh_violation("call-to-allocator-function-not-installed", "after cbor_set_allocs(malloc, r, f) the library grew an array to 40 members and released everything, yet r was called %llu times and f %llu times: the installed realloc/free are not the ones in use",
                         (unsigned long long)PT_reallocs, (unsigned long long)PT_frees);
          VH_COUNT("passthrough_triple_runs", 1);
          vh_nontrivial(vh_hash(desc, 2));
          tg_install(); ALLOC = A_TAGGED;
        }
      }
    }
    if (g_switch_allocators) vh_count_dyn("allocator_triples_installed_between_histories", g_allocator_switches);
    vh_count_dyn("steps_with_a_shared_item", g_shared_steps);
    vh_count_dyn("steps_that_released_memory", g_free_steps);
    vh_count_dyn("ops_executed", g_ops_executed);
    vh_count_dyn("ops_expected_to_be_refused", g_refused_ops);
    vh_count_dyn("string_blocks_detached_and_released_by_the_client", g_detaches);
    vh_count_dyn("buffers_attached_late_to_handle_less_strings", g_late_attaches);
    vh_count_dyn("value_setter_calls", g_setvalue_calls); vh_count_dyn("value_setter_calls_on_items_with_several_references", g_setvalue_shared);
    vh_count_dyn("calls_with_arguments_lent_through_cbor_move", g_lent_calls);
    vh_count_dyn("calls_with_lent_arguments_that_were_refused", g_lent_refused);
    vh_count_dyn("ops_in_which_an_allocation_refusal_fired", g_refusals_hit);
    for (int i = 1; i < OP_NOPS; i++) { char nm[64]; snprintf(nm, sizeof nm, "op.%s", op_names[i]); vh_count_dyn(nm, g_op_hist[i]); }
  } else if (P == 12) {
    if (!strcmp(st, "seq")) {
      int maxlen = O.budget ? (int)O.budget : (O.thorough ? 4 : 3);
      for (int cap = 0; cap <= 8; cap++) { c12_seq(K_DARR, cap, maxlen); c12_seq(K_DMAP, cap, maxlen + 1); }
      c12_seq(K_IARR, 0, maxlen); c12_seq(K_IMAP, 0, maxlen + 1); c12_seq(K_IBS, 0, maxlen + 2); c12_seq(K_ITS, 0, maxlen + 2);
      vh_count_dyn("seq.histories", g_dfs_histories);
    } else if (!strcmp(st, "random")) {
      uint64_t nh = O.budget ? O.budget : (O.thorough ? 300000 : 30000);
      for (uint64_t u = 0; u < nh; u++) if ((int)(u % (uint64_t)O.nshards) == O.shard) random_history(u, 40, true);
    } else if (!strcmp(st, "hugeidx")) {
      /* every far-out-of-range index code x {get, set, replace} on arrays of each flavour and fill level */
      int unit = 0;
      for (int kind = K_DARR; kind <= K_IARR; kind++)
        for (int fill = 0; fill <= 5; fill++)
          for (int code = 200; code < 256; code++)
            for (int which = 0; which < 3; which++, unit++) {
              if (unit % O.nshards != O.shard) continue;
              struct op ops[16];
              int n = 0;
              ops[n++] = (struct op){OP_NEW, 0, (uint8_t)kind, (uint8_t)(fill + 1)};
              ops[n++] = (struct op){OP_NEW, 1, K_INT, 0};
              ops[n++] = (struct op){OP_NEW, 2, K_FLOAT, 0};
              for (int f = 0; f < fill; f++) ops[n++] = (struct op){OP_PUSH, 0, (uint8_t)(1 + (f & 1)), 0};
              ops[n++] = which == 0 ? (struct op){OP_GET, 0, (uint8_t)code, 3} : which == 1 ? (struct op){OP_SET, 0, (uint8_t)code, 2} : (struct op){OP_REPLACE, 0, (uint8_t)code, 2};
              ops[n++] = (struct op){OP_SERIALIZE, 0, 0, 0};
              history_case(ops, n, true);
            }
    } else if (!strcmp(st, "growth")) {
      static const int kinds[] = {K_IARR, K_IMAP, K_IBS, K_ITS};
      size_t top = O.thorough ? 65536 : 4096;
      int unit = 0;
      for (int k = 0; k < 4; k++)
        for (size_t n = 1; n <= top; n = n < 70 ? n + 1 : n * 2 - 1) { if (unit++ % O.nshards == O.shard) c12_growth(kinds[k], n); if (n >= top) break; }
      /* containers whose table was sized by cbor_copy / by the decoder, then extended through the API */
      { static const size_t n0s[] = {0, 1, 3, 5, 8, 9, 100, 255, 256, 257, 300, 511, 512, 513, 600, 1023, 1024, 1025, 1500, 2048, 3000, 4097, 5000, 70000};
        for (int k = 0; k < 4; k++) for (size_t q = 0; q < sizeof n0s / sizeof n0s[0]; q++) for (int via = 1; via <= 2; via++)
          if (unit++ % O.nshards == O.shard) c12_growth_via(kinds[k], n0s[q] < 1000 ? 3 * n0s[q] + 40 : 2500, via, n0s[q]); }
      /* appends through cbor_array_set(a, size, x) grow like pushes */
      { static const size_t ns[] = {3, 40, 100, 1000, 4096, 70000};
        for (size_t q = 0; q < sizeof ns / sizeof ns[0]; q++) if (unit++ % O.nshards == O.shard) c12_growth_via(K_IARR, ns[q], 3, 0); }
      /* long runs: millions of members in one container (tables of tens of MiB) */
      for (int k = 0; k < 4; k++) {
        if (unit++ % O.nshards == O.shard) c12_growth(kinds[k], (size_t)3 << 19);
        if (O.thorough && unit++ % O.nshards == O.shard) c12_growth(kinds[k], (size_t)3 << 21);
      }
    } else vh_die("driver hist: unknown C12 stage '%s'", st);
    vh_count_dyn("ops_executed", g_ops_executed);
    vh_count_dyn("ops_expected_to_be_refused", g_refused_ops);
    vh_count_dyn("string_blocks_detached_and_released_by_the_client", g_detaches);
    vh_count_dyn("buffers_attached_late_to_handle_less_strings", g_late_attaches);
    vh_count_dyn("calls_with_arguments_lent_through_cbor_move", g_lent_calls);
    vh_count_dyn("calls_with_lent_arguments_that_were_refused", g_lent_refused);
    vh_count_dyn("ops_in_which_an_allocation_refusal_fired", g_refusals_hit);
    for (int i = 1; i < OP_NOPS; i++) if (g_op_hist[i]) { char nm[64]; snprintf(nm, sizeof nm, "op.%s", op_names[i]); vh_count_dyn(nm, g_op_hist[i]); }
  } else {
    /* C13 corpus */
    uint64_t nsys = gen_systematic_count();
    uint64_t nrand = O.budget ? O.budget : (O.thorough ? 100000 : 10000);
    struct vh_buf x = {0};
    for (uint64_t u = 0; u < nsys + nrand; u++) {
      if ((int)(u % (uint64_t)O.nshards) != O.shard) continue;
      struct vh_rng r;
      vh_rng_seed(&r, O.seed * 0x100000001b3ull + u);
      struct gen_cfg cfg = {.max_nodes = 3 + (int)(u % 23), .max_depth = 6, .nonminimal = true, .assigned_simple_only = true};
      rnode* t = u < nsys ? gen_systematic(u) : gen_tree(&r, &cfg);
      if (!t) continue;
      vb_reset(&x);
      ref_encode_src(t, &x);
      rn_free(t);
      if (x.n > 60000) continue;
      c13_corpus_case(x.p, x.n);
      if (u % 16 == 0 && x.n <= 300) gen_neighbours(x.p, x.n, false, c13_cb, NULL);
    }
    vb_free(&x);
    vh_count_dyn("calls_checked_for_allocator_silence", g_no_alloc_calls);
  }
  if (P == 13) {
    vh_count_dyn("bypass_calls_seen", VH_bypass_calls);
    vh_count_dyn(ALLOC == A_TAGGED ? "tagged.allocs" : ALLOC == A_ARENA ? "arena.allocs" : "track.requests", ALLOC == A_TAGGED ? TG_allocs : ALLOC == A_ARENA ? AR_allocs : TA.requests);
    vh_count_dyn(ALLOC == A_TAGGED ? "tagged.frees" : ALLOC == A_ARENA ? "arena.frees" : "track.frees", ALLOC == A_TAGGED ? TG_frees : ALLOC == A_ARENA ? AR_frees : TA.frees);
  }
  if (P == 4) vh_set_rule("each case is a history of public API calls executed on libcbor and on a shadow ownership graph (expected count = client references + container edges, recursive death); after every step every live item's cbor_refcount and the allocator's free events are compared with the graph, and the history ends by dropping all client references; non-trivial = at least two applicable ops; distinct by 64-bit hash of the op program");
  else if (P == 12) vh_set_rule("each case is an op sequence on one container (or a growth run) executed on libcbor and on an abstract list; contents by identity, size, capacity rules, out-of-range refusals and reallocation counts are compared after every step; non-trivial = at least two applicable ops; distinct by hash of the op program");
  else vh_set_rule("API histories and decoded corpora replayed under allocators that make any bypass of the configured triple fatal or visible (hidden-header tagging; libc-free arena with --wrap bypass detector) plus allocator-silence checks for the no-allocation clause; distinct by hash");
  vh_set_exhaustive(P == 4 && !strcmp(st, "dfs"));
}

static void hist_exec(const uint8_t* d, size_t n) {
  setup();
  if (n >= 1 && d[0] == 'G' && n == 10) { size_t k = 0; for (int i = 0; i < 8; i++) k = k << 8 | d[2 + i]; c12_growth(d[1], k); return; }
  if (n == 19 && d[0] == 'G') { size_t k = 0, k0 = 0; for (int i = 0; i < 8; i++) { k = k << 8 | d[2 + i]; k0 = k0 << 8 | d[11 + i]; } c12_growth_via(d[1], k, d[10], k0); return; }
  if (n >= 1 && d[0] == 'I') { c13_corpus_case(d + 1, n - 1); return; }
  if (n < 1) return;
  struct op ops[64];
  int nops = (int)((n - 1) / 4);
  for (int i = 0; i < nops; i++) ops[i] = (struct op){d[1 + 4 * i], d[2 + 4 * i], d[3 + 4 * i], d[4 + 4 * i]};
  struct vh_buf h = {0};
  render_history(ops, nops, &h);
  printf("history: %s\n", (char*)h.p);
  history_case(ops, nops, d[0] != 0);
}
const struct vh_driver drv_hist = {"hist", hist_run, hist_exec, "API histories vs ownership graph / list model / allocator provenance (C04, C12, C13)"};
