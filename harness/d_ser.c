/* d_ser.c — driver "ser": properties over item trees.
 *   C03: serialization == reference encoding of the shadow tree; round trip
 *   C07: size / serialize / serialize_alloc agree for every buffer size; no
 *        write beyond the buffer; low-level encoders all-or-nothing
 *   C11: cbor_copy equal, independent, source intact
 * Tree sources (stages): "dec" = trees returned by cbor_load for enumerated and
 * generated inputs (shadow = reference decoder's tree); "api" = trees assembled
 * through the construction API together with a shadow tree (all builders and
 * new+set, spare capacity, shared sub-items, handle-less strings, re-tagging);
 * "enc" (C07) = the low-level encoders. */
#include "vh.h"

static int P; /* 3, 7, 11 */
static size_t LIM;

/* ----------------------------------------------------- variation builder */
static float f_from_bits(uint32_t b) { float f; memcpy(&f, &b, 4); return f; }
static __thread uint64_t g_built_variants[16];

cbor_item_t* ser_build_variant(const rnode* n, struct vh_rng* r);
static __thread uint64_t g_late_filled;
#define build_v ser_build_variant

static cbor_item_t* build_int(const rnode* n, struct vh_rng* r) {
  cbor_item_t* it;
  bool neg = n->kind == R_NEGINT;
  if (vh_below(r, 2)) {
    g_built_variants[0]++;
    switch (n->width) {
      case 0: return neg ? cbor_build_negint8((uint8_t)n->val) : cbor_build_uint8((uint8_t)n->val);
      case 1: return neg ? cbor_build_negint16((uint16_t)n->val) : cbor_build_uint16((uint16_t)n->val);
      case 2: return neg ? cbor_build_negint32((uint32_t)n->val) : cbor_build_uint32((uint32_t)n->val);
      default: return neg ? cbor_build_negint64(n->val) : cbor_build_uint64(n->val);
    }
  }
  g_built_variants[1]++;
  switch (n->width) {
    case 0: it = cbor_new_int8(); if (it) cbor_set_uint8(it, (uint8_t)n->val); break;
    case 1: it = cbor_new_int16(); if (it) cbor_set_uint16(it, (uint16_t)n->val); break;
    case 2: it = cbor_new_int32(); if (it) cbor_set_uint32(it, (uint32_t)n->val); break;
    default: it = cbor_new_int64(); if (it) cbor_set_uint64(it, n->val); break;
  }
  if (it) { if (neg) cbor_mark_negint(it); else cbor_mark_uint(it); }
  return it;
}

bool g_any_float_in_half; /* set by drivers whose property quantifies over every item, not only over C03's space */
cbor_item_t* ser_build_variant(const rnode* n, struct vh_rng* r) {
  cbor_item_t* it = NULL;
  switch (n->kind) {
    case R_UINT: case R_NEGINT: return build_int(n, r);
    case R_FLOAT: {
      bool viaset = vh_below(r, 2);
      if (n->width == 1) {
        float f = f_from_bits(ref_half_to_single_bits((uint16_t)n->val));
        /* C03 is stated for half-width items holding half-representable values; sizes, buffers and copies (C07, C11, the
         * API scenarios of C06) are for every item, and the API lets a half-width item hold any float */
        if (g_any_float_in_half && vh_below(r, 3) == 0) { static const float odd[] = {3.14f, 0.1f, -2.718f, 1e-10f, 1e10f, 65520.0f, 65519.0f, 2.4e-8f, 1.00048828125f, -1e-40f}; f = odd[vh_below(r, sizeof odd / sizeof odd[0])]; }
        if (viaset) { it = cbor_new_float2(); if (it) cbor_set_float2(it, f); } else it = cbor_build_float2(f);
      } else if (n->width == 2) {
        float f = f_from_bits((uint32_t)n->val);
        if (viaset) { it = cbor_new_float4(); if (it) cbor_set_float4(it, f); } else it = cbor_build_float4(f);
      } else {
        double d; memcpy(&d, &n->val, 8);
        if (viaset) { it = cbor_new_float8(); if (it) cbor_set_float8(it, d); } else it = cbor_build_float8(d);
      }
      return it;
    }
    case R_SIMPLE:
      switch (vh_below(r, 3)) {
        case 0: it = cbor_build_ctrl((uint8_t)n->val); break;
        case 1: it = cbor_new_ctrl(); if (it) cbor_set_ctrl(it, (uint8_t)n->val); break;
        default:
          if (n->val == 20 || n->val == 21) { it = cbor_build_bool(n->val == 21); if (it && vh_below(r, 2)) { cbor_set_bool(it, n->val != 21); cbor_set_bool(it, n->val == 21); } }
          else if (n->val == 22) it = cbor_new_null();
          else if (n->val == 23) it = cbor_new_undef();
          else it = cbor_build_ctrl((uint8_t)n->val);
      }
      return it;
    case R_BYTES: case R_TEXT: {
      bool text = n->kind == R_TEXT;
      if (n->indef) {
        it = text ? cbor_new_indefinite_string() : cbor_new_indefinite_bytestring();
        if (!it) return NULL;
        /* one chunked string in three is assembled structure first, contents later: every chunk is attached while it
         * still has no buffer and receives its bytes afterwards */
        bool late = vh_below(r, 3) == 0;
        for (size_t i = 0; i < n->nkids; i++) {
          const rnode* k = n->kids[i];
          cbor_item_t* c = late && !k->indef ? (text ? cbor_new_definite_string() : cbor_new_definite_bytestring()) : build_v(k, r);
          if (!c) { cbor_decref(&it); return NULL; }
          bool ok = text ? cbor_string_add_chunk(it, c) : cbor_bytestring_add_chunk(it, c);
          if (ok && late && !k->indef && k->len) {
            unsigned char* h = _cbor_malloc(k->len);
            if (!h) { cbor_decref(&c); cbor_decref(&it); return NULL; }
            memcpy(h, k->bytes, k->len);
            if (text) cbor_string_set_handle(c, h, k->len); else cbor_bytestring_set_handle(c, h, k->len);
          }
          cbor_decref(&c);
          if (!ok) { cbor_decref(&it); return NULL; }
        }
        if (late) g_late_filled++;
        return it;
      }
      int v = (int)vh_below(r, 4);
      if (n->len == 0 && v == 3) { /* handle-less fresh string: a documented state */
        g_built_variants[2]++;
        return text ? cbor_new_definite_string() : cbor_new_definite_bytestring();
      }
      if (v == 0) { /* new + set_handle with a block from the configured malloc */
        g_built_variants[3]++;
        it = text ? cbor_new_definite_string() : cbor_new_definite_bytestring();
        if (!it) return NULL;
        unsigned char* h = _cbor_malloc(n->len); /* the configured allocator, whichever monitor is installed */
        if (!h) { cbor_decref(&it); return NULL; }
        if (n->len) memcpy(h, n->bytes, n->len);
        if (text) cbor_string_set_handle(it, h, n->len); else cbor_bytestring_set_handle(it, h, n->len);
        return it;
      }
      if (text && v == 1 && (n->len == 0 || !memchr(n->bytes, 0, n->len))) {
        g_built_variants[4]++;
        char* z = malloc(n->len + 1);
        if (n->len) memcpy(z, n->bytes, n->len);
        z[n->len] = 0;
        it = cbor_build_string(z);
        free(z);
        return it;
      }
      {
        /* exactly-sized source so the builder's copy cannot over-read unnoticed */
        uint8_t* src = vh_exact(n->bytes, n->len);
        it = text ? cbor_build_stringn((const char*)src, n->len) : cbor_build_bytestring(src, n->len);
        free(src);
      }
      return it;
    }
    case R_ARRAY: case R_MAP: {
      bool map = n->kind == R_MAP;
      size_t members = map ? n->nkids / 2 : n->nkids;
      if (n->indef) it = map ? cbor_new_indefinite_map() : cbor_new_indefinite_array();
      else it = map ? cbor_new_definite_map(members + n->extra_cap) : cbor_new_definite_array(members + n->extra_cap);
      if (!it) return NULL;
      cbor_item_t** built = calloc(n->nkids ? n->nkids : 1, sizeof *built);
      bool ok = true;
      for (size_t i = 0; i < n->nkids && ok; i++) {
        const rnode* k = n->kids[i];
        if (k->share_of && k->share_of - 1 < i && built[k->share_of - 1]) { built[i] = cbor_incref(built[k->share_of - 1]); g_built_variants[5]++; }
        else built[i] = build_v(k, r);
        if (!built[i]) { ok = false; break; }
        if (!map) {
          ok = vh_below(r, 2) ? cbor_array_push(it, built[i]) : cbor_array_set(it, i, built[i]);
        } else if (i & 1) {
          ok = cbor_map_add(it, (struct cbor_pair){.key = built[i - 1], .value = built[i]});
        }
      }
      for (size_t i = 0; i < n->nkids; i++) if (built[i]) cbor_decref(&built[i]);
      free(built);
      if (!ok) { cbor_decref(&it); return NULL; }
      if (n->extra_cap) g_built_variants[6]++;
      return it;
    }
    case R_TAG: {
      cbor_item_t* c = build_v(n->kids[0], r);
      if (!c) return NULL;
      int v = (int)vh_below(r, 3);
      if (v == 0) it = cbor_build_tag(n->val, c);
      else {
        it = cbor_new_tag(n->val);
        if (it) {
          if (v == 2) {
            /* re-tagging: documented to leave the old item's count unchanged, so the
             * reference the tag held passes to us: release both */
            cbor_item_t* old = cbor_build_uint8(7);
            if (old) {
              cbor_tag_set_item(it, old);
              cbor_tag_set_item(it, c);
              cbor_decref(&old);
              cbor_decref(&old);
              g_built_variants[7]++;
            } else cbor_tag_set_item(it, c);
          } else cbor_tag_set_item(it, c);
        }
      }
      cbor_decref(&c);
      return it;
    }
  }
  return NULL;
}

static void add_variation(rnode* n, struct vh_rng* r) {
  for (size_t i = 0; i < n->nkids; i++) add_variation(n->kids[i], r);
  if ((n->kind == R_ARRAY || n->kind == R_MAP)) {
    if (!n->indef && vh_below(r, 3) == 0) {
      n->extra_cap = 1 + (uint32_t)vh_below(r, 3);
      /* capacity and fill level on opposite sides of a head-width boundary (23/24, 255/256, 65535/65536) */
      size_t members = n->kind == R_MAP ? n->nkids / 2 : n->nkids;
      static const uint32_t caps[] = {23, 24, 25, 255, 256, 257, 300, 65535, 65536, 65537};
      if (vh_below(r, 3) == 0) { uint32_t c = caps[vh_below(r, vh_below(r, 4) ? 7 : 10)]; if (c > members) n->extra_cap = (uint32_t)(c - members); }
    }
    if (n->nkids >= 2 && vh_below(r, 3) == 0) {
      size_t i = 1 + vh_below(r, n->nkids - 1), j = vh_below(r, i);
      rnode* c = rn_clone(n->kids[j]);
      c->share_of = (uint32_t)j + 1;
      rn_free(n->kids[i]);
      n->kids[i] = c;
    }
  }
}

/* ------------------------------------------------------------------- C03 */
static void c03_check(cbor_item_t* it, const rnode* shadow) {
  struct vh_buf want = {0}, a = {0}, b = {0};
  ref_encode(shadow, &want);
  size_t cap = want.n + 64;
  uint8_t* out = malloc(cap);
  memset(out, 0x5e, cap);
  VH_POISON(out, cap);
  vh_ambient_scramble(vh_hash(want.p, want.n) >> 5); /* stale errno, rounding mode, FTZ/DAZ: the bytes are a function of the tree */
  size_t w = cbor_serialize(it, out, cap);
  vh_ambient_restore();
  if (w && w <= cap) { long u = VH_UNINIT_AT(out, w); if (u >= 0) vh_violation("serialized-uninitialised-memory", "byte %ld of the %zu serialized bytes comes from uninitialised memory", u, w); }
  VH_UNPOISON(out, cap);
  if (w != want.n || memcmp(out, want.p, want.n)) {
    struct vh_buf pr = {0};
    walk_print_item(it, &pr);
    vh_violation("encoding-mismatch", "cbor_serialize of %s returned %zu bytes %s; the RFC 8949 encoding of the tree is %zu bytes %s", (char*)pr.p, w, vh_hex(out, w < cap ? w : 0, 48), want.n, vh_hex(want.p, want.n, 48));
    vb_free(&pr);
  } else {
    uint8_t* ex = vh_exact(out, w);
    struct cbor_load_result r;
    memset(&r, 0, sizeof r);
    cbor_item_t* it2 = cbor_load(ex, w, &r);
    if (!it2) vh_violation("reload-failed", "loading the serialized bytes %s failed with code %d at %zu", vh_hex(ex, w, 48), (int)r.error.code, r.error.position);
    else {
      if (r.read != w) vh_violation("reload-partial", "loading the %zu serialized bytes consumed only %zu", w, r.read);
      walk_dump_item(it, &a, 0);
      walk_dump_item(it2, &b, 0);
      if (a.n != b.n || memcmp(a.p, b.p, a.n)) {
        struct vh_buf p1 = {0}, p2 = {0};
        walk_print_item(it, &p1); walk_print_item(it2, &p2);
        vh_violation("roundtrip-tree-differs", "original %s, reloaded %s", (char*)p1.p, (char*)p2.p);
        vb_free(&p1); vb_free(&p2);
      }
      uint8_t* out2 = malloc(w + 8);
      size_t w2 = cbor_serialize(it2, out2, w + 8);
      if (w2 != w || memcmp(out2, ex, w)) vh_violation("reserialization-differs", "second serialization gives %zu bytes %s, first gave %zu bytes %s", w2, vh_hex(out2, w2 <= w + 8 ? w2 : 0, 48), w, vh_hex(ex, w, 48));
      free(out2);
      cbor_decref(&it2);
    }
    free(ex);
  }
  { const char* bad = walk_check_predicates(it); if (bad) vh_violation("predicates-inconsistent", "on a node of the tree %s", bad); }
  /* the type-specific serializer of the root must agree with the generic one */
  if (w == want.n) {
    uint8_t* t2 = malloc(cap);
    size_t wt = 0;
    switch (cbor_typeof(it)) {
      case CBOR_TYPE_UINT: wt = cbor_serialize_uint(it, t2, cap); break;
      case CBOR_TYPE_NEGINT: wt = cbor_serialize_negint(it, t2, cap); break;
      case CBOR_TYPE_BYTESTRING: wt = cbor_serialize_bytestring(it, t2, cap); break;
      case CBOR_TYPE_STRING: wt = cbor_serialize_string(it, t2, cap); break;
      case CBOR_TYPE_ARRAY: wt = cbor_serialize_array(it, t2, cap); break;
      case CBOR_TYPE_MAP: wt = cbor_serialize_map(it, t2, cap); break;
      case CBOR_TYPE_TAG: wt = cbor_serialize_tag(it, t2, cap); break;
      case CBOR_TYPE_FLOAT_CTRL: wt = cbor_serialize_float_ctrl(it, t2, cap); break;
    }
    if (wt != w || memcmp(t2, out, w)) vh_violation("typed-serializer-differs", "the type-specific cbor_serialize_* of the root gives %zu bytes %s, cbor_serialize gave %zu bytes %s", wt, vh_hex(t2, wt <= cap ? wt : 0, 32), w, vh_hex(out, w, 32));
    free(t2);
  }
  /* the builder (or decoder) produced the tree the shadow describes */
  vb_reset(&a); vb_reset(&b);
  walk_dump_item(it, &a, 0);
  walk_dump_ref(shadow, &b);
  if (a.n != b.n || memcmp(a.p, b.p, a.n)) {
    struct vh_buf pr = {0};
    walk_print_item(it, &pr);
    vh_violation("tree-differs-from-shadow", "the item %s does not match what the construction calls / the reference decoder say it should be", (char*)pr.p);
    vb_free(&pr);
  }
  VH_MAX("max_encoding_bytes", want.n);
  free(out);
  vb_free(&want); vb_free(&a); vb_free(&b);
}

/* ------------------------------------------------------------------- C07 */
static uint64_t g_huge_budget;
static void c07_check_inner(cbor_item_t* it);
/* one tree in four is sized and serialized while its root is a temporary handed on with cbor_move (reference count 0):
 * the serializers read it like any other item and leave its release to whoever adopts it */
static void c07_check(cbor_item_t* it) {
  bool lent = cbor_refcount(it) == 1 && ((uintptr_t)cbor_serialized_size(it) * 2654435761u >> 7 & 3) == 1;
  if (lent) (void)cbor_move(it);
  c07_check_inner(it);
  if (lent) {
    if (cbor_refcount(it) != 0) vh_violation("argument-changed", "the root lent with reference count 0 has count %zu after sizing and serializing", cbor_refcount(it));
    cbor_incref(it);
    VH_COUNT("trees_serialized_with_reference_count_0", 1);
  }
}
static void c07_check_inner(cbor_item_t* it) {
  size_t size = cbor_serialized_size(it);
  if (size == 0) { VH_COUNT("skipped.size0", 1); return; }
  size_t cap_quick = O.budget2 ? (size_t)O.budget2 : (O.thorough ? 5000 : 300);
  if (size > cap_quick) { VH_COUNT("skipped.too_large_for_n_loop", 1); return; }
  uint8_t* base = malloc(size);
  size_t w = cbor_serialize(it, base, size);
  if (w != size) { vh_violation("size-serialize-disagree", "cbor_serialized_size says %zu but cbor_serialize into a %zu-byte buffer returned %zu", size, size, w); free(base); return; }
  enum { SLACK = 4096 };
  for (size_t n = 0; n <= size + 2; n++) {
    /* exactly n bytes: any write past n lands in the ASan red zone */
    unsigned omis = (unsigned)((n * 3 + size) & 7); /* output start alignment varies; the end abuts the red zone */
    uint8_t* blk_base = malloc(n + omis);
    uint8_t* blk = blk_base + omis;
    memset(blk, 0xcd, n);
    size_t r = cbor_serialize(it, blk, n);
    size_t expect = n >= size ? size : 0;
    if (r != expect) vh_violation("wrong-return", "item of serialized size %zu, buffer of %zu bytes: cbor_serialize returned %zu (expected %zu)", size, n, r, expect);
    else if (r && memcmp(blk, base, size)) vh_violation("bytes-differ", "buffer of %zu bytes: output differs from the output for the exact size", n);
    free(blk_base);
    VH_COUNT("serialize_calls", 1);
    /* sentinel image: writes further away than the red zone */
    if (size <= 64 || n + 3 >= size || n < 3 || (n % 17) == 0) {
      uint8_t* big = malloc(n + SLACK);
      for (size_t i = 0; i < n + SLACK; i++) big[i] = (uint8_t)(0x5e ^ (i * 131));
      size_t r2 = cbor_serialize(it, big, n);
      if (r2 != expect) vh_violation("wrong-return", "buffer of %zu bytes (second call): returned %zu", n, r2);
      for (size_t i = n; i < n + SLACK; i++)
        if (big[i] != (uint8_t)(0x5e ^ (i * 131))) { vh_violation("write-beyond-buffer", "buffer_size=%zu but byte at index %zu was modified (item size %zu)", n, i, size); break; }
      free(big);
      VH_COUNT("sentinel_passes", 1);
    }
  }
  /* roomy buffers: the answer and the bytes do not depend on how much room is left over */
  {
    static const size_t extra[] = {7, 8, 15, 16, 17, 64, 4096};
    for (size_t xi = 0; xi < sizeof extra / sizeof extra[0]; xi++) {
      size_t n = size + extra[xi];
      uint8_t* big = malloc(n + 64);
      memset(big, 0x5e, n + 64);
      size_t r = cbor_serialize(it, big, n);
      if (r != size) vh_violation("wrong-return", "item of serialized size %zu, buffer of %zu bytes: cbor_serialize returned %zu", size, n, r);
      else if (memcmp(big, base, size)) vh_violation("bytes-differ", "buffer of %zu bytes: output differs from the output for the exact size", n);
      for (size_t i = n; i < n + 64; i++) if (big[i] != 0x5e) { vh_violation("write-beyond-buffer", "buffer_size=%zu but byte at index %zu was modified (item size %zu)", n, i, size); break; }
      free(big);
      VH_COUNT("serialize_calls", 1);
    }
  }
  /* buffer sizes beyond 2^32: the output region is a >8 GiB mapping of which only the first pages are touched */
  if (size <= 200 && (g_huge_budget++ % 8) == 0) {
    size_t rl;
    uint8_t* reg = vh_huge_region(&rl);
    if (reg) {
      static const size_t bases[] = {(size_t)1 << 32, (size_t)3 << 31, (size_t)1 << 33};
      for (size_t bi = 0; bi < 3; bi++)
        for (size_t k = 0; k <= size + 2; k++) {
          size_t n = bases[bi] + k;
          if (n > rl) break;
          memset(reg, 0xcd, size + 8);
          size_t r = cbor_serialize(it, reg, n);
          if (r != size) { vh_violation("wrong-return", "item of serialized size %zu, buffer of %zu bytes (2^32-scale): cbor_serialize returned %zu", size, n, r); break; }
          if (memcmp(reg, base, size)) { vh_violation("bytes-differ", "buffer of %zu bytes: output differs", n); break; }
          VH_COUNT("serialize_calls_with_buffers_over_4GiB", 1);
        }
      size_t r = cbor_serialize(it, reg, ((size_t)1 << 32) - 1);
      if (r != size) vh_violation("wrong-return", "buffer of 2^32-1 bytes: cbor_serialize returned %zu for an item of size %zu", r, size);
    }
  }
  /* serialize_alloc */
  unsigned char* ab = (unsigned char*)(uintptr_t)0x1;
  size_t abn = (size_t)-7;
  size_t r = cbor_serialize_alloc(it, &ab, &abn);
  if (r != size || abn != size || ab == NULL) vh_violation("serialize-alloc-disagrees", "cbor_serialize_alloc returned %zu, *buffer_size=%zu, buffer %s; cbor_serialized_size is %zu", r, abn, ab ? "set" : "NULL", size);
  else {
    if (ta_block_size(ab) != size) vh_violation("serialize-alloc-block-size", "cbor_serialize_alloc returned a block of %zu bytes for a %zu-byte encoding", ta_block_size(ab), size);
    if (memcmp(ab, base, size)) vh_violation("serialize-alloc-bytes", "cbor_serialize_alloc bytes differ from cbor_serialize bytes");
  }
  if (ab && ab != (unsigned char*)(uintptr_t)0x1) ta_free(ab);
  ab = NULL;
  r = cbor_serialize_alloc(it, &ab, NULL);
  if (r != size || !ab) vh_violation("serialize-alloc-disagrees", "cbor_serialize_alloc with buffer_size=NULL returned %zu", r);
  if (ab) ta_free(ab);
  VH_MAX("max_item_size", size);
  free(base);
}

/* buffer sizes: every size around the longest head, then sizes at which an implementation might switch to a wider
 * store or a different code path (word, cache line, page) — the tail of the buffer beyond the returned length is the
 * caller's: it may already hold the payload the head is being written in front of */
static const size_t enc_sizes[] = {0, 1, 2, 3, 4, 5, 6, 7, 8, 9, 10, 11, 12, 15, 16, 17, 24, 31, 32, 33, 63, 64, 65, 127, 128, 255, 256, 4095, 4096, 65536};
#define N_ENC_SIZES (sizeof enc_sizes / sizeof enc_sizes[0])
static void c07_enc_case(int e, uint64_t v, size_t ni) {
  uint8_t desc[11] = {'E', (uint8_t)e};
  for (int i = 0; i < 8; i++) desc[2 + i] = (uint8_t)(v >> (56 - 8 * i));
  desc[10] = (uint8_t)ni;
  if (ni >= N_ENC_SIZES) return;
  size_t n = enc_sizes[ni];
  if (!vh_case(desc, 11)) return;
  /* the output starts at every alignment 0..7 over the cases; its end still abuts the red zone */
  unsigned omis = (unsigned)((v ^ (v >> 29) ^ (uint64_t)e * 5 ^ ni) & 7);
  uint8_t* blk_base = malloc(n + omis);
  uint8_t* blk = blk_base + omis;
  memset(blk, 0xcd, n);
  ta_reset_stats();
  size_t r = vh_call_encoder(e, v, blk, n);
  if (TA.requests) vh_violation("allocates", "cbor_encode_%s requested memory", enc_names[e]);
  if (r > n) vh_violation("returns-more-than-buffer", "cbor_encode_%s(%llu) into %zu bytes returned %zu", enc_names[e], (unsigned long long)v, n, r);
  if (r == 0) { for (size_t i = 0; i < n; i++) if (blk[i] != 0xcd) { vh_violation("write-on-failure", "cbor_encode_%s(%llu) returned 0 for a %zu-byte buffer but modified byte %zu", enc_names[e], (unsigned long long)v, n, i); break; } }
  else { for (size_t i = r; i < n; i++) if (blk[i] != 0xcd) { vh_violation("write-beyond-return", "cbor_encode_%s(%llu) returned %zu but modified byte %zu", enc_names[e], (unsigned long long)v, r, i); break; } }
  /* totality in n: once it fits it keeps fitting with the same bytes */
  size_t bigcap = n + 64 + 16;
  uint8_t* big = malloc(bigcap);
  memset(big, 0x5e, bigcap);
  size_t rb = vh_call_encoder(e, v, big, n);
  if (rb != r) vh_violation("nondeterministic", "cbor_encode_%s(%llu, n=%zu) returned %zu then %zu", enc_names[e], (unsigned long long)v, n, r, rb);
  for (size_t i = n; i < bigcap; i++) if (big[i] != 0x5e) { vh_violation("write-beyond-buffer", "cbor_encode_%s(%llu) with buffer_size=%zu modified byte %zu", enc_names[e], (unsigned long long)v, n, i); break; }
  if (r && rb == r && memcmp(big, blk, r)) vh_violation("nondeterministic", "cbor_encode_%s bytes differ between two calls", enc_names[e]);
  size_t rfull = vh_call_encoder(e, v, big, 16);
  if (rfull == 0 || rfull > 9) vh_violation("does-not-fit-16", "cbor_encode_%s(%llu) into 16 bytes returned %zu", enc_names[e], (unsigned long long)v, rfull);
  else if ((n >= rfull) != (r != 0) || (r && r != rfull)) vh_violation("wrong-return", "cbor_encode_%s(%llu): needs %zu bytes, buffer %zu, returned %zu", enc_names[e], (unsigned long long)v, rfull, n, r);
  if (rfull && rfull <= 9) for (size_t i = rfull; i < bigcap; i++) if (big[i] != 0x5e) { vh_violation("write-beyond-return", "cbor_encode_%s(%llu, n=16) returned %zu but modified byte %zu", enc_names[e], (unsigned long long)v, rfull, i); break; }
  free(big);
  free(blk_base);
  vh_nontrivial(vh_hash(desc, 11));
  VH_COUNT("encoder_calls", 3);
}

static void c07_encoders(void) {
  static const uint16_t v16[] = {0, 1, 23, 24, 255, 256, 0x1234, 0x7e00, 0x7c00, 0xfc00, 0x3c00, 0xffff};
  int unit = 0;
  for (int e = 0; e < E_N; e++) {
    int bits;
    switch (e) {
      case E_UINT8: case E_NEGINT8: case E_CTRL: bits = 8; break;
      case E_UINT16: case E_NEGINT16: case E_HALF: bits = 16; break;
      case E_BOOL: bits = 1; break;
      case E_NULL: case E_UNDEF: case E_BREAK: case E_IBSTART: case E_ISSTART: case E_IASTART: case E_IMSTART: bits = 0; break;
      case E_UINT32: case E_NEGINT32: case E_SINGLE: bits = 32; break;
      default: bits = 64; break;
    }
    uint64_t count = bits == 0 ? 1 : bits == 1 ? 2 : bits == 8 ? 256 : bits == 16 ? (O.thorough ? 65536 : sizeof v16 / sizeof v16[0] + 64) : (uint64_t)gen_nboundaries + 66;
    for (uint64_t vi = 0; vi < count; vi++, unit++) {
      if (unit % O.nshards != O.shard) continue;
      uint64_t v;
      if (bits <= 8) v = vi;
      else if (bits == 16) v = O.thorough ? vi : (vi < sizeof v16 / sizeof v16[0] ? v16[vi] : (vi * 1021) & 0xffff);
      else if (vi < (uint64_t)gen_nboundaries) v = gen_boundaries[vi];
      else { uint64_t k = vi - (uint64_t)gen_nboundaries; v = k < 65 ? (k == 64 ? ~0ull : ((uint64_t)1 << k)) : 0x0102030405060708ull; }
      if (bits == 32) v &= 0xffffffffull;
      for (size_t ni = 0; ni < N_ENC_SIZES; ni++) c07_enc_case(e, v, ni);
    }
  }
}

/* ------------------------------------------------------------------- C11 */
struct blockset { const void** p; size_t n, cap; size_t items; bool items_only; };
static void bs_cb(const void* p, size_t len, const char* what, void* ud) {
  (void)len;
  struct blockset* s = ud;
  if (s->items_only && strcmp(what, "item")) return;
  if (s->n == s->cap) { s->cap = s->cap ? s->cap * 2 : 64; s->p = realloc(s->p, s->cap * sizeof *s->p); }
  s->p[s->n++] = p;
  if (!strcmp(what, "item")) s->items++;
}
static int cmp_ptr(const void* a, const void* b) { uintptr_t x = (uintptr_t) * (void* const*)a, y = (uintptr_t) * (void* const*)b; return x < y ? -1 : x > y; }

static bool mutate(cbor_item_t* it, int* budget) {
  if (!it || *budget <= 0) return false;
  switch (cbor_typeof(it)) {
    case CBOR_TYPE_UINT: case CBOR_TYPE_NEGINT:
      (*budget)--;
      switch (cbor_int_get_width(it)) {
        case CBOR_INT_8: cbor_set_uint8(it, (uint8_t)(cbor_get_uint8(it) ^ 0x5)); break;
        case CBOR_INT_16: cbor_set_uint16(it, (uint16_t)(cbor_get_uint16(it) ^ 0x505)); break;
        case CBOR_INT_32: cbor_set_uint32(it, cbor_get_uint32(it) ^ 0x5050505u); break;
        default: cbor_set_uint64(it, cbor_get_uint64(it) ^ 0x505050505050505ull); break;
      }
      return true;
    case CBOR_TYPE_BYTESTRING:
      if (cbor_bytestring_is_definite(it)) { if (cbor_bytestring_length(it) && cbor_bytestring_handle(it)) { cbor_bytestring_handle(it)[0] ^= 0x20; (*budget)--; return true; } return false; }
      { bool any = false; for (size_t i = 0; i < cbor_bytestring_chunk_count(it); i++) any |= mutate(cbor_bytestring_chunks_handle(it)[i], budget);
        cbor_item_t* c = cbor_build_bytestring((const unsigned char*)"M", 1); if (c) { any |= cbor_bytestring_add_chunk(it, c); cbor_decref(&c); } return any; }
    case CBOR_TYPE_STRING:
      if (cbor_string_is_definite(it)) { if (cbor_string_length(it) && cbor_string_handle(it)) { cbor_string_handle(it)[0] ^= 0x01; (*budget)--; return true; } return false; }
      { bool any = false; for (size_t i = 0; i < cbor_string_chunk_count(it); i++) any |= mutate(cbor_string_chunks_handle(it)[i], budget);
        cbor_item_t* c = cbor_build_string("M"); if (c) { any |= cbor_string_add_chunk(it, c); cbor_decref(&c); } return any; }
    case CBOR_TYPE_ARRAY: {
      bool any = false;
      for (size_t i = 0; i < cbor_array_size(it); i++) any |= mutate(cbor_array_handle(it)[i], budget);
      cbor_item_t* x = cbor_build_uint16(4242);
      if (x) {
        if (cbor_array_size(it)) any |= cbor_array_replace(it, cbor_array_size(it) - 1, x);
        any |= cbor_array_push(it, x); /* succeeds for indefinite arrays and definite ones with spare room */
        cbor_decref(&x);
      }
      return any;
    }
    case CBOR_TYPE_MAP: {
      bool any = false;
      for (size_t i = 0; i < cbor_map_size(it); i++) { any |= mutate(cbor_map_handle(it)[i].key, budget); any |= mutate(cbor_map_handle(it)[i].value, budget); }
      cbor_item_t* k = cbor_build_uint8(1), * v = cbor_build_uint8(2);
      if (k && v) any |= cbor_map_add(it, (struct cbor_pair){.key = k, .value = v});
      if (k) cbor_decref(&k);
      if (v) cbor_decref(&v);
      return any;
    }
    case CBOR_TYPE_TAG: return mutate(it->metadata.tag_metadata.tagged_item, budget);
    case CBOR_TYPE_FLOAT_CTRL:
      (*budget)--;
      if (cbor_float_ctrl_is_ctrl(it)) { cbor_set_ctrl(it, cbor_ctrl_value(it) == 20 ? 21 : 20); return true; }
      if (cbor_float_get_width(it) == CBOR_FLOAT_16) cbor_set_float2(it, 0.5f);
      else if (cbor_float_get_width(it) == CBOR_FLOAT_32) cbor_set_float4(it, 12345.5f);
      else cbor_set_float8(it, -2.25);
      return true;
  }
  return false;
}

static size_t ser_of(cbor_item_t* it, uint8_t** out) {
  size_t sz = cbor_serialized_size(it);
  *out = malloc(sz ? sz : 1);
  return cbor_serialize(it, *out, sz);
}

static void c11_check(cbor_item_t** srcp) {
  cbor_item_t* src = *srcp;
  struct vh_buf s0 = {0}, s1 = {0}, c0 = {0}, d = {0};
  walk_dump_item(src, &s0, WD_REFCOUNTS | WD_IDENTITY);
  uint8_t* ser_src;
  size_t nser = ser_of(src, &ser_src);
  /* copying is a matter of bits: the thread's errno, rounding mode and FTZ/DAZ flags must not influence it */
  vh_ambient_scramble(vh_hash(ser_src, nser) >> 7);
  /* one source in four is a temporary handed on with cbor_move (reference count 0) while it is copied */
  bool lent = cbor_refcount(src) == 1 && ((vh_hash(ser_src, nser) >> 3) & 3) == 1;
  if (lent) (void)cbor_move(src);
  cbor_item_t* cp = cbor_copy(src);
  if (lent) {
    if (cbor_refcount(src) != 0) vh_violation("source-changed", "a source lent with reference count 0 has count %zu after cbor_copy", cbor_refcount(src));
    cbor_incref(src);
    VH_COUNT("sources_copied_with_reference_count_0", 1);
  }
  vh_ambient_restore();
  if (!cp) {
    if (TA.refused == 0) vh_violation("copy-null", "cbor_copy returned NULL although no allocation was refused");
    VH_COUNT("copy_refused", 1);
    free(ser_src); vb_free(&s0);
    return;
  }
  /* source intact (contents, refcounts, identity) */
  walk_dump_item(src, &s1, WD_REFCOUNTS | WD_IDENTITY);
  if (s0.n != s1.n || memcmp(s0.p, s1.p, s0.n)) {
    struct vh_buf pr = {0};
    walk_print_item(src, &pr);
    vh_violation("source-changed", "contents or reference counts of the source changed across cbor_copy: now %s", (char*)pr.p);
    vb_free(&pr);
  }
  /* equal shape and bytes */
  struct vh_buf a = {0}, b = {0};
  walk_dump_item(src, &a, 0);
  walk_dump_item(cp, &b, 0);
  if (a.n != b.n || memcmp(a.p, b.p, a.n)) {
    struct vh_buf p1 = {0}, p2 = {0};
    walk_print_item(src, &p1); walk_print_item(cp, &p2);
    vh_violation("copy-differs", "source %s, copy %s", (char*)p1.p, (char*)p2.p);
    vb_free(&p1); vb_free(&p2);
  }
  uint8_t* ser_cp;
  size_t ncp = ser_of(cp, &ser_cp);
  if (ncp != nser || memcmp(ser_cp, ser_src, nser)) vh_violation("copy-serializes-differently", "source serializes to %zu bytes %s, copy to %zu bytes %s", nser, vh_hex(ser_src, nser, 40), ncp, vh_hex(ser_cp, ncp, 40));
  /* reference count one on every node of the copy */
  if (!walk_all_rc1(cp)) {
    struct vh_buf pr = {0};
    walk_print_item(cp, &pr);
    vh_violation("copy-refcount-not-one", "a node of the copy has reference count != 1: %s", (char*)pr.p);
    vb_free(&pr);
  }
  /* no shared node or buffer; shared sub-items of the source come out unshared */
  struct blockset bs = {0}, bc = {0};
  walk_blocks(src, bs_cb, &bs);
  walk_blocks(cp, bs_cb, &bc);
  size_t cp_nodes_walked = bc.items;
  qsort(bs.p, bs.n, sizeof *bs.p, cmp_ptr);
  qsort(bc.p, bc.n, sizeof *bc.p, cmp_ptr);
  for (size_t i = 0, j = 0; i < bs.n && j < bc.n;) {
    if (bs.p[i] == bc.p[j]) { vh_violation("copy-shares-memory", "block %p is reachable from both the source and the copy", bs.p[i]); break; }
    if ((uintptr_t)bs.p[i] < (uintptr_t)bc.p[j]) i++; else j++;
  }
  size_t distinct_items = 0;
  {
    struct blockset only = {0};
    only.items_only = true;
    walk_blocks(cp, bs_cb, &only);
    qsort(only.p, only.n, sizeof *only.p, cmp_ptr);
    for (size_t k = 0; k < only.n; k++) if (k == 0 || only.p[k] != only.p[k - 1]) distinct_items++;
    free(only.p);
  }
  if (distinct_items < cp_nodes_walked) vh_violation("copy-has-shared-subitems", "the copy has %zu nodes but only %zu distinct node addresses: a sub-item is shared inside the copy", cp_nodes_walked, distinct_items);
  free(bs.p); free(bc.p);
  VH_COUNT("copies_compared", 1);
  VH_MAX("max_nodes_copied", cp_nodes_walked);

  /* independence: mutate the copy, the source must not notice */
  int budget = 64;
  bool mutated = mutate(cp, &budget);
  vb_reset(&s1);
  walk_dump_item(src, &s1, WD_REFCOUNTS | WD_IDENTITY);
  if (s0.n != s1.n || memcmp(s0.p, s1.p, s0.n)) vh_violation("mutating-copy-changes-source", "the source changed after the copy was modified");
  uint8_t* ser2;
  size_t n2 = ser_of(src, &ser2);
  if (n2 != nser || memcmp(ser2, ser_src, nser)) vh_violation("mutating-copy-changes-source", "the source serializes differently after the copy was modified");
  free(ser2);
  if (mutated) VH_COUNT("mutations_applied", 1);
  /* release the copy, then use the source */
  cbor_decref(&cp);
  if (cp) vh_violation("copy-not-released", "the copy's root survived the release of its only reference");
  vb_reset(&s1);
  walk_dump_item(src, &s1, WD_REFCOUNTS | WD_IDENTITY);
  if (s0.n != s1.n || memcmp(s0.p, s1.p, s0.n)) vh_violation("releasing-copy-changes-source", "the source changed after the copy was released");
  /* other order: copy again, mutate the source, the copy must not notice; then release the source and use the copy */
  cp = cbor_copy(src);
  if (cp) {
    walk_dump_item(cp, &c0, WD_REFCOUNTS | WD_IDENTITY);
    uint8_t* serc0; size_t nc0 = ser_of(cp, &serc0);
    budget = 64;
    mutate(src, &budget);
    struct vh_buf c1 = {0};
    walk_dump_item(cp, &c1, WD_REFCOUNTS | WD_IDENTITY);
    if (c0.n != c1.n || memcmp(c0.p, c1.p, c0.n)) vh_violation("mutating-source-changes-copy", "the copy changed after the source was modified");
    vb_free(&c1);
    cbor_decref(srcp);
    src = NULL;
    struct vh_buf c2 = {0};
    walk_dump_item(cp, &c2, WD_REFCOUNTS | WD_IDENTITY);
    if (c0.n != c2.n || memcmp(c0.p, c2.p, c0.n)) vh_violation("releasing-source-changes-copy", "the copy changed after the source was released");
    uint8_t* serc1; size_t nc1 = ser_of(cp, &serc1);
    if (nc1 != nc0 || memcmp(serc0, serc1, nc0)) vh_violation("releasing-source-changes-copy", "the copy serializes differently after the source was released");
    free(serc0); free(serc1);
    vb_free(&c2);
    cbor_decref(&cp);
  }
  free(ser_src); free(ser_cp);
  vb_free(&s0); vb_free(&s1); vb_free(&c0); vb_free(&a); vb_free(&b); vb_free(&d);
}

/* -------------------------------------- paired mutation (item and shadow) */
/* Applies the same edits to a libcbor tree and to its shadow through the public mutators, so that a second
 * serialization can be judged: anything cached from the first pass (sizes, counts, encodings) would now be stale. */
static uint64_t g_pair_mutations;
static void mutate_pair(cbor_item_t* it, rnode* sh, struct vh_rng* r, int depth) {
  if (!it || !sh || depth > 12) return;
  switch (sh->kind) {
    case R_UINT: case R_NEGINT: {
      static const uint64_t maxs[4] = {0xff, 0xffff, 0xffffffffull, ~0ull};
      uint64_t v = (vh_below(r, 2) ? vh_rand(r) : gen_boundaries[vh_below(r, (uint64_t)gen_nboundaries)]) & maxs[sh->width];
      switch (sh->width) { case 0: cbor_set_uint8(it, (uint8_t)v); break; case 1: cbor_set_uint16(it, (uint16_t)v); break; case 2: cbor_set_uint32(it, (uint32_t)v); break; default: cbor_set_uint64(it, v); }
      if (vh_below(r, 4) == 0) { if (sh->kind == R_UINT) { cbor_mark_negint(it); sh->kind = R_NEGINT; } else { cbor_mark_uint(it); sh->kind = R_UINT; } }
      sh->val = v;
      g_pair_mutations++;
      break;
    }
    case R_FLOAT: {
      /* the new value: random bits, or one that compares equal to / differs only in sign from the old one (setters that
       * skip "unchanged" values must compare bits, not numbers), or a zero, or an infinity */
      int how = (int)vh_below(r, 6);
      /* half of the edits are made while the client holds a second reference to the item, as when it was obtained with
       * cbor_array_get for editing in place */
      bool extra = vh_below(r, 2);
      if (extra) cbor_incref(it);
      if (sh->width == 1) {
        uint16_t h = how == 0 ? (uint16_t)(sh->val ^ 0x8000) : how == 1 ? 0x8000 : how == 2 ? 0x0000 : how == 3 ? 0x7c00 : (uint16_t)vh_rand(r);
        if (ref_is_nan16(h)) h = 0x3c00;
        uint32_t b = ref_half_to_single_bits(h); float f; memcpy(&f, &b, 4); cbor_set_float2(it, f); sh->val = h;
      } else if (sh->width == 2) {
        uint32_t b = how == 0 ? (uint32_t)(sh->val ^ 0x80000000u) : how == 1 ? 0x80000000u : how == 2 ? 0 : how == 3 ? 0xff800000u : (uint32_t)vh_rand(r);
        float f; memcpy(&f, &b, 4); cbor_set_float4(it, f); sh->val = b;
      } else {
        uint64_t b = how == 0 ? (sh->val ^ 0x8000000000000000ull) : how == 1 ? 0x8000000000000000ull : how == 2 ? 0 : how == 3 ? 0x7ff0000000000000ull : vh_rand(r);
        double d; memcpy(&d, &b, 8); cbor_set_float8(it, d); sh->val = b;
      }
      if (extra) { cbor_item_t* t2 = it; cbor_decref(&t2); }
      g_pair_mutations++;
      break;
    }
    case R_SIMPLE: {
      uint64_t v = 20 + vh_below(r, 4);
      if (cbor_is_bool(it) && v <= 21 && vh_below(r, 2)) cbor_set_bool(it, v == 21); else cbor_set_ctrl(it, (uint8_t)v);
      sh->val = v;
      g_pair_mutations++;
      break;
    }
    case R_BYTES: case R_TEXT:
      if (!sh->indef) {
        unsigned char* h = sh->kind == R_TEXT ? cbor_string_handle(it) : cbor_bytestring_handle(it);
        if (h && sh->len) {
          size_t at = vh_below(r, sh->len);
          uint8_t nb = (uint8_t)vh_rand(r);
          h[at] = nb; sh->bytes[at] = nb;
          /* re-attach the (same) block so that derived data such as the code point count follows the edit */
          /* ... and sometimes a shorter length: by one byte, to half, to one byte, to nothing (in-place truncation of an
           * item that may already sit inside a container or a chunked string) */
          size_t nl = sh->len;
          switch (vh_below(r, 7)) { case 3: nl = sh->len - 1; break; case 4: nl = sh->len / 2; break; case 5: nl = sh->len > 1 ? 1 : 0; break; case 6: nl = 0; break; default: break; }
          if (sh->kind == R_TEXT) cbor_string_set_handle(it, h, nl); else cbor_bytestring_set_handle(it, h, nl);
          sh->len = nl;
          g_pair_mutations++;
        }
      } else {
        for (size_t i = 0; i < sh->nkids; i++) if (vh_below(r, 2)) mutate_pair(sh->kind == R_TEXT ? cbor_string_chunks_handle(it)[i] : cbor_bytestring_chunks_handle(it)[i], sh->kids[i], r, depth + 1);
        if (vh_below(r, 2)) {
          cbor_item_t* c = sh->kind == R_TEXT ? cbor_build_string("+") : cbor_build_bytestring((const unsigned char*)"+", 1);
          if (c) {
            if (sh->kind == R_TEXT ? cbor_string_add_chunk(it, c) : cbor_bytestring_add_chunk(it, c)) { rnode* k = rn_new(sh->kind); k->len = 1; k->bytes = malloc(1); k->bytes[0] = '+'; rn_add(sh, k); g_pair_mutations++; }
            cbor_decref(&c);
          }
        }
      }
      break;
    case R_ARRAY: {
      size_t n = cbor_array_size(it);
      for (size_t i = 0; i < n && i < sh->nkids; i++) {
        if (sh->kids[i]->share_of) continue; /* shared items are edited once, through their first occurrence */
        bool shared_later = false;
        for (size_t j = i + 1; j < sh->nkids; j++) if (sh->kids[j]->share_of == i + 1) shared_later = true;
        if (shared_later) continue;
        if (vh_below(r, 2)) mutate_pair(cbor_array_handle(it)[i], sh->kids[i], r, depth + 1);
      }
      if (n && vh_below(r, 3) == 0) { /* replace a member that is not involved in sharing */
        size_t i = vh_below(r, n);
        bool involved = sh->kids[i]->share_of != 0;
        for (size_t j = 0; j < sh->nkids; j++) if (sh->kids[j]->share_of == i + 1) involved = true;
        cbor_item_t* x = cbor_build_uint16(4242);
        if (x && !involved) { if (cbor_array_replace(it, i, x)) { rn_free(sh->kids[i]); rnode* k = rn_new(R_UINT); k->width = 1; k->val = 4242; sh->kids[i] = k; g_pair_mutations++; } }
        if (x) cbor_decref(&x);
      }
      if (vh_below(r, 2)) { /* push: succeeds on indefinite arrays and on definite ones with spare capacity */
        cbor_item_t* x = cbor_build_negint8(9);
        if (x) { if (cbor_array_push(it, x)) { rnode* k = rn_new(R_NEGINT); k->val = 9; rn_add(sh, k); if (sh->extra_cap) sh->extra_cap--; g_pair_mutations++; } cbor_decref(&x); }
      }
      break;
    }
    case R_MAP: {
      size_t n = cbor_map_size(it);
      bool any_share = false;
      for (size_t j = 0; j < sh->nkids; j++) if (sh->kids[j]->share_of) any_share = true;
      if (!any_share) for (size_t i = 0; i < n && 2 * i + 1 < sh->nkids; i++) {
        if (vh_below(r, 2)) mutate_pair(cbor_map_handle(it)[i].key, sh->kids[2 * i], r, depth + 1);
        if (vh_below(r, 2)) mutate_pair(cbor_map_handle(it)[i].value, sh->kids[2 * i + 1], r, depth + 1);
      }
      if (vh_below(r, 2)) {
        cbor_item_t* k = cbor_build_uint8(1), * v = cbor_new_null();
        if (k && v && cbor_map_add(it, (struct cbor_pair){.key = k, .value = v})) { rnode* a = rn_new(R_UINT); a->val = 1; rnode* b = rn_new(R_SIMPLE); b->val = 22; rn_add(sh, a); rn_add(sh, b); if (sh->extra_cap) sh->extra_cap--; g_pair_mutations++; }
        if (k) cbor_decref(&k);
        if (v) cbor_decref(&v);
      }
      break;
    }
    case R_TAG:
      if (vh_below(r, 3) == 0) { /* re-tag: the old content's reference passes to the client */
        cbor_item_t* old = it->metadata.tag_metadata.tagged_item;
        cbor_item_t* x = cbor_build_float4(2.5f);
        if (x && old) { cbor_tag_set_item(it, x); cbor_decref(&old); cbor_decref(&x); rn_free(sh->kids[0]); rnode* k = rn_new(R_FLOAT); k->width = 2; k->val = 0x40200000u; sh->kids[0] = k; g_pair_mutations++; }
        else if (x) cbor_decref(&x);
      } else mutate_pair(it->metadata.tag_metadata.tagged_item, sh->kids[0], r, depth + 1);
      break;
  }
}

/* --------------------------------------------------------- tree sources */
static struct vh_rng* g_mut_rng; /* set by the api stage: mutate item and shadow together and judge a second serialization */
static void with_tree(cbor_item_t* it, const rnode* shadow) {
  cbor_item_t* held = it;
  if (P == 3) {
    c03_check(it, shadow);
    if (g_mut_rng) {
      /* serialized_size first, so that anything it might cache is in place before the edits */
      (void)cbor_serialized_size(it);
      mutate_pair(it, (rnode*)shadow, g_mut_rng, 0);
      c03_check(it, shadow);
    }
  }
  else if (P == 7) c07_check(it);
  else if (P == 11) c11_check(&held);
  if (held) cbor_decref(&held);
  if (ta_live_count()) { vh_violation("leak", "%zu block(s) still allocated after all references were dropped; events: %s", ta_live_count(), ta_ring_dump()); ta_forget_all(); }
}

/* descriptor 'D' + input bytes */
static void dec_case(const uint8_t* in, size_t n) {
  struct vh_buf d = {0};
  vb_u8(&d, 'D'); vb_put(&d, in, n);
  if (!vh_case(d.p, d.n)) { vb_free(&d); return; }
  struct rverdict z = ref_decode(in, n, LIM, RM_LAZY, true, NULL);
  if (z.code == RC_ACCEPT) {
    uint8_t* ex = vh_exact(in, n);
    struct cbor_load_result r;
    ta_reset_stats();
    cbor_item_t* it = cbor_load(ex, n, &r);
    free(ex);
    if (it) {
      VH_COUNT("trees.decoded", 1);
      vh_nontrivial(vh_hash(d.p, d.n));
      if (vh_sampling()) { struct vh_buf pr = {0}; walk_print_item(it, &pr); vh_sample_text("decoded tree %s", (char*)pr.p); vb_free(&pr); }
      with_tree(it, z.tree);
    } else VH_COUNT("skipped.load_failed", 1);
    rn_free(z.tree);
  } else VH_COUNT("skipped.not_well_formed", 1);
  vb_free(&d);
}
static void dec_cb(const uint8_t* p, size_t n, void* ud) { (void)ud; dec_case(p, n); }

/* descriptor 'A' + u64 unit + u64 seed */
rnode* ser_api_shadow(uint64_t u, uint64_t seed, struct vh_rng* r) {
  uint64_t nsys = gen_systematic_count();
  vh_rng_seed(r, seed * 0x51ed270b + u);
  rnode* t;
  if (u < nsys) t = gen_systematic(u);
  else {
    /* C03 is stated for the assigned simple values only; sizes, buffers and copies (C07, C11, C06's api scenarios) are for every item */
    struct gen_cfg cfg = {.max_nodes = 3 + (int)(u % 29), .max_depth = 7, .nonminimal = false, .assigned_simple_only = (P == 3)};
    t = gen_tree(r, &cfg);
  }
  if (t && u % 2) add_variation(t, r);
  return t;
}
static void api_case(uint64_t u, uint64_t seed) {
  uint8_t desc[17] = {'A'};
  for (int i = 0; i < 8; i++) { desc[1 + i] = (uint8_t)(u >> (56 - 8 * i)); desc[9 + i] = (uint8_t)(seed >> (56 - 8 * i)); }
  if (!vh_case(desc, 17)) return;
  struct vh_rng r;
  rnode* t = ser_api_shadow(u, seed, &r);
  if (!t) return;
  ta_reset_stats();
  cbor_item_t* it = build_v(t, &r);
  if (it) {
    VH_COUNT("trees.built", 1);
    vh_nontrivial(vh_hash(desc, 17));
    if (vh_sampling()) { struct vh_buf pr = {0}; walk_print_item(it, &pr); vh_sample_text("built tree %s", (char*)pr.p); vb_free(&pr); }
    g_mut_rng = (P == 3 && (u & 1)) ? &r : NULL;
    with_tree(it, t);
    g_mut_rng = NULL;
  } else VH_COUNT("skipped.build_refused", 1);
  rn_free(t);
}

static void stage_dec(void) {
  /* (1) every accepted input of <= 2 bytes (3 in thorough), (2) alphabet strings, (3) grammar items + neighbours */
  size_t N = O.thorough ? 3 : 2;
  uint8_t b[8];
  for (size_t len = 1; len <= N; len++) {
    uint64_t total = (uint64_t)1 << (8 * len);
    for (uint64_t v = 0; v < total; v++) {
      if ((int)((v >> (8 * (len - 1))) % (uint64_t)O.nshards) != O.shard) continue;
      for (size_t i = 0; i < len; i++) b[i] = (uint8_t)(v >> (8 * (len - 1 - i)));
      if (ref_reserved(b[0])) { v |= (((uint64_t)1 << (8 * (len - 1))) - 1); continue; }
      dec_case(b, len);
    }
  }
  size_t A = O.thorough ? 6 : 5;
  for (size_t len = N + 1; len <= A; len++) {
    uint64_t total = (uint64_t)1 << (4 * len);
    for (uint64_t v = 0; v < total; v++) {
      if ((int)((v >> (4 * (len - 2))) % (uint64_t)O.nshards) != O.shard) continue;
      for (size_t i = 0; i < len; i++) b[i] = gen_alphabet[(v >> (4 * (len - 1 - i))) & 15];
      dec_case(b, len);
    }
  }
  uint64_t nsys = gen_systematic_count();
  uint64_t nrand = O.budget ? O.budget : (O.thorough ? 200000 : 20000);
  struct vh_buf x = {0};
  for (uint64_t u = 0; u < nsys + nrand; u++) {
    if ((int)(u % (uint64_t)O.nshards) != O.shard) continue;
    struct vh_rng r;
    vh_rng_seed(&r, O.seed * 0x100000001b3ull + u);
    struct gen_cfg cfg = {.max_nodes = 3 + (int)(u % 37), .max_depth = 7, .nonminimal = true, .assigned_simple_only = true};
    rnode* t = u < nsys ? gen_systematic(u) : gen_tree(&r, &cfg);
    if (!t) continue;
    vb_reset(&x);
    ref_encode_src(t, &x);
    rn_free(t);
    dec_case(x.p, x.n);
    /* neighbours that stay well-formed give further trees (width switches, +-1 on lengths, duplicated heads) */
    if (P == 3 && x.n <= 200 && u % 4 == 0) gen_neighbours(x.p, x.n, false, dec_cb, NULL);
  }
  vb_free(&x);
}
static void stage_bigleaf(void) {
  uint64_t nb = gen_bigleaf_count();
  struct vh_buf x = {0};
  for (uint64_t u = 0; u < nb; u++) {
    if ((int)(u % (uint64_t)O.nshards) != O.shard) continue;
    rnode* t = gen_bigleaf(u);
    if (!t) continue;
    /* C11's independence check sorts and cross-checks every block of both trees: kept to trees of at most 20 000 nodes */
    if (P == 11 && rn_count(t) > 20002) { rn_free(t); VH_COUNT("bigleaf.skipped_too_many_nodes_for_the_disjointness_check", 1); continue; }
    vb_reset(&x);
    ref_encode_src(t, &x);
    rn_free(t);
    dec_case(x.p, x.n);
    VH_COUNT("bigleaf.items", 1);
  }
  vb_free(&x);
}
static void stage_api(void) {
  uint64_t nsys = gen_systematic_count();
  uint64_t nrand = O.budget ? O.budget : (O.thorough ? 200000 : 20000);
  for (uint64_t u = 0; u < nsys + nrand; u++) {
    if ((int)(u % (uint64_t)O.nshards) != O.shard) continue;
    api_case(u, O.seed);
  }
  vh_count_dyn("paired_mutations_applied_before_second_serialization", g_pair_mutations);
  vh_count_dyn("variants.chunks_filled_after_attach", g_late_filled);
  for (int i = 0; i < 8; i++) { char nm[48]; static const char* vn[] = {"ints_build", "ints_new_set", "handleless_strings", "set_handle", "build_string_z", "shared_subitems", "spare_capacity", "retagged"}; snprintf(nm, sizeof nm, "variants.%s", vn[i]); vh_count_dyn(nm, g_built_variants[i]); }
}

/* ---- stage "giant" (C07, C20): items whose encoding really exceeds 4 GiB, serialized into a real buffer. A byte count kept
 * in 32 bits anywhere on the way (a running offset, a remaining-room value, a chunk length) wraps here and nowhere else.
 * The tree shares one sub-item thousands of times, so only the output costs memory (about 4.5 GiB of touched pages; the
 * case is skipped, and counted as skipped, when the machine has less than 12 GiB available). */
#include <sys/mman.h>
#include <unistd.h>
static void giant_case(int kind) {
  uint8_t desc[2] = {'G', (uint8_t)kind};
  if (!vh_case(desc, 2)) return;
  long av = sysconf(_SC_AVPHYS_PAGES), ps = sysconf(_SC_PAGESIZE);
  if (av < 0 || ps < 0 || (unsigned long long)av * (unsigned long long)ps < (12ull << 30)) { VH_COUNT("giant.skipped_less_than_12GiB_available", 1); return; }
  static const char* const kn[] = {"chunked byte string of 4100 x 1 MiB chunks", "chunked text string of 4100 x 1 MiB chunks", "definite array of 70000 x 64 KiB byte strings", "definite byte string of 2^32+5 bytes", "definite map of 35000 pairs with 128 KiB text values"};
  size_t unit = kind <= 1 ? (size_t)1 << 20 : kind == 2 ? 65536 : kind == 4 ? 131072 : 0;
  size_t count = kind <= 1 ? 4100 : kind == 2 ? 70000 : kind == 4 ? 35000 : 0;
  cbor_item_t* it = NULL;
  cbor_item_t* sub = NULL;
  uint8_t* zero = NULL;
  size_t zlen = ((size_t)1 << 32) + 5;
  unsigned char* payload = NULL;
  if (kind != 3) {
    payload = malloc(unit);
    for (size_t i = 0; i < unit; i++) payload[i] = (uint8_t)('a' + (i * 7 + i / 251) % 26);
    sub = (kind == 1 || kind == 4) ? cbor_build_stringn((const char*)payload, unit) : cbor_build_bytestring(payload, unit);
    if (!sub) vh_die("giant: cannot build the shared sub-item");
  }
  bool ok = true;
  switch (kind) {
    case 0: case 1:
      it = kind == 0 ? cbor_new_indefinite_bytestring() : cbor_new_indefinite_string();
      for (size_t i = 0; i < count && ok; i++) ok = kind == 0 ? cbor_bytestring_add_chunk(it, sub) : cbor_string_add_chunk(it, sub);
      break;
    case 2:
      it = cbor_new_definite_array(count);
      for (size_t i = 0; i < count && ok; i++) ok = cbor_array_push(it, sub);
      break;
    case 3:
      zero = mmap(NULL, zlen, PROT_READ, MAP_PRIVATE | MAP_ANONYMOUS | MAP_NORESERVE, -1, 0);
      if (zero == MAP_FAILED) { VH_COUNT("giant.skipped_no_address_space", 1); return; }
      it = cbor_new_definite_bytestring();
      cbor_bytestring_set_handle(it, zero, zlen);
      break;
    default: {
      it = cbor_new_definite_map(count);
      cbor_item_t* key = cbor_build_uint8(7);
      for (size_t i = 0; i < count && ok; i++) ok = cbor_map_add(it, (struct cbor_pair){.key = key, .value = sub});
      cbor_decref(&key);
    }
  }
  if (!it || !ok) vh_die("giant: building the %s failed", kn[kind]);
  /* the exact mathematical size */
  size_t want = kind <= 1 ? 1 + count * (5 + unit) + 1 : kind == 2 ? 5 + count * (5 + unit) : kind == 3 ? 9 + zlen : 3 + count * (1 + 5 + unit);
  size_t size = cbor_serialized_size(it);
  if (size != want) vh_violation("size-wrong", "cbor_serialized_size of a %s is %zu, the exact total is %zu", kn[kind], size, want);
  size_t cap = want + 4096;
  uint8_t* out = mmap(NULL, cap, PROT_READ | PROT_WRITE, MAP_PRIVATE | MAP_ANONYMOUS | MAP_NORESERVE, -1, 0);
  if (out == MAP_FAILED) { VH_COUNT("giant.skipped_no_address_space", 1); }
  else {
    memset(out + want, 0x5e, 64);
    size_t w = cbor_serialize(it, out, want + 32);
    if (w != want) vh_violation("wrong-return", "cbor_serialize of a %s (%zu bytes) into a buffer of %zu returned %zu", kn[kind], want, want + 32, w);
    /* layout */
    size_t pos = 0;
    const char* bad = NULL;
    size_t badpos = 0;
#define EXPECT(b) do { if (!bad && out[pos] != (uint8_t)(b)) { bad = "byte"; badpos = pos; } pos++; } while (0)
    if (kind <= 1) {
      EXPECT(kind == 0 ? 0x5f : 0x7f);
      for (size_t i = 0; i < count && !bad; i++) {
        EXPECT(kind == 0 ? 0x5a : 0x7a); EXPECT(unit >> 24); EXPECT(unit >> 16); EXPECT(unit >> 8); EXPECT(unit);
        if (!bad && memcmp(out + pos, payload, unit)) { bad = "chunk payload"; badpos = pos; }
        pos += unit;
      }
      EXPECT(0xff);
    } else if (kind == 2) {
      EXPECT(0x9a); EXPECT(count >> 24); EXPECT(count >> 16); EXPECT(count >> 8); EXPECT(count);
      for (size_t i = 0; i < count && !bad; i++) {
        EXPECT(0x5a); EXPECT(unit >> 24); EXPECT(unit >> 16); EXPECT(unit >> 8); EXPECT(unit);
        if (!bad && memcmp(out + pos, payload, unit)) { bad = "member payload"; badpos = pos; }
        pos += unit;
      }
    } else if (kind == 3) {
      EXPECT(0x5b); for (int sh = 56; sh >= 0; sh -= 8) EXPECT(zlen >> sh);
      for (size_t i = 0; i < zlen && !bad; i += 4096) if (out[pos + i] != 0) { bad = "payload"; badpos = pos + i; }
      if (!bad && out[pos + zlen - 1] != 0) { bad = "payload"; badpos = pos + zlen - 1; }
      pos += zlen;
    } else {
      EXPECT(0xb9); EXPECT(count >> 8); EXPECT(count);
      for (size_t i = 0; i < count && !bad; i++) {
        EXPECT(0x07);
        EXPECT(0x7a); EXPECT(unit >> 24); EXPECT(unit >> 16); EXPECT(unit >> 8); EXPECT(unit);
        if (!bad && memcmp(out + pos, payload, unit)) { bad = "value payload"; badpos = pos; }
        pos += unit;
      }
    }
#undef EXPECT
    if (bad) vh_violation("bytes-differ", "cbor_serialize of a %s: wrong %s at output offset %zu (of %zu)", kn[kind], bad, badpos, want);
    for (size_t i = 32; i < 64; i++) if (out[want + i] != 0x5e) { vh_violation("write-beyond-buffer", "byte %zu beyond the %zu-byte buffer was modified", i - 32, want + 32); break; }
    /* one byte short: refused */
    size_t w2 = cbor_serialize(it, out, want - 1);
    if (w2 != 0) vh_violation("wrong-return", "cbor_serialize of a %s into a buffer one byte short returned %zu", kn[kind], w2);
    munmap(out, cap);
    VH_COUNT("giant.items_serialized", 1);
    VH_MAX("giant.max_encoding_bytes", want);
  }
  if (kind == 3) { cbor_bytestring_set_handle(it, NULL, 0); munmap(zero, zlen); }
  cbor_decref(&it);
  if (sub) cbor_decref(&sub);
  free(payload);
  if (ta_live_count()) { vh_violation("leak", "%zu block(s) left", ta_live_count()); ta_forget_all(); }
  vh_nontrivial(vh_hash(desc, 2));
}
static void stage_giant(void) {
  for (int kind = 0; kind < 5; kind++) {
    if (kind % O.nshards != O.shard) continue;
    if (!O.thorough && (kind == 1 || kind == 4)) continue;
    giant_case(kind);
  }
}

/* ---- stage "manynodes" (C11): trees of more than 2^24 (thorough: 2^25) nodes, copied. A per-call budget, a 24-bit
 * counter or a recursion that runs out only far beyond the sizes of the other stages shows here. Counting pass-through
 * allocator (libc malloc underneath): nothing is ever refused, so a NULL copy has no excuse. descriptor: 'N', kind */
static uint64_t mn_mallocs, mn_frees;
static void* mn_malloc(size_t n) { mn_mallocs++; return malloc(n); }
static void* mn_realloc(void* p, size_t n) { if (!p) mn_mallocs++; return realloc(p, n); }
static void mn_free(void* p) { if (p) mn_frees++; free(p); }
static void manynodes_case(int kind) {
  uint8_t desc[2] = {'N', (uint8_t)kind};
  if (!vh_case(desc, 2)) return;
  long av = sysconf(_SC_AVPHYS_PAGES), ps = sysconf(_SC_PAGESIZE);
  if (av < 0 || ps < 0 || (unsigned long long)av * (unsigned long long)ps < (10ull << 30)) { VH_COUNT("manynodes.skipped_less_than_10GiB_available", 1); return; }
  static const char* const kn[] = {"flat definite array of 2^24 + 5 integers", "4097 arrays of 4097 integers", "indefinite map of 2^23 + 3 pairs", "chunked byte string of 2^24 + 1 one-byte chunks", "flat indefinite array of 2^25 + 3 integers", "tag chain around a definite array of 2^24 + 5 integers"};
  cbor_set_allocs(mn_malloc, mn_realloc, mn_free);
  mn_mallocs = mn_frees = 0;
  cbor_item_t* it = NULL;
  bool ok = true;
  uint64_t nodes = 0;
  switch (kind) {
    case 0: case 4: case 5: {
      size_t N = kind == 4 ? ((size_t)1 << 25) + 3 : ((size_t)1 << 24) + 5;
      it = kind == 4 ? cbor_new_indefinite_array() : cbor_new_definite_array(N);
      for (size_t i = 0; i < N && ok && it; i++) ok = cbor_array_push(it, cbor_move((i & 1023) == 7 ? cbor_build_uint16((uint16_t)(i >> 8)) : cbor_build_uint8((uint8_t)i)));
      nodes = N + 1;
      if (kind == 5 && it && ok) for (int k = 0; k < 3; k++) { cbor_item_t* tg = cbor_build_tag(100 + (uint64_t)k, cbor_move(it)); if (!tg) { ok = false; break; } it = tg; nodes++; }
      break; }
    case 1:
      it = cbor_new_definite_array(4097);
      for (size_t i = 0; i < 4097 && ok && it; i++) {
        cbor_item_t* row = i & 1 ? cbor_new_indefinite_array() : cbor_new_definite_array(4097);
        for (size_t j = 0; j < 4097 && ok && row; j++) ok = cbor_array_push(row, cbor_move(cbor_build_uint8((uint8_t)(i + j))));
        ok = ok && row && cbor_array_push(it, cbor_move(row));
      }
      nodes = 1 + 4097ull * 4098;
      break;
    case 2: {
      size_t N = ((size_t)1 << 23) + 3;
      it = cbor_new_indefinite_map();
      for (size_t i = 0; i < N && ok && it; i++) ok = cbor_map_add(it, (struct cbor_pair){.key = cbor_move(cbor_build_uint32((uint32_t)i)), .value = cbor_move(cbor_build_bool(i & 1))});
      nodes = 2 * N + 1;
      break; }
    default: {
      size_t N = ((size_t)1 << 24) + 1;
      it = cbor_new_indefinite_bytestring();
      for (size_t i = 0; i < N && ok && it; i++) { unsigned char c = (unsigned char)i; ok = cbor_bytestring_add_chunk(it, cbor_move(cbor_build_bytestring(&c, 1))); }
      nodes = N + 1;
    }
  }
  if (!it || !ok) vh_die("manynodes: building the %s failed", kn[kind]);
  uint64_t m0 = mn_mallocs;
  cbor_item_t* cp = cbor_copy(it);
  if (!cp) vh_violation("copy-null-without-refusal", "cbor_copy of a %s (%llu nodes) returned NULL although the allocator refused nothing (%llu requests granted during the call)", kn[kind], (unsigned long long)nodes, (unsigned long long)(mn_mallocs - m0));
  else {
    if (cp == it) vh_violation("copy-shares-storage", "cbor_copy returned its argument");
    unsigned char *ea = NULL, *eb = NULL; size_t ca = 0, cb = 0;
    size_t na = cbor_serialize_alloc(it, &ea, &ca), nb = cbor_serialize_alloc(cp, &eb, &cb);
    if (!na || !ea) vh_die("manynodes: serializing the source failed");
    if (na != nb || !eb || memcmp(ea, eb, na)) vh_violation("copy-differs", "the copy of a %s serializes to %zu bytes, the source to %zu%s", kn[kind], nb, na, na == nb ? " (same length, different bytes)" : "");
    if (ea) mn_free(ea);
    if (eb) mn_free(eb);
    /* node count, reference counts, no storage shared (first and last members, and every 4099th) */
    size_t ns = walk_count_nodes(it), nc = walk_count_nodes(cp);
    if (ns != nodes) vh_die("manynodes: the source has %zu nodes, expected %llu", ns, (unsigned long long)nodes);
    if (nc != ns) vh_violation("copy-differs", "the copy of a %s has %zu nodes, the source %zu", kn[kind], nc, ns);
    if (cbor_refcount(cp) != 1) vh_violation("copy-refcount", "the copy's root has reference count %zu", cbor_refcount(cp));
    const cbor_item_t *a = it, *b = cp;
    while (cbor_isa_tag(a) && cbor_isa_tag(b)) { cbor_item_t* ta = cbor_tag_item(a); cbor_item_t* tb = cbor_tag_item(b); if (ta == tb) vh_violation("copy-shares-storage", "tagged item shared between source and copy"); a = ta; b = tb; cbor_decref(&ta); cbor_decref(&tb); }
    if (cbor_isa_array(a) && cbor_isa_array(b) && cbor_array_size(a) == cbor_array_size(b)) {
      cbor_item_t** ha = cbor_array_handle(a); cbor_item_t** hb = cbor_array_handle(b);
      if (ha == hb) vh_violation("copy-shares-storage", "member table shared");
      for (size_t i = 0; i < cbor_array_size(a); i += (i + 4099 < cbor_array_size(a) ? 4099 : 1)) {
        if (ha[i] == hb[i]) { vh_violation("copy-shares-storage", "member %zu is the same item in source and copy", i); break; }
        if (cbor_refcount(hb[i]) != 1) { vh_violation("copy-refcount", "member %zu of the copy has reference count %zu", i, cbor_refcount(hb[i])); break; }
      }
    }
    uint64_t f0 = mn_frees;
    cbor_decref(&cp);
    if (cp) vh_violation("copy-not-released", "copy root still alive after the only reference was dropped");
    if (mn_frees - f0 < nodes) vh_violation("leak", "releasing the copy of %llu nodes freed only %llu blocks", (unsigned long long)nodes, (unsigned long long)(mn_frees - f0));
  }
  cbor_decref(&it);
  if (mn_mallocs != mn_frees) vh_violation("leak", "%llu blocks obtained, %llu released over build, copy, serialize and release of a %s", (unsigned long long)mn_mallocs, (unsigned long long)mn_frees, kn[kind]);
  ta_install();
  VH_COUNT("manynodes.trees_copied", 1);
  vh_count_dyn("manynodes.nodes_copied", nodes);
  vh_nontrivial(vh_hash(desc, 2));
}
static void stage_manynodes(void) {
  for (int kind = 0; kind < 6; kind++) {
    if (kind % O.nshards != O.shard) continue;
    if (!O.thorough && kind >= 3) continue;
    manynodes_case(kind);
  }
}

static void setup(void) {
  P = atoi(O.prop + 1);
  if (P == 20 && !strcmp(O.stage, "giant")) P = 7; /* the giant items are C20's business as much as C07's */
  if (P != 3 && P != 7 && P != 11) vh_die("driver ser: --prop must be C03, C07 or C11");
  LIM = (size_t)O.L;
  g_any_float_in_half = P == 7 || P == 11;
  ref_selftest();
  ta_install();
  if (!ta_selftest()) vh_die("track allocator self-test failed");
}
static void ser_run(void) {
  setup();
  if (!strcmp(O.stage, "dec")) stage_dec();
  else if (!strcmp(O.stage, "api")) stage_api();
  else if (!strcmp(O.stage, "bigleaf")) stage_bigleaf();
  else if (!strcmp(O.stage, "enc") && P == 7) c07_encoders();
  else if (!strcmp(O.stage, "giant") && P == 7) stage_giant();
  else if (!strcmp(O.stage, "manynodes") && P == 11) stage_manynodes();
  else vh_die("driver ser: unknown stage '%s'", O.stage);
  if (P == 3) vh_set_rule("each case is an item tree (returned by cbor_load for an enumerated/generated input, or assembled by construction calls alongside a shadow tree); its serialization is compared byte for byte with the reference encoder's output for the shadow tree, reloaded, compared, and serialized again; non-trivial = a tree was obtained; distinct by 64-bit hash of the input / generator index");
  else if (P == 7) vh_set_rule("each tree case runs cbor_serialize for every buffer size 0..size+2 in exactly-sized heap blocks (ASan red zones) plus sentinel-image buffers, and cbor_serialize_alloc; each encoder case is an (encoder, value, n) triple with n = 0..12 and 18 larger sizes up to 65536, the buffer pre-filled with a sentinel and the whole tail beyond the returned length compared afterwards; non-trivial = a tree was obtained / the encoder was called; distinct by hash");
  else vh_set_rule("each case is an item tree that is copied; shape, bytes, refcounts, address-set disjointness and independence under mutation/release in both orders are checked; non-trivial = a tree was obtained and copied; distinct by hash of the input / generator index");
  vh_set_exhaustive(false);
}
static void ser_exec(const uint8_t* d, size_t n) {
  setup();
  if (n >= 1 && d[0] == 'D') { dec_case(d + 1, n - 1); return; }
  if (n == 17 && d[0] == 'A') { uint64_t u = 0, s = 0; for (int i = 0; i < 8; i++) { u = u << 8 | d[1 + i]; s = s << 8 | d[9 + i]; } api_case(u, s); return; }
  if (n == 2 && d[0] == 'G') { giant_case(d[1]); return; }
  if (n == 2 && d[0] == 'N' && P == 11) { manynodes_case(d[1]); return; }
  if (n == 11 && d[0] == 'E') { uint64_t v = 0; for (int i = 0; i < 8; i++) v = v << 8 | d[2 + i]; c07_enc_case(d[1], v, d[10]); return; }
  printf("unrecognised descriptor\n");
}
const struct vh_driver drv_ser = {"ser", ser_run, ser_exec, "serialization, sizes, copy over item trees (C03, C07, C11)"};
