/* d_float.c — drivers "float" (C15) and "utf8" (C16). */
#define _GNU_SOURCE
#include <sys/mman.h>
#include <unistd.h>
#include "vh.h"

static uint32_t fbits(float f) { uint32_t b; memcpy(&b, &f, 4); return b; }
static uint64_t dbits(double d) { uint64_t b; memcpy(&b, &d, 8); return b; }
static float f_of(uint32_t b) { float f; memcpy(&f, &b, 4); return f; }
static double d_of(uint64_t b) { double d; memcpy(&d, &b, 8); return d; }

static bool g_by_construction;
static uint64_t g_nan_cases, g_item_path, g_stream_path, g_totality, g_exact_half_from_single;

/* ------------------------------------------------------------------- C15 */
/* descriptor: width byte (2,4,8), pattern big-endian, flags byte (1 = also item path) */
static void float_case(int width, uint64_t pat, bool item_path) {
  uint8_t desc[10];
  desc[0] = (uint8_t)width;
  for (int i = 0; i < 8; i++) desc[1 + i] = (uint8_t)(pat >> (56 - 8 * i));
  desc[9] = item_path;
  if (!vh_case(desc, 10)) return;
  size_t n = 1 + (size_t)width;
  uint8_t enc[9];
  enc[0] = width == 2 ? 0xf9 : width == 4 ? 0xfa : 0xfb;
  for (int i = 0; i < width; i++) enc[1 + i] = (uint8_t)(pat >> (8 * (width - 1 - i)));
  uint8_t* buf = vh_exact(enc, n);
  bool is_nan = width == 2 ? ref_is_nan16((uint16_t)pat) : width == 4 ? ref_is_nan32((uint32_t)pat) : ref_is_nan64(pat);
  uint64_t want_bits = width == 2 ? ref_half_to_single_bits((uint16_t)pat) : pat; /* value as float (half, single) or double */
  uint8_t want_enc[9];
  memcpy(want_enc, enc, n);
  if (is_nan) {
    uint64_t c = width == 2 ? 0x7e00 : width == 4 ? 0x7fc00000u : 0x7ff8000000000000ull;
    for (int i = 0; i < width; i++) want_enc[1 + i] = (uint8_t)(c >> (8 * (width - 1 - i)));
    g_nan_cases++;
  }
  /* the result must not depend on ambient thread state (stale errno, rounding mode): every value involved is exactly representable */
  vh_ambient_scramble(vh_hash_mix(pat, (uint64_t)width) >> 7);
  /* ---- streaming path */
  int ctx;
  rec_expected_ctx = &ctx;
  rec_reset();
  struct cbor_decoder_result res = cbor_stream_decode(buf, n, &rec_table, &ctx);
  int want_slot = width == 2 ? S_FLOAT2 : width == 4 ? S_FLOAT4 : S_FLOAT8;
  if (res.status != CBOR_DECODER_FINISHED || rec_n != 1 || rec_ev[0].slot != want_slot || res.read != n)
    vh_violation("decode-failed", "float of width %d pattern %llx: status %d, %d callbacks, read %zu", width, (unsigned long long)pat, (int)res.status, rec_n, res.read);
  else {
    uint64_t got = rec_ev[0].arg;
    bool got_nan = width == 8 ? ref_is_nan64(got) : ref_is_nan32((uint32_t)got);
    /* observed, not judged: whether the decoder hands the NaN's payload bits through (see DESIGN.md §6.8) */
    if (is_nan && got_nan) { if (width == 2) VH_COUNT("nan.half_patterns_decoded_as_some_nan", 1); else if (got == pat) { if (width == 4) VH_COUNT("nan.single_payload_bits_preserved_by_decoder", 1); else VH_COUNT("nan.double_payload_bits_preserved_by_decoder", 1); } else { if (width == 4) VH_COUNT("nan.single_payload_bits_not_preserved_by_decoder", 1); else VH_COUNT("nan.double_payload_bits_not_preserved_by_decoder", 1); } }
    if (is_nan ? !got_nan : got != want_bits)
      vh_violation("decoded-value-differs", "width %d pattern %llx decoded to bits %llx, IEEE-754 says %llx%s", width, (unsigned long long)pat, (unsigned long long)got, (unsigned long long)want_bits, is_nan ? " (any NaN)" : "");
    /* encode the decoded value */
    uint8_t* out = malloc(n);
    memset(out, 0xee, n);
    size_t w = width == 2 ? cbor_encode_half(f_of((uint32_t)got), out, n) : width == 4 ? cbor_encode_single(f_of((uint32_t)got), out, n) : cbor_encode_double(d_of(got), out, n);
    if (w != n || memcmp(out, want_enc, n))
      vh_violation("reencoding-differs", "width %d pattern %llx: encoding the decoded value gave %zu bytes %s, expected %s", width, (unsigned long long)pat, w, vh_hex(out, n, 9), vh_hex(want_enc, n, 9));
    free(out);
    g_stream_path++;
  }
  /* ---- totality of the half encoder over single precision (UBSan armed), exactness where representable */
  if (width == 4) {
    uint8_t* out = malloc(3);
    memset(out, 0xee, 3);
    size_t w = cbor_encode_half(f_of((uint32_t)pat), out, 3);
    if (w != 3 || out[0] != 0xf9) vh_violation("half-encoder-not-total", "cbor_encode_half of single %08x returned %zu, first byte %02x", (uint32_t)pat, w, out[0]);
    else {
      uint16_t h;
      uint16_t gh = (uint16_t)(out[1] << 8 | out[2]);
      if (is_nan) { if (gh != 0x7e00) vh_violation("half-encoder-nan", "cbor_encode_half of NaN %08x wrote %04x, canonical is 7e00", (uint32_t)pat, gh); }
      else if (ref_single_to_half_exact((uint32_t)pat, &h)) {
        g_exact_half_from_single++;
        if (gh != h) vh_violation("half-encoder-inexact", "single %08x is exactly half %04x but cbor_encode_half wrote %04x", (uint32_t)pat, h, gh);
      }
    }
    free(out);
    g_totality++;
  }
  /* ---- item path */
  if (item_path) {
    struct cbor_load_result r;
    cbor_item_t* it = cbor_load(buf, n, &r);
    if (!it || r.read != n) vh_violation("load-failed", "cbor_load of %s failed (code %d)", vh_hex(buf, n, 9), (int)r.error.code);
    else {
      cbor_float_width fw = width == 2 ? CBOR_FLOAT_16 : width == 4 ? CBOR_FLOAT_32 : CBOR_FLOAT_64;
      if (!cbor_isa_float_ctrl(it) || !cbor_is_float(it) || cbor_float_get_width(it) != fw) vh_violation("item-width-differs", "item for %s does not have the recorded width", vh_hex(buf, n, 9));
      else {
        uint64_t got = width == 8 ? dbits(cbor_float_get_float8(it)) : fbits(width == 2 ? cbor_float_get_float2(it) : cbor_float_get_float4(it));
        bool got_nan = width == 8 ? ref_is_nan64(got) : ref_is_nan32((uint32_t)got);
        if (is_nan ? !got_nan : got != want_bits) vh_violation("item-value-differs", "item for %s holds bits %llx, IEEE-754 says %llx", vh_hex(buf, n, 9), (unsigned long long)got, (unsigned long long)want_bits);
        /* the width-agnostic getter widens exactly */
        double wide = cbor_float_get_float(it);
        double expect = width == 8 ? d_of(pat) : (double)f_of((uint32_t)want_bits);
        if (is_nan ? !(wide != wide) : dbits(wide) != dbits(expect)) vh_violation("item-value-differs", "cbor_float_get_float gives %llx, expected %llx", (unsigned long long)dbits(wide), (unsigned long long)dbits(expect));
        uint8_t* out = malloc(n);
        size_t w = cbor_serialize(it, out, n);
        if (w != n || memcmp(out, want_enc, n)) vh_violation("item-reencoding-differs", "serializing the item for %s gave %zu bytes %s, expected %s", vh_hex(buf, n, 9), w, vh_hex(out, n, 9), vh_hex(want_enc, n, 9));
        free(out);
      }
      cbor_decref(&it);
    }
    g_item_path++;
  }
  vh_ambient_restore();
  free(buf);
  if (g_by_construction) vh_nontrivial_distinct(); else vh_nontrivial(vh_hash(desc, 10));
}

static void float_run(void) {
  if (strcmp(O.prop, "C15")) vh_die("driver float: --prop must be C15");
  ref_selftest();
  ta_install();
  const char* st = O.stage;
  uint64_t unit = 0;
#define MINE() ((int)(unit++ % (uint64_t)O.nshards) == O.shard)
  static const uint32_t m23[] = {0, 1, 2, 3, 0x1000, 0x1fff, 0x2000, 0x2001, 0x3fffff, 0x400000, 0x400001, 0x555555, 0x2aaaaa, 0x7fe000, 0x7fefff, 0x7ff000, 0x7ffffe, 0x7fffff};
  if (!strcmp(st, "half")) {
    g_by_construction = true;
    for (uint32_t h = 0; h < 65536; h += 256) if (MINE()) for (uint32_t k = 0; k < 256; k++) float_case(2, h + k, true);
    vh_set_exhaustive(true);
  } else if (!strcmp(st, "single")) {
    if (O.thorough) {
      g_by_construction = true;
      /* all 2^32 patterns; item path for one in 64 */
      for (uint64_t hi = 0; hi < 65536; hi++) if (MINE()) for (uint64_t lo = 0; lo < 65536; lo++) float_case(4, hi << 16 | lo, (lo & 63) == 0);
      vh_set_exhaustive(true);
    } else {
      /* every 4096th pattern, plus every exponent x boundary mantissas x sign, plus the neighbourhood of every half-representable value */
      for (uint64_t p = 0; p < (1ull << 32); p += 4096 * 256) if (MINE()) for (uint64_t q = 0; q < 256; q++) float_case(4, p + q * 4096 + (q * 37 & 4095), (q & 7) == 0);
      for (uint32_t e = 0; e < 256; e++) if (MINE()) for (size_t mi = 0; mi < sizeof m23 / sizeof m23[0]; mi++) for (uint32_t sgn = 0; sgn < 2; sgn++) float_case(4, sgn << 31 | e << 23 | m23[mi], true);
      for (uint32_t e = 0; e < 256; e++) if (MINE()) for (uint32_t k = 0; k < 23; k++) { float_case(4, e << 23 | 1u << k, false); float_case(4, 0x80000000u | e << 23 | (0x7fffffu >> k), false); }
      for (uint32_t h = 0; h < 65536; h += 64) if (MINE()) for (uint32_t k = 0; k < 64; k++) { uint32_t s = ref_half_to_single_bits((uint16_t)(h + k)); float_case(4, s, false); float_case(4, s + 1, false); float_case(4, s - 1, false); float_case(4, s ^ 0x1000, false); }
      struct vh_rng r;
      vh_rng_seed(&r, O.seed ^ 0xc15);
      uint64_t nr = O.budget ? O.budget : 2000000;
      for (uint64_t c = 0; c < 64; c++) { if (MINE()) for (uint64_t i = 0; i < nr / 64; i++) float_case(4, vh_rand(&r) & 0xffffffffu, (i & 15) == 0); else for (uint64_t i = 0; i < nr / 64; i++) (void)vh_rand(&r); }
      vh_set_exhaustive(false);
    }
  } else if (!strcmp(st, "double")) {
    static const uint64_t m52[] = {0, 1, 2, 0x1fffffffffffull, 0x20000000000ull, 0x3ffffffffffull, 0x7ffffffffffffull, 0x8000000000000ull, 0x8000000000001ull, 0x5555555555555ull, 0xaaaaaaaaaaaaaull,
                                   0xffffe00000000ull, 0xfffff00000000ull, 0xffffffffffffeull, 0xfffffffffffffull, 0x0000020000000ull, 0x000001fffffffull};
    for (uint64_t e = 0; e < 2048; e++) if (MINE()) for (size_t mi = 0; mi < sizeof m52 / sizeof m52[0]; mi++) for (uint64_t sgn = 0; sgn < 2; sgn++) float_case(8, sgn << 63 | e << 52 | m52[mi], true);
    for (uint64_t e = 0; e < 2048; e += 7) if (MINE()) for (uint64_t k = 0; k < 52; k++) float_case(8, e << 52 | 1ull << k, false);
    /* doubles that are exactly singles / halves */
    for (uint32_t h = 0; h < 65536; h += 64) if (MINE()) for (uint32_t k = 0; k < 64; k++) { double dv = (double)f_of(ref_half_to_single_bits((uint16_t)(h + k))); float_case(8, dbits(dv), false); }
    struct vh_rng r;
    vh_rng_seed(&r, O.seed ^ 0xd15);
    uint64_t nr = O.budget ? O.budget : (O.thorough ? 200000000 : 1000000);
    for (uint64_t c = 0; c < 256; c++) { if (MINE()) for (uint64_t i = 0; i < nr / 256; i++) float_case(8, vh_rand(&r), (i & 15) == 0); else for (uint64_t i = 0; i < nr / 256; i++) (void)vh_rand(&r); }
    vh_set_exhaustive(false);
  } else vh_die("driver float: unknown stage '%s'", st);
  vh_count_dyn("nan_patterns", g_nan_cases);
  vh_count_dyn("streaming_path_checked", g_stream_path);
  vh_count_dyn("item_path_checked", g_item_path);
  vh_count_dyn("half_encoder_totality_checked", g_totality);
  vh_count_dyn("singles_exactly_half_representable", g_exact_half_from_single);
  vh_set_rule("each case is one bit pattern of one width: decoded by the streaming decoder (and by cbor_load for the item path), compared bit for bit with an independent IEEE-754 conversion, re-encoded and compared with the original bytes (NaN -> canonical quiet NaN); for singles also cbor_encode_half totality under UBSan and exactness where the value is half-representable; every case non-trivial; distinct by hash of (width, pattern)");
}
static void float_exec(const uint8_t* d, size_t n) {
  ref_selftest();
  ta_install();
  if (n != 10) { printf("bad C15 descriptor\n"); return; }
  uint64_t pat = 0;
  for (int i = 0; i < 8; i++) pat = pat << 8 | d[1 + i];
  float_case(d[0], pat, d[9] != 0);
}
const struct vh_driver drv_float = {"float", float_run, float_exec, "float decode/encode exactness (C15)"};

/* ------------------------------------------------------------------- C16 */
static uint64_t g_valid, g_invalid, g_entry[3], g_reattach, g_copy_route, g_cstring_route, g_chunk_route;

/* descriptor: entry mask byte, then the text bytes */
static void utf8_case(const uint8_t* s, size_t n, int entries) {
  struct vh_buf d = {0};
  vb_u8(&d, (uint8_t)entries); vb_put(&d, s, n);
  if (!vh_case(d.p, d.n)) { vb_free(&d); return; }
  size_t cnt = 0;
  bool valid = ref_utf8(s, n, &cnt);
  size_t want = valid ? cnt : 0;
  if (valid) g_valid++; else g_invalid++;
  uint8_t* ex = vh_exact(s, n);
  if (entries == 15) entries = 127; /* the full set of routes includes the copy, the NUL-terminated builder and the chunk */
  else if (!(entries & 14)) entries |= 32 | 64; /* the cheap one-route cases also go through the NUL-terminated builder and the chunk route */
  for (int e = 0; e < 7; e++) {
    if (!(entries & (1 << e))) continue;
    cbor_item_t* it = NULL;
    const char* how = e == 0 ? "cbor_build_stringn" : e == 1 ? "cbor_string_set_handle" : e == 2 ? "cbor_load" : e == 3 ? "cbor_string_set_handle on an item that held valid text before (same block, edited in place)"
                      : e == 4 ? "cbor_copy of an item whose bytes were edited in place through its handle (the copy is a new text string holding these bytes)"
                      : e == 5 ? "cbor_build_string (NUL-terminated)"
                      : "cbor_load as a chunk of an indefinite text string (after another chunk)";
    cbor_item_t* chunk_parent = NULL;
    if (e == 6) {
      /* a chunk is a definite text string of its own: its count is the strict count of ITS bytes, whatever the chunk
       * before it looks like (valid text, a truncated sequence, empty) */
      static const uint8_t prevs[4][3] = {{0x61, 0, 0}, {0xc3, 0, 0}, {0xe2, 0x82, 0}, {0, 0, 0}};
      static const size_t prevn[4] = {1, 1, 2, 0};
      unsigned pv = (unsigned)(vh_hash(s, n) >> 13) & 3;
      struct vh_buf in = {0};
      vb_u8(&in, 0x7f);
      vb_u8(&in, (uint8_t)(0x60 + prevn[pv])); vb_put(&in, prevs[pv], prevn[pv]);
      if (n < 24) vb_u8(&in, (uint8_t)(0x60 + n));
      else if (n < 256) { vb_u8(&in, 0x78); vb_u8(&in, (uint8_t)n); }
      else if (n < 65536) { vb_u8(&in, 0x79); vb_be(&in, n, 2); }
      else { vb_u8(&in, 0x7a); vb_be(&in, n, 4); }
      vb_put(&in, s, n);
      vb_u8(&in, 0xff);
      uint8_t* exin = vh_exact(in.p, in.n);
      struct cbor_load_result r;
      chunk_parent = cbor_load(exin, in.n, &r);
      if (!chunk_parent) vh_violation("text-rejected-for-content", "cbor_load rejected a chunked text string because of a chunk's content (%s), code %d", vh_hex(s, n, 24), (int)r.error.code);
      else if (!cbor_isa_string(chunk_parent) || !cbor_string_is_indefinite(chunk_parent) || cbor_string_chunk_count(chunk_parent) != 2) vh_violation("not-a-text-string", "a chunked text string of two chunks did not decode as one");
      else it = cbor_incref(cbor_string_chunks_handle(chunk_parent)[1]);
      free(exin);
      vb_free(&in);
      g_chunk_route++;
    } else if (e == 5) {
      /* the strlen-based builder: every sequence without an embedded NUL is a C string */
      if (n && memchr(s, 0, n)) continue;
      char* z = malloc(n + 1);
      if (n) memcpy(z, s, n);
      z[n] = 0;
      it = cbor_build_string(z);
      free(z);
      g_cstring_route++;
    } else if (e == 4) {
      /* the headers allow editing a string's data through its handle; a copy taken afterwards is a new item whose count
       * is a function of the bytes IT holds, whatever number the source still caches */
      cbor_item_t* src = NULL;
      { char* fill = malloc(n ? n : 1); memset(fill, 'a', n); src = cbor_build_stringn(fill, n); free(fill); }
      if (src) {
        if (n) memcpy(cbor_string_handle(src), s, n);
        it = cbor_copy(src);
        cbor_decref(&src);
        g_copy_route++;
      }
    } else if (e == 3) {
      /* attach valid text first, then edit the same block in place and attach it again */
      static const unsigned char valid[] = {0xc3, 0xa9, 0xe2, 0x82, 0xac, 'o', 'k'};
      /* two variants: the first attach has the same length as the second (same pointer, same length, edited bytes),
       * or a different one */
      bool same_len = n > 0 && (vh_hash(s, n) & 1);
      size_t first_len = same_len ? n : sizeof valid;
      size_t cap = n > first_len ? n : first_len;
      it = cbor_new_definite_string();
      unsigned char* h = ta_malloc(cap);
      if (it && h) {
        if (same_len) memset(h, 'a', n); else memcpy(h, valid, sizeof valid);
        cbor_string_set_handle(it, h, first_len);
        size_t c0 = same_len ? n : 4;
        if (cbor_string_codepoint_count(it) != c0) vh_violation("codepoint-count-differs", "valid %zu-byte text reports %zu code points, expected %zu", first_len, cbor_string_codepoint_count(it), c0);
        if (n) memcpy(h, s, n);
        cbor_string_set_handle(it, h, n);
      }
    } else if (e == 0) it = cbor_build_stringn((const char*)ex, n);
    else if (e == 1) {
      it = cbor_new_definite_string();
      unsigned char* h = ta_malloc(n);
      if (it && (h || n == 0)) { if (n) memcpy(h, s, n); cbor_string_set_handle(it, h, n); }
    } else {
      struct vh_buf in = {0};
      if (n < 24) vb_u8(&in, (uint8_t)(0x60 + n));
      else if (n < 256) { vb_u8(&in, 0x78); vb_u8(&in, (uint8_t)n); }
      else if (n < 65536) { vb_u8(&in, 0x79); vb_be(&in, n, 2); }
      else { vb_u8(&in, 0x7a); vb_be(&in, n, 4); }
      vb_put(&in, s, n);
      uint8_t* exin = vh_exact(in.p, in.n);
      struct cbor_load_result r;
      it = cbor_load(exin, in.n, &r);
      if (!it) vh_violation("text-rejected-for-content", "cbor_load rejected a definite text string (%s) with code %d: decoding must not depend on the text's content", vh_hex(s, n, 24), (int)r.error.code);
      else if (r.read != in.n) vh_violation("text-read-differs", "cbor_load consumed %zu of %zu bytes", r.read, in.n);
      free(exin);
      vb_free(&in);
    }
    if (!it) { if (chunk_parent) cbor_decref(&chunk_parent); continue; }
    if (e < 3) g_entry[e]++; else if (e == 3) g_reattach++;
    if (!cbor_isa_string(it) || !cbor_string_is_definite(it)) vh_violation("not-a-text-string", "%s did not produce a definite text string", how);
    else {
      size_t got = cbor_string_codepoint_count(it);
      if (got != want) vh_violation("codepoint-count-differs", "%s of %s: cbor_string_codepoint_count = %zu; RFC 3629 says %s, so it must be %zu", how, vh_hex(s, n, 24), got, valid ? "valid" : "invalid", want);
      if (cbor_string_length(it) != n) vh_violation("length-altered", "%s of a %zu-byte text reports length %zu", how, n, cbor_string_length(it));
      else if (n && memcmp(cbor_string_handle(it), s, n)) vh_violation("content-altered", "%s altered the bytes of the text", how);
    }
    cbor_decref(&it);
    if (chunk_parent) cbor_decref(&chunk_parent);
  }
  free(ex);
  if (ta_live_count()) { vh_violation("leak", "%zu block(s) left", ta_live_count()); ta_forget_all(); }
  if (n) { if (g_by_construction) vh_nontrivial_distinct(); else vh_nontrivial(vh_hash(d.p, d.n)); }
  vb_free(&d);
}

static size_t put_scalar(uint8_t* u, uint32_t cp) {
  if (cp < 0x80) { u[0] = (uint8_t)cp; return 1; }
  if (cp < 0x800) { u[0] = (uint8_t)(0xc0 | cp >> 6); u[1] = (uint8_t)(0x80 | (cp & 63)); return 2; }
  if (cp < 0x10000) { u[0] = (uint8_t)(0xe0 | cp >> 12); u[1] = (uint8_t)(0x80 | ((cp >> 6) & 63)); u[2] = (uint8_t)(0x80 | (cp & 63)); return 3; }
  u[0] = (uint8_t)(0xf0 | cp >> 18); u[1] = (uint8_t)(0x80 | ((cp >> 12) & 63)); u[2] = (uint8_t)(0x80 | ((cp >> 6) & 63)); u[3] = (uint8_t)(0x80 | (cp & 63));
  return 4;
}
static uint32_t rand_scalar(struct vh_rng* r) {
  static const uint32_t edges[] = {0, 0x7f, 0x80, 0x7ff, 0x800, 0xfff, 0x1000, 0xcfff, 0xd000, 0xd7ff, 0xe000, 0xfffd, 0xfffe, 0xffff, 0x10000, 0x3ffff, 0x40000, 0xfffff, 0x100000, 0x10ffff};
  switch (vh_below(r, 4)) {
    case 0: return edges[vh_below(r, sizeof edges / sizeof edges[0])];
    case 1: return (uint32_t)vh_below(r, 0x80);
    default: { uint32_t c = (uint32_t)vh_below(r, 0x110000); if (c >= 0xd800 && c <= 0xdfff) c -= 0x800; return c; }
  }
}

/* Texts of more than 2^32 code points: 2 MiB of valid UTF-8 (a memfd) mapped back to back over a reserved range, so the
 * text costs 2 MiB of memory however long it is. The block starts with 4096 ASCII bytes (a text may end inside them and
 * stay valid) followed by 16-byte groups of 10 code points (1-, 2-, 3- and 4-byte sequences and six ASCII bytes).
 * descriptor: 0x80, kind */
enum { GT_BLOCK = 2 << 20, GT_ASCII = 4096 };
static uint64_t g_giant_texts;
static void utf8_giant_case(int kind) {
  uint8_t desc[2] = {0x80, (uint8_t)kind};
  if (!vh_case(desc, 2)) return;
  static const char* const kn[] = {"2^32 + 3 ASCII bytes", "mixed 1-4 byte sequences, 2^32 + 5 code points", "mixed sequences cut inside the last multi-byte sequence, beyond byte 2^32 (invalid)", "2^32 - 1 ASCII bytes", "2^32 ASCII bytes", "2^33 + 1 ASCII bytes"};
  bool ascii = kind == 0 || kind >= 3;
  int fd = memfd_create("vh-giant-text", 0);
  if (fd < 0 || ftruncate(fd, GT_BLOCK)) vh_die("giant text: memfd failed");
  uint8_t* blk = mmap(NULL, GT_BLOCK, PROT_READ | PROT_WRITE, MAP_SHARED, fd, 0);
  if (blk == MAP_FAILED) vh_die("giant text: mmap of the block failed");
  for (size_t i = 0; i < GT_ASCII; i++) blk[i] = (uint8_t)('a' + i % 26);
  static const uint8_t grp[16] = {'x', 0xc3, 0xa9, 0xe2, 0x82, 0xac, 0xf0, 0x90, 0x8d, 0x88, 'q', 'r', 's', 't', 'u', 'v'};
  for (size_t i = GT_ASCII; i < GT_BLOCK; i++) blk[i] = ascii ? (uint8_t)('A' + i % 23) : grp[i & 15];
  size_t blk_cnt = 0;
  if (!ref_utf8(blk, GT_BLOCK, &blk_cnt)) vh_die("giant text: the block is not valid UTF-8");
  const uint64_t per_block = ascii ? GT_BLOCK : GT_ASCII + (uint64_t)(GT_BLOCK - GT_ASCII) / 16 * 10;
  if (blk_cnt != per_block) vh_die("giant text: block count %zu != %llu", blk_cnt, (unsigned long long)per_block);
  /* choose the length */
  uint64_t len, want;
  const uint64_t T = (uint64_t)1 << 32;
  if (ascii) { len = kind == 0 ? T + 3 : kind == 3 ? T - 1 : kind == 4 ? T : 2 * T + 1; want = len; }
  else {
    uint64_t blocks = (T + 5) / per_block, rest = T + 5 - blocks * per_block; /* rest < per_block code points from the next block */
    uint64_t tail;
    if (rest <= GT_ASCII) tail = rest;
    else { uint64_t g = (rest - GT_ASCII) / 10, m = (rest - GT_ASCII) % 10; static const unsigned off[10] = {0, 1, 3, 6, 10, 11, 12, 13, 14, 15}; tail = GT_ASCII + g * 16 + off[m]; }
    len = blocks * GT_BLOCK + tail; want = T + 5;
    if (kind == 2) { /* end two bytes into a 3- or 4-byte sequence */
      uint64_t pos = len; while ((pos & 15) != 3 || pos % GT_BLOCK < GT_ASCII) pos++; /* group offset 3 = the E2 lead */
      len = pos + 2; want = 0;
    }
  }
  size_t span = (size_t)((len + GT_BLOCK - 1) / GT_BLOCK) * GT_BLOCK;
  uint8_t* base = mmap(NULL, span, PROT_NONE, MAP_PRIVATE | MAP_ANONYMOUS | MAP_NORESERVE, -1, 0);
  if (base == MAP_FAILED) vh_die("giant text: reserving %zu bytes of address space failed", span);
  for (size_t o = 0; o < span; o += GT_BLOCK)
    if (mmap(base + o, GT_BLOCK, PROT_READ, MAP_SHARED | MAP_FIXED, fd, 0) == MAP_FAILED) vh_die("giant text: tiling failed at %zu", o);
  cbor_item_t* it = cbor_new_definite_string();
  if (!it) vh_die("giant text: item allocation failed");
  cbor_string_set_handle(it, base, (size_t)len);
  size_t got = cbor_string_codepoint_count(it);
  if (got != want)
    vh_violation("codepoint-count-differs", "cbor_string_set_handle of a %llu-byte text (%s): cbor_string_codepoint_count = %zu, must be %llu", (unsigned long long)len, kn[kind], got, (unsigned long long)want);
  if (cbor_string_length(it) != len) vh_violation("length-altered", "a %llu-byte text reports length %zu", (unsigned long long)len, cbor_string_length(it));
  if (cbor_string_handle(it) != base) vh_violation("content-altered", "the handle of the giant text is not the block attached");
  cbor_string_set_handle(it, NULL, 0); /* the mapping is not the allocator's to free */
  cbor_decref(&it);
  munmap(base, span); munmap(blk, GT_BLOCK); close(fd);
  if (ta_live_count()) { vh_violation("leak", "%zu block(s) left", ta_live_count()); ta_forget_all(); }
  g_giant_texts++;
  vh_nontrivial(vh_hash(desc, 2));
}

static void utf8_run(void) {
  if (strcmp(O.prop, "C16")) vh_die("driver utf8: --prop must be C16");
  ref_selftest();
  ta_install();
  if (!ta_selftest()) vh_die("track allocator self-test failed");
  const char* st = O.stage;
  if (!strcmp(st, "bytes")) {
    g_by_construction = true;
    size_t N = O.budget ? (size_t)O.budget : (O.thorough ? 4 : 3);
    size_t from = O.budget2 ? (size_t)O.budget2 : 0;
    uint8_t b[8];
    if (O.shard == 0 && from == 0) utf8_case(b, 0, 15);
    for (size_t len = from ? from : 1; len <= N; len++) {
      uint64_t per = (uint64_t)1 << (8 * (len - 1));
      for (unsigned first = 0; first < 256; first++) {
        if ((int)(first % (unsigned)O.nshards) != O.shard) continue;
        b[0] = (uint8_t)first;
        for (uint64_t v = 0; v < per; v++) {
          for (size_t i = 1; i < len; i++) b[i] = (uint8_t)(v >> (8 * (len - 1 - i)));
          utf8_case(b, len, len <= 3 ? 15 : ((v & 31) == 0 ? 15 : 1));
        }
      }
    }
    vh_set_exhaustive(true);
  } else if (!strcmp(st, "alpha")) {
    /* every string of up to N symbols over 8 UTF-8-significant bytes: leads of each width, continuations, the
     * second bytes that decide overlong / surrogate / out-of-range, ASCII. Reaches lengths the byte sweep cannot,
     * so DFA-state x position interactions (strides, fast paths, look-ahead) are exercised. */
    /* three alphabets: the general one; the surrogate region (ED with second bytes on both sides of A0 and of B0: lone
     * and paired surrogates, CESU-8 pairs); the top of the range (F4 8F/90, F0 8F/90, E0 9F/A0 boundaries) */
    static const uint8_t als[3][8] = {{0x61, 0xc3, 0xa9, 0xe2, 0x82, 0xf0, 0x90, 0xed},
                                      {0xed, 0xa0, 0xaf, 0xb0, 0xbf, 0x80, 0x9f, 0x41},
                                      {0xf4, 0x8f, 0x90, 0xbf, 0x80, 0xf0, 0xe0, 0xa0}};
    size_t N = O.budget ? (size_t)O.budget : (O.thorough ? 9 : 7);
    g_by_construction = false;
    uint8_t b[16];
    for (int ai = 0; ai < 3; ai++) {
      const uint8_t* al = als[ai];
      size_t Na = ai == 0 ? N : (N > 8 ? 8 : N);
      for (size_t len = 4; len <= Na; len++) {
        uint64_t total = (uint64_t)1 << (3 * len);
        for (uint64_t v = 0; v < total; v++) {
          if ((int)((v >> (3 * (len - 2))) % (uint64_t)O.nshards) != O.shard) { v |= ((uint64_t)1 << (3 * (len - 2))) - 1; continue; }
          for (size_t i = 0; i < len; i++) b[i] = al[(v >> (3 * (len - 1 - i))) & 7];
          utf8_case(b, len, (v & 15) == 0 ? 15 : 1);
        }
      }
    }
    vh_set_exhaustive(false);
  } else if (!strcmp(st, "faults")) {
    uint64_t nt = O.budget ? O.budget : (O.thorough ? 200000 : 20000);
    uint8_t txt[600], mut[640];
    for (uint64_t u = 0; u < nt; u++) {
      if ((int)(u % (uint64_t)O.nshards) != O.shard) continue;
      struct vh_rng r;
      vh_rng_seed(&r, O.seed * 0xc16 + u);
      size_t ns = 1 + vh_below(&r, u % 50 == 0 ? 120 : 9), n = 0;
      size_t starts[130];
      for (size_t i = 0; i < ns; i++) { starts[i] = n; n += put_scalar(txt + n, rand_scalar(&r)); }
      starts[ns] = n;
      utf8_case(txt, n, 15);
      /* one injected fault at every scalar position */
      for (size_t i = 0; i <= ns; i++) {
        static const uint8_t faults[][4] = {{0xc0, 0x80}, {0xc1, 0xbf}, {0xe0, 0x80, 0x80}, {0xe0, 0x9f, 0xbf}, {0xf0, 0x80, 0x80, 0x80}, {0xf0, 0x8f, 0xbf, 0xbf}, {0xed, 0xa0, 0x80}, {0xed, 0xbf, 0xbf},
                                            {0xf4, 0x90, 0x80, 0x80}, {0xf5, 0x80, 0x80, 0x80}, {0x80}, {0xbf}, {0xfe}, {0xff}, {0xc2}, {0xe1, 0x80}, {0xf1, 0x80, 0x80}, {0xf8, 0x88, 0x80, 0x80}};
        static const uint8_t flen[] = {2, 2, 3, 3, 4, 4, 3, 3, 4, 4, 1, 1, 1, 1, 1, 2, 3, 4};
        size_t k = vh_below(&r, sizeof flen);
        size_t at = starts[i];
        memcpy(mut, txt, at);
        memcpy(mut + at, faults[k], flen[k]);
        memcpy(mut + at + flen[k], txt + at, n - at);
        utf8_case(mut, n + flen[k], (u & 3) == 0 ? 15 : 9);
        /* two faults side by side: invalid pieces that only look like something when adjacent (a high and a low surrogate
         * form a CESU-8 pair, two halves of different scalars, an overlong lead before a stray continuation) */
        if ((u & 7) == 0 || i == 0) {
          size_t k2 = vh_below(&r, sizeof flen);
          memcpy(mut, txt, at);
          memcpy(mut + at, faults[k], flen[k]);
          memcpy(mut + at + flen[k], faults[k2], flen[k2]);
          memcpy(mut + at + flen[k] + flen[k2], txt + at, n - at);
          utf8_case(mut, n + flen[k] + flen[k2], 1);
        }
        /* truncate the scalar that starts here */
        if (i < ns && starts[i + 1] - at > 1) { size_t cut = 1 + vh_below(&r, starts[i + 1] - at - 1); memcpy(mut, txt, at + cut); memcpy(mut + at + cut, txt + starts[i + 1], n - starts[i + 1]); utf8_case(mut, n - (starts[i + 1] - at - cut), 1); }
      }
      /* split a multi-byte scalar: its lead byte(s), then a run of other valid scalars or ASCII, then its remaining continuation bytes */
      for (size_t i = 0; i < ns; i++) {
        size_t at = starts[i], sl = starts[i + 1] - at;
        if (sl < 2) continue;
        for (size_t run = 1; run <= 9; run += (run < 5 ? 1 : 4)) {
          size_t cut = 1 + vh_below(&r, sl - 1), mn = 0;
          memcpy(mut, txt, at + cut); mn = at + cut;
          for (size_t k = 0; k < run; k++) { if (vh_below(&r, 3)) mut[mn++] = (uint8_t)('a' + k); else mn += put_scalar(mut + mn, rand_scalar(&r)); }
          memcpy(mut + mn, txt + at + cut, n - at - cut); mn += n - at - cut;
          utf8_case(mut, mn, 1);
        }
      }
      /* every proper prefix (truncation in the middle of a sequence is invalid) */
      if (n <= 40) for (size_t k = 1; k < n; k++) utf8_case(txt, k, 1);
    }
    /* long texts: 2- and 4-byte length heads */
    if (O.shard == 0) {
      static const size_t lens[] = {23, 24, 255, 256, 65535, 65536, 70001};
      for (size_t li = 0; li < sizeof lens / sizeof lens[0]; li++) {
        uint8_t* big = malloc(lens[li] + 4);
        size_t n = 0;
        struct vh_rng r;
        vh_rng_seed(&r, lens[li]);
        while (n + 4 <= lens[li]) n += put_scalar(big + n, rand_scalar(&r));
        while (n < lens[li]) big[n++] = 'x';
        utf8_case(big, n, 7);
        big[n / 2] = 0xff;
        utf8_case(big, n, 7);
        free(big);
      }
    }
    vh_set_exhaustive(false);
  } else if (!strcmp(st, "giant")) {
    int nk = O.thorough ? 6 : 3;
    for (int k = 0; k < nk; k++) if (k % O.nshards == O.shard) utf8_giant_case(k);
    vh_set_exhaustive(false);
  } else vh_die("driver utf8: unknown stage '%s'", st);
  vh_count_dyn("giant_texts_of_2^32_code_points_or_more", g_giant_texts);
  vh_count_dyn("valid_texts", g_valid);
  vh_count_dyn("invalid_texts", g_invalid);
  vh_count_dyn("entry.build_stringn", g_entry[0]);
  vh_count_dyn("entry.set_handle", g_entry[1]);
  vh_count_dyn("entry.load", g_entry[2]);
  vh_count_dyn("entry.set_handle_again_on_same_item", g_reattach);
  vh_count_dyn("entry.copy_of_item_edited_in_place", g_copy_route);
  vh_count_dyn("entry.build_string_nul_terminated", g_cstring_route);
  vh_count_dyn("entry.chunk_of_an_indefinite_string", g_chunk_route);
  vh_set_rule("each case is a byte sequence attached as a definite text string through build_stringn / set_handle / cbor_load / a second set_handle on an item that held valid text; the reported code point count is compared with an independent RFC 3629 validator (count if valid, else 0), and length and bytes must be unchanged; non-trivial = non-empty sequence; distinct by construction in the exhaustive sweep (hashed)");
}
static void utf8_exec(const uint8_t* d, size_t n) {
  ref_selftest();
  ta_install();
  if (n < 1) return;
  if (n == 2 && d[0] == 0x80) { utf8_giant_case(d[1]); return; }
  utf8_case(d + 1, n - 1, d[0]);
}
const struct vh_driver drv_utf8 = {"utf8", utf8_run, utf8_exec, "UTF-8 code point counts (C16)"};
