/* vh_ref.c — reference model, written from RFC 8949 (§3, Appendix C, Appendix D)
 * and RFC 3629 (§4).  Shares no code, tables or headers with libcbor (vh.h pulls
 * in cbor.h only for the other modules; nothing from it is used here).
 *
 * Profile switches that the properties name: the only simple values are
 * false/true/null/undefined (E0-F3 and F8 are "unsupported initial bytes");
 * nesting limit L counts items that stay open (arrays/maps with n>0,
 * indefinite containers, tags, chunked strings). */
#include <math.h>

#include "vh.h"

const char* const rslot_names[S_NSLOTS] = {
    "uint8", "uint16", "uint32", "uint64", "negint8", "negint16", "negint32", "negint64",
    "byte_string_start", "byte_string", "string", "string_start", "indef_array_start", "array_start",
    "indef_map_start", "map_start", "tag", "float2", "float4", "float8", "undefined", "null", "boolean", "indef_break"};

/* ------------------------------------------------------------------ rnodes */
rnode* rn_new(int kind) {
  rnode* n = calloc(1, sizeof *n);
  if (!n) vh_die("rn_new: out of memory");
  n->kind = (uint8_t)kind;
  n->headw = 255;
  return n;
}
void rn_add(rnode* p, rnode* k) {
  if (p->nkids == p->cap) {
    p->cap = p->cap ? p->cap * 2 : 4;
    p->kids = realloc(p->kids, p->cap * sizeof *p->kids);
    if (!p->kids) vh_die("rn_add: out of memory");
  }
  p->kids[p->nkids++] = k;
}
void rn_free(rnode* n) {
  /* iterative: trees can be thousands of levels deep */
  if (!n) return;
  rnode** st = NULL;
  size_t sn = 0, sc = 0;
#define PUSH(x) do { if (sn == sc) { sc = sc ? sc * 2 : 64; st = realloc(st, sc * sizeof *st); } st[sn++] = (x); } while (0)
  PUSH(n);
  while (sn) {
    rnode* c = st[--sn];
    for (size_t i = 0; i < c->nkids; i++) PUSH(c->kids[i]);
    free(c->kids);
    free(c->bytes);
    free(c);
  }
  free(st);
#undef PUSH
}
rnode* rn_clone(const rnode* n) {
  rnode* c = rn_new(n->kind);
  *c = *n;
  c->kids = NULL; c->nkids = c->cap = 0;
  if (n->bytes || n->kind == R_BYTES || n->kind == R_TEXT) {
    c->bytes = malloc(n->len ? n->len : 1);
    if (n->len) memcpy(c->bytes, n->bytes, n->len);
  }
  for (size_t i = 0; i < n->nkids; i++) rn_add(c, rn_clone(n->kids[i]));
  return c;
}
size_t rn_count(const rnode* n) {
  size_t c = 1;
  for (size_t i = 0; i < n->nkids; i++) c += rn_count(n->kids[i]);
  return c;
}
size_t rn_depth(const rnode* n) {
  /* frames needed while decoding n: containers with members, indefinite items, tags */
  bool opens = false;
  switch (n->kind) {
    case R_ARRAY: case R_MAP: opens = n->indef || n->nkids > 0; break;
    case R_BYTES: case R_TEXT: opens = n->indef; break;
    case R_TAG: opens = true; break;
    default: break;
  }
  size_t d = 0;
  for (size_t i = 0; i < n->nkids; i++) { size_t k = rn_depth(n->kids[i]); if (k > d) d = k; }
  return d + (opens ? 1 : 0);
}

/* --------------------------------------------------------------- tokeniser */
bool ref_reserved(uint8_t ib) {
  unsigned mt = ib >> 5, ai = ib & 31;
  if (ai >= 28 && ai <= 30) return true;                 /* reserved additional information */
  if (ai == 31 && (mt == 0 || mt == 1 || mt == 6)) return true; /* no indefinite ints/tags */
  if (mt == 7 && ai < 20) return true;                   /* unassigned simple values: outside the profile */
  if (mt == 7 && ai == 24) return true;                  /* one-byte simple value: outside the profile */
  return false;
}

struct rtoken ref_tokenize(const uint8_t* in, size_t size) {
  struct rtoken t;
  memset(&t, 0, sizeof t);
  t.slot = -1;
  if (size == 0) { t.status = RT_NEDATA; t.full = 1; t.head_len = 1; return t; }
  uint8_t ib = in[0];
  unsigned mt = ib >> 5, ai = ib & 31;
  if (ref_reserved(ib)) { t.status = RT_ERROR; return t; }
  size_t argn = ai < 24 ? 0 : ai == 24 ? 1 : ai == 25 ? 2 : ai == 26 ? 4 : ai == 27 ? 8 : 0;
  t.head_len = 1 + argn;
  t.full = t.head_len;
  if (size < t.head_len) { t.status = RT_NEDATA; return t; }
  uint64_t arg = ai;
  if (argn) {
    arg = 0;
    for (size_t i = 0; i < argn; i++) arg = (arg << 8) | in[1 + i];
  }
  t.arg = arg;
  int w = ai < 24 ? 0 : (int)(ai - 24); /* 0:imm/1B 1:2B 2:4B 3:8B, with imm and 1B both "8-bit" */
  if (ai < 24) w = 0; else w = (int)(ai - 24);
  switch (mt) {
    case 0: t.slot = S_UINT8 + w; break;
    case 1: t.slot = S_NEGINT8 + w; break;
    case 2:
    case 3:
      if (ai == 31) { t.slot = mt == 2 ? S_BSTR_START : S_STR_START; t.arg = 0; break; }
      t.slot = mt == 2 ? S_BSTR : S_STR;
      t.payload_off = t.head_len;
      t.full = (unsigned __int128)t.head_len + arg;
      if (t.full > size) { t.status = RT_NEDATA; return t; }
      t.status = RT_FINISHED;
      t.read = (size_t)t.full;
      return t;
    case 4: if (ai == 31) { t.slot = S_INDEF_ARRAY; t.arg = 0; } else t.slot = S_ARRAY; break;
    case 5: if (ai == 31) { t.slot = S_INDEF_MAP; t.arg = 0; } else t.slot = S_MAP; break;
    case 6: t.slot = S_TAG; break;
    case 7:
      switch (ai) {
        case 20: t.slot = S_BOOL; t.arg = 0; break;
        case 21: t.slot = S_BOOL; t.arg = 1; break;
        case 22: t.slot = S_NULL; t.arg = 0; break;
        case 23: t.slot = S_UNDEF; t.arg = 0; break;
        case 25: t.slot = S_FLOAT2; break;
        case 26: t.slot = S_FLOAT4; break;
        case 27: t.slot = S_FLOAT8; break;
        case 31: t.slot = S_BREAK; t.arg = 0; break;
        default: vh_die("ref_tokenize: unreachable simple %u", ai);
      }
      break;
  }
  t.status = RT_FINISHED;
  t.read = t.head_len;
  return t;
}

/* ----------------------------------------------------------------- decoder */
enum { F_DEFARR, F_DEFMAP, F_INDEFARR, F_INDEFMAP, F_TAG, F_CHUNKB, F_CHUNKT };
struct frame { uint8_t kind; uint8_t parity; uint64_t remaining; rnode* node; };

void rheads_free(struct rheads* h) {
  free(h->start); free(h->end); free(h->arg); free(h->ib);
  memset(h, 0, sizeof *h);
}
static void rheads_add(struct rheads* h, size_t s, size_t e, uint64_t arg, uint8_t ib) {
  if (h->n == h->cap) {
    h->cap = h->cap ? h->cap * 2 : 32;
    h->start = realloc(h->start, h->cap * sizeof *h->start);
    h->end = realloc(h->end, h->cap * sizeof *h->end);
    h->arg = realloc(h->arg, h->cap * sizeof *h->arg);
    h->ib = realloc(h->ib, h->cap);
  }
  h->start[h->n] = s; h->end[h->n] = e; h->arg[h->n] = arg; h->ib[h->n] = ib;
  h->n++;
}

struct rverdict ref_decode(const uint8_t* in, size_t size, size_t L, int mode, bool want_tree, struct rheads* heads) {
  struct rverdict v;
  memset(&v, 0, sizeof v);
  if (heads) heads->n = 0;
  if (size == 0) { v.code = RC_NODATA; return v; }
  struct frame* st = NULL;
  size_t sn = 0, sc = 0;
  rnode* root = NULL;
  size_t pos = 0;
#define FAIL(c, p) do { v.code = (c); v.pos = (p); goto out; } while (0)
  for (;;) {
    if (pos == size) FAIL(RC_NOTENOUGHDATA, pos); /* missing head */
    uint8_t b = in[pos];
    if (ref_reserved(b)) FAIL(RC_MALFORMATED, pos); /* decided on the initial byte alone */
    struct rtoken t = ref_tokenize(in + pos, size - pos);
    if (t.status == RT_NEDATA) FAIL(RC_NOTENOUGHDATA, pos); /* incomplete head or payload */
    size_t end = pos + t.read;
    v.heads++;
    if (heads) rheads_add(heads, pos, end, t.arg, b);
    struct frame* top = sn ? &st[sn - 1] : NULL;
    bool opens = false;
    int fkind = -1;
    switch (t.slot) {
      case S_ARRAY: if (t.arg > 0) { opens = true; fkind = F_DEFARR; } break;
      case S_MAP: if (t.arg > 0) { opens = true; fkind = F_DEFMAP; } break;
      case S_INDEF_ARRAY: opens = true; fkind = F_INDEFARR; break;
      case S_INDEF_MAP: opens = true; fkind = F_INDEFMAP; break;
      case S_TAG: opens = true; fkind = F_TAG; break;
      case S_BSTR_START: opens = true; fkind = F_CHUNKB; break;
      case S_STR_START: opens = true; fkind = F_CHUNKT; break;
      default: break;
    }
    rnode* item = NULL;
    if (top && (top->kind == F_CHUNKB || top->kind == F_CHUNKT)) {
      if (t.slot == S_BREAK) { item = top->node; sn--; goto completed; }
      bool same = (top->kind == F_CHUNKB && t.slot == S_BSTR) || (top->kind == F_CHUNKT && t.slot == S_STR);
      if (same) {
        if (want_tree) {
          rnode* c = rn_new(top->kind == F_CHUNKB ? R_BYTES : R_TEXT);
          c->len = (size_t)t.arg;
          c->bytes = malloc(c->len ? c->len : 1);
          if (c->len) memcpy(c->bytes, in + pos + t.payload_off, c->len);
          c->headw = (uint8_t)(t.head_len - 1);
          rn_add(top->node, c);
        }
        pos = end;
        continue;
      }
      if (!opens) FAIL(RC_SYNTAXERROR, end); /* instant item that is not a chunk of this string */
      if (mode == RM_EAGER) FAIL(RC_SYNTAXERROR, end);
      /* lazy: open it like anywhere else; reported when it completes */
    } else if (t.slot == S_BREAK) {
      if (top && (top->kind == F_INDEFARR || (top->kind == F_INDEFMAP && top->parity == 0))) {
        item = top->node; sn--; goto completed;
      }
      FAIL(RC_SYNTAXERROR, end);
    }
    /* build the node for this head */
    {
      rnode* n = NULL;
      if (want_tree || opens) {
        switch (t.slot) {
          case S_UINT8: case S_UINT16: case S_UINT32: case S_UINT64:
            n = rn_new(R_UINT); n->width = (uint8_t)(t.slot - S_UINT8); n->val = t.arg; break;
          case S_NEGINT8: case S_NEGINT16: case S_NEGINT32: case S_NEGINT64:
            n = rn_new(R_NEGINT); n->width = (uint8_t)(t.slot - S_NEGINT8); n->val = t.arg; break;
          case S_BSTR: case S_STR:
            n = rn_new(t.slot == S_BSTR ? R_BYTES : R_TEXT);
            n->len = (size_t)t.arg;
            n->bytes = malloc(n->len ? n->len : 1);
            if (n->len) memcpy(n->bytes, in + pos + t.payload_off, n->len);
            break;
          case S_BSTR_START: n = rn_new(R_BYTES); n->indef = 1; break;
          case S_STR_START: n = rn_new(R_TEXT); n->indef = 1; break;
          case S_ARRAY: n = rn_new(R_ARRAY); n->declared = t.arg; break;
          case S_INDEF_ARRAY: n = rn_new(R_ARRAY); n->indef = 1; break;
          case S_MAP: n = rn_new(R_MAP); n->declared = t.arg; break;
          case S_INDEF_MAP: n = rn_new(R_MAP); n->indef = 1; break;
          case S_TAG: n = rn_new(R_TAG); n->val = t.arg; break;
          case S_FLOAT2: n = rn_new(R_FLOAT); n->width = 1; n->val = t.arg; break;
          case S_FLOAT4: n = rn_new(R_FLOAT); n->width = 2; n->val = t.arg; break;
          case S_FLOAT8: n = rn_new(R_FLOAT); n->width = 3; n->val = t.arg; break;
          case S_BOOL: n = rn_new(R_SIMPLE); n->val = 20 + t.arg; break;
          case S_NULL: n = rn_new(R_SIMPLE); n->val = 22; break;
          case S_UNDEF: n = rn_new(R_SIMPLE); n->val = 23; break;
          default: vh_die("ref_decode: unexpected slot %d", t.slot);
        }
        n->headw = (uint8_t)((b & 31) == 31 ? 31 : t.head_len - 1);
      }
      if (opens) {
        if (sn == L) { if (n) rn_free(n); FAIL(RC_MEMERROR, end); } /* would open level L+1 */
        if (!root) root = n; else if (top) rn_add(top->node, n);
        if (sn == sc) { sc = sc ? sc * 2 : 16; st = realloc(st, sc * sizeof *st); if (!st) vh_die("oom"); }
        st[sn].kind = (uint8_t)fkind;
        st[sn].parity = 0;
        st[sn].remaining = fkind == F_DEFARR ? t.arg : fkind == F_DEFMAP ? 0 : 0;
        if (fkind == F_DEFMAP) {
          /* 2n members; n can be up to 2^64-1, count pairs and parity instead of doubling */
          st[sn].remaining = t.arg;
        }
        st[sn].node = n;
        sn++;
        if (sn > v.max_depth) v.max_depth = sn;
        pos = end;
        continue;
      }
      if (n) { if (!root) root = n; else if (top) rn_add(top->node, n); }
      item = n;
    }
  completed:
    for (;;) {
      if (sn == 0) {
        v.code = RC_ACCEPT;
        v.read = end;
        if (want_tree) { v.tree = root; root = NULL; }
        goto out;
      }
      top = &st[sn - 1];
      if (top->kind == F_CHUNKB || top->kind == F_CHUNKT) FAIL(RC_SYNTAXERROR, end); /* lazy: the late report */
      if (top->kind == F_DEFARR) {
        if (--top->remaining == 0) { item = top->node; sn--; continue; }
      } else if (top->kind == F_DEFMAP) {
        top->parity ^= 1;
        if (top->parity == 0 && --top->remaining == 0) { item = top->node; sn--; continue; }
      } else if (top->kind == F_INDEFMAP) {
        top->parity ^= 1;
      } else if (top->kind == F_TAG) {
        item = top->node; sn--; continue;
      }
      break;
    }
    (void)item;
    pos = end;
  }
out:
  if (root) rn_free(root);
  free(st);
  return v;
#undef FAIL
}

/* ----------------------------------------------------------------- encoder */
static void put_head(struct vh_buf* o, unsigned mt, uint64_t v, int headw) {
  int w;
  int minw = v < 24 ? 0 : v <= 0xff ? 1 : v <= 0xffff ? 2 : v <= 0xffffffffull ? 4 : 8;
  w = (headw == 255 || headw < minw) ? minw : headw;
  if (w == 0) vb_u8(o, (uint8_t)(mt << 5 | v));
  else { vb_u8(o, (uint8_t)(mt << 5 | (w == 1 ? 24 : w == 2 ? 25 : w == 4 ? 26 : 27))); vb_be(o, v, w); }
}
static void enc(const rnode* n, struct vh_buf* o, bool src) {
  switch (n->kind) {
    case R_UINT:
    case R_NEGINT: {
      unsigned mt = n->kind == R_UINT ? 0 : 1;
      static const int wb[4] = {1, 2, 4, 8};
      if (n->width == 0) put_head(o, mt, n->val & 0xff, src && n->headw == 1 ? 1 : 255);
      else { vb_u8(o, (uint8_t)(mt << 5 | (24 + n->width))); vb_be(o, n->val, wb[n->width]); }
      break;
    }
    case R_BYTES:
    case R_TEXT: {
      unsigned mt = n->kind == R_BYTES ? 2 : 3;
      if (n->indef) {
        vb_u8(o, (uint8_t)(mt << 5 | 31));
        for (size_t i = 0; i < n->nkids; i++) enc(n->kids[i], o, src);
        vb_u8(o, 0xff);
      } else {
        put_head(o, mt, n->len, src ? n->headw : 255);
        vb_put(o, n->bytes, n->len);
      }
      break;
    }
    case R_ARRAY:
    case R_MAP: {
      unsigned mt = n->kind == R_ARRAY ? 4 : 5;
      if (n->indef) vb_u8(o, (uint8_t)(mt << 5 | 31));
      else put_head(o, mt, n->kind == R_ARRAY ? n->nkids : n->nkids / 2, src ? n->headw : 255);
      for (size_t i = 0; i < n->nkids; i++) enc(n->kids[i], o, src);
      if (n->indef) vb_u8(o, 0xff);
      break;
    }
    case R_TAG:
      put_head(o, 6, n->val, src ? n->headw : 255);
      if (n->nkids) enc(n->kids[0], o, src);
      break;
    case R_FLOAT:
      if (n->width == 1) { vb_u8(o, 0xf9); vb_be(o, (!src && ref_is_nan16((uint16_t)n->val)) ? 0x7e00 : n->val, 2); }
      else if (n->width == 2) { vb_u8(o, 0xfa); vb_be(o, (!src && ref_is_nan32((uint32_t)n->val)) ? 0x7fc00000u : n->val, 4); }
      else { vb_u8(o, 0xfb); vb_be(o, (!src && ref_is_nan64(n->val)) ? 0x7ff8000000000000ull : n->val, 8); }
      break;
    case R_SIMPLE:
      if (n->val < 24) vb_u8(o, (uint8_t)(0xe0 | n->val));
      else { vb_u8(o, 0xf8); vb_u8(o, (uint8_t)n->val); }
      break;
    default: vh_die("enc: bad kind");
  }
}
void ref_encode(const rnode* n, struct vh_buf* out) { enc(n, out, false); }
void ref_encode_src(const rnode* n, struct vh_buf* out) { enc(n, out, true); }

static unsigned headsz(uint64_t v) { return v < 24 ? 1 : v <= 0xff ? 2 : v <= 0xffff ? 3 : v <= 0xffffffffull ? 5 : 9; }
unsigned __int128 ref_encoded_size(const rnode* n) {
  unsigned __int128 s = 0;
  switch (n->kind) {
    case R_UINT: case R_NEGINT: { static const int wb[4] = {2, 3, 5, 9}; s = n->width == 0 ? (n->val < 24 ? 1 : 2) : (unsigned)wb[n->width]; break; }
    case R_BYTES: case R_TEXT:
      if (n->indef) { s = 2; for (size_t i = 0; i < n->nkids; i++) s += ref_encoded_size(n->kids[i]); }
      else s = (unsigned __int128)headsz(n->len) + n->len;
      break;
    case R_ARRAY: case R_MAP:
      s = n->indef ? 2 : headsz(n->kind == R_ARRAY ? n->nkids : n->nkids / 2);
      for (size_t i = 0; i < n->nkids; i++) s += ref_encoded_size(n->kids[i]);
      break;
    case R_TAG: s = headsz(n->val); if (n->nkids) s += ref_encoded_size(n->kids[0]); break;
    case R_FLOAT: s = n->width == 1 ? 3 : n->width == 2 ? 5 : 9; break;
    case R_SIMPLE: s = n->val < 24 ? 1 : 2; break;
  }
  return s;
}

/* ------------------------------------------------------------------ floats */
uint32_t ref_half_to_single_bits(uint16_t h) {
  uint32_t sign = (uint32_t)(h >> 15) << 31, e = (h >> 10) & 31, m = h & 0x3ff;
  if (e == 0) {
    if (m == 0) return sign;
    uint32_t e32 = 113; /* 2^-14 = exponent field 113 in single */
    while (!(m & 0x400)) { m <<= 1; e32--; }
    m &= 0x3ff;
    return sign | e32 << 23 | m << 13;
  }
  if (e == 31) return sign | 0x7f800000u | m << 13;
  return sign | (e + 112) << 23 | m << 13;
}
bool ref_single_to_half_exact(uint32_t f, uint16_t* h) {
  uint16_t sign = (uint16_t)((f >> 31) << 15);
  uint32_t e = (f >> 23) & 0xff, m = f & 0x7fffff;
  if (e == 0xff) { if (m) return false; *h = sign | 0x7c00; return true; }
  if (e == 0) { if (m) return false; *h = sign; return true; }
  if (e >= 113 && e <= 142) { if (m & 0x1fff) return false; *h = (uint16_t)(sign | (e - 112) << 10 | m >> 13); return true; }
  if (e >= 103 && e <= 112) {
    unsigned shift = 13 + (113 - e);
    uint32_t mant = m | 0x800000;
    if (mant & ((1u << shift) - 1)) return false;
    *h = (uint16_t)(sign | mant >> shift);
    return true;
  }
  return false;
}

/* -------------------------------------------------------------------- UTF-8
 * RFC 3629 §4:
 *   UTF8-1 = %x00-7F
 *   UTF8-2 = %xC2-DF UTF8-tail
 *   UTF8-3 = %xE0 %xA0-BF UTF8-tail / %xE1-EC 2( UTF8-tail ) /
 *            %xED %x80-9F UTF8-tail / %xEE-EF 2( UTF8-tail )
 *   UTF8-4 = %xF0 %x90-BF 2( UTF8-tail ) / %xF1-F3 3( UTF8-tail ) /
 *            %xF4 %x80-8F 2( UTF8-tail )
 *   UTF8-tail = %x80-BF                                                     */
static bool tail(uint8_t c) { return c >= 0x80 && c <= 0xbf; }
bool ref_utf8(const uint8_t* p, size_t n, size_t* count) {
  size_t i = 0, c = 0;
  while (i < n) {
    uint8_t b = p[i];
    size_t left = n - i;
    if (b <= 0x7f) { i += 1; }
    else if (b >= 0xc2 && b <= 0xdf) { if (left < 2 || !tail(p[i + 1])) return false; i += 2; }
    else if (b == 0xe0) { if (left < 3 || !(p[i + 1] >= 0xa0 && p[i + 1] <= 0xbf) || !tail(p[i + 2])) return false; i += 3; }
    else if ((b >= 0xe1 && b <= 0xec) || b == 0xee || b == 0xef) { if (left < 3 || !tail(p[i + 1]) || !tail(p[i + 2])) return false; i += 3; }
    else if (b == 0xed) { if (left < 3 || !(p[i + 1] >= 0x80 && p[i + 1] <= 0x9f) || !tail(p[i + 2])) return false; i += 3; }
    else if (b == 0xf0) { if (left < 4 || !(p[i + 1] >= 0x90 && p[i + 1] <= 0xbf) || !tail(p[i + 2]) || !tail(p[i + 3])) return false; i += 4; }
    else if (b >= 0xf1 && b <= 0xf3) { if (left < 4 || !tail(p[i + 1]) || !tail(p[i + 2]) || !tail(p[i + 3])) return false; i += 4; }
    else if (b == 0xf4) { if (left < 4 || !(p[i + 1] >= 0x80 && p[i + 1] <= 0x8f) || !tail(p[i + 2]) || !tail(p[i + 3])) return false; i += 4; }
    else return false;
    c++;
  }
  if (count) *count = c;
  return true;
}

/* ---------------------------------------------------------------- self-test
 * RFC 8949 Appendix A (the encodings) with their well-formedness in libcbor's
 * profile; half-precision examples from the same table; RFC 3629 / Unicode
 * boundary strings.  Failure = machinery broken (exit 2). */
static const struct { const char* hex; int ok; } appx_a[] = {
    {"00", 1}, {"01", 1}, {"0a", 1}, {"17", 1}, {"1818", 1}, {"1819", 1}, {"1864", 1}, {"1903e8", 1},
    {"1a000f4240", 1}, {"1b000000e8d4a51000", 1}, {"1bffffffffffffffff", 1}, {"c249010000000000000000", 1},
    {"3bffffffffffffffff", 1}, {"c349010000000000000000", 1}, {"20", 1}, {"29", 1}, {"3863", 1}, {"3903e7", 1},
    {"f90000", 1}, {"f98000", 1}, {"f93c00", 1}, {"fb3ff199999999999a", 1}, {"f93e00", 1}, {"f97bff", 1},
    {"fa47c35000", 1}, {"fa7f7fffff", 1}, {"fb7e37e43c8800759c", 1}, {"f90001", 1}, {"f90400", 1}, {"f9c400", 1},
    {"fbc010666666666666", 1}, {"f97c00", 1}, {"f97e00", 1}, {"f9fc00", 1}, {"fa7f800000", 1}, {"fa7fc00000", 1},
    {"faff800000", 1}, {"fb7ff0000000000000", 1}, {"fb7ff8000000000000", 1}, {"fbfff0000000000000", 1},
    {"f4", 1}, {"f5", 1}, {"f6", 1}, {"f7", 1}, {"f0", 0}, {"f8ff", 0},
    {"c074323031332d30332d32315432303a30343a30305a", 1}, {"c11a514b67b0", 1}, {"c1fb41d452d9ec200000", 1},
    {"d74401020304", 1}, {"d818456449455446", 1}, {"d82076687474703a2f2f7777772e6578616d706c652e636f6d", 1},
    {"40", 1}, {"4401020304", 1}, {"60", 1}, {"6161", 1}, {"6449455446", 1}, {"62225c", 1}, {"62c3bc", 1},
    {"63e6b0b4", 1}, {"64f0908591", 1}, {"80", 1}, {"83010203", 1}, {"8301820203820405", 1},
    {"98190102030405060708090a0b0c0d0e0f101112131415161718181819", 1}, {"a0", 1}, {"a201020304", 1},
    {"a26161016162820203", 1}, {"826161a161626163", 1}, {"a56161614161626142616361436164614461656145", 1},
    {"5f42010243030405ff", 1}, {"7f657374726561646d696e67ff", 1}, {"9fff", 1}, {"9f018202039f0405ffff", 1},
    {"9f01820203820405ff", 1}, {"83018202039f0405ff", 1}, {"83019f0203ff820405", 1},
    {"9f0102030405060708090a0b0c0d0e0f101112131415161718181819ff", 1}, {"bf61610161629f0203ffff", 1},
    {"826161bf61626163ff", 1}, {"bf6346756ef563416d7421ff", 1},
    /* RFC 8949 Appendix F.1: ill-formed examples */
    {"18", 0}, {"19", 0}, {"1a", 0}, {"1b", 0}, {"1901", 0}, {"1a0102", 0}, {"1b01020304050607", 0}, {"38", 0}, {"58", 0},
    {"78", 0}, {"98", 0}, {"9a01ff00", 0}, {"b8", 0}, {"d8", 0}, {"f8", 0}, {"f900", 0}, {"fa0000", 0}, {"fb000000", 0},
    {"41", 0}, {"61", 0}, {"5affffffff00", 0}, {"5bffffffffffffffff010203", 0}, {"7affffffff00", 0}, {"7b7fffffffffffffff010203", 0},
    {"81", 0}, {"818181818181818181", 0}, {"8200", 0}, {"a1", 0}, {"a20102", 0}, {"a100", 0}, {"a2000000", 0},
    {"c0", 0}, {"5f4100", 0}, {"7f6100", 0}, {"9f", 0}, {"9f0102", 0}, {"bf", 0}, {"bf01020102", 0}, {"819f", 0}, {"9f8000", 0},
    {"9f9f9f9f9fffffffff", 0}, {"9f819f819f9fffffff", 0},
    {"1c", 0}, {"1d", 0}, {"1e", 0}, {"3c", 0}, {"3d", 0}, {"3e", 0}, {"5c", 0}, {"5d", 0}, {"5e", 0}, {"7c", 0}, {"7d", 0}, {"7e", 0},
    {"9c", 0}, {"9d", 0}, {"9e", 0}, {"bc", 0}, {"bd", 0}, {"be", 0}, {"dc", 0}, {"dd", 0}, {"de", 0}, {"fc", 0}, {"fd", 0}, {"fe", 0},
    {"1f", 0}, {"3f", 0}, {"df", 0},
    {"5f00ff", 0}, {"5f21ff", 0}, {"5f6100ff", 0}, {"5f80ff", 0}, {"5fa0ff", 0}, {"5fc000ff", 0}, {"5fe0ff", 0}, {"7f4100ff", 0},
    {"5f5f4100ffff", 0}, {"7f7f6100ffff", 0},
    {"ff", 0}, {"81ff", 0}, {"8200ff", 0}, {"a1ff", 0}, {"a1ff00", 0}, {"a100ff", 0}, {"a20000ff", 0}, {"9f81ff", 0}, {"9f829f819f9fffffffff", 0},
    {"bf00ff", 0}, {"bf000000ff", 0},
};
static const struct { uint16_t h; float f; } half_vec[] = {
    {0x0000, 0.0f}, {0x3c00, 1.0f}, {0x3e00, 1.5f}, {0x7bff, 65504.0f}, {0x0001, 5.960464477539063e-8f},
    {0x0400, 0.00006103515625f}, {0xc400, -4.0f}, {0x3555, 0.333251953125f}, {0x03ff, 6.097555160522461e-05f},
};
static const struct { const char* hex; int valid; size_t count; } utf8_vec[] = {
    {"", 1, 0}, {"00", 1, 1}, {"7f", 1, 1}, {"80", 0, 0}, {"bf", 0, 0}, {"c0", 0, 0}, {"c080", 0, 0}, {"c1bf", 0, 0},
    {"c280", 1, 1}, {"dfbf", 1, 1}, {"c2", 0, 0}, {"c27f", 0, 0}, {"c2c0", 0, 0}, {"e0a080", 1, 1}, {"e09fbf", 0, 0},
    {"e08080", 0, 0}, {"e0a0", 0, 0}, {"e1", 0, 0}, {"ed9fbf", 1, 1}, {"eda080", 0, 0}, {"edbfbf", 0, 0}, {"ee8080", 1, 1},
    {"efbfbf", 1, 1}, {"efbfbe", 1, 1}, {"f0908080", 1, 1}, {"f08fbfbf", 0, 0}, {"f0808080", 0, 0}, {"f48fbfbf", 1, 1},
    {"f4908080", 0, 0}, {"f5808080", 0, 0}, {"f7bfbfbf", 0, 0}, {"f8888080", 0, 0}, {"fe", 0, 0}, {"ff", 0, 0},
    {"f09080", 0, 0}, {"f0", 0, 0}, {"41c3bc42", 1, 3}, {"e6b0b4f0908591", 1, 2}, {"61eda08062", 0, 0}, {"6180", 0, 0},
    {"f0908591f0908591", 1, 2}, {"c3", 0, 0}, {"e6b0", 0, 0},
};

void ref_selftest(void) {
  for (size_t i = 0; i < sizeof appx_a / sizeof appx_a[0]; i++) {
    uint8_t* b;
    size_t n = vh_unhex(appx_a[i].hex, &b);
    for (int mode = 0; mode < 2; mode++) {
      struct rverdict v = ref_decode(b, n, 2048, mode, true, NULL);
      bool ok = v.code == RC_ACCEPT && v.read == n;
      if (ok != (appx_a[i].ok != 0)) vh_die("reference self-test: %s expected %s, got code %d read %zu (mode %d)", appx_a[i].hex,
                                           appx_a[i].ok ? "well-formed" : "rejected", v.code, v.read, mode);
      if (ok) {
        /* all Appendix A vectors are in preferred form except where libcbor's stored width equals it */
        struct vh_buf o = {0};
        ref_encode_src(v.tree, &o);
        if (o.n != n || memcmp(o.p, b, n)) vh_die("reference self-test: source re-encoding of %s gives %s", appx_a[i].hex, vh_hex(o.p, o.n, 64));
        vb_reset(&o);
        ref_encode(v.tree, &o);
        if ((unsigned __int128)o.n != ref_encoded_size(v.tree)) vh_die("reference self-test: size != encoding length for %s", appx_a[i].hex);
        struct rverdict v2 = ref_decode(o.p, o.n, 2048, mode, false, NULL);
        if (v2.code != RC_ACCEPT || v2.read != o.n) vh_die("reference self-test: canonical encoding of %s not accepted", appx_a[i].hex);
        vb_free(&o);
        rn_free(v.tree);
      }
    }
    free(b);
  }
  for (size_t i = 0; i < sizeof half_vec / sizeof half_vec[0]; i++) {
    uint32_t bits;
    memcpy(&bits, &half_vec[i].f, 4);
    if (ref_half_to_single_bits(half_vec[i].h) != bits) vh_die("reference self-test: half %04x", half_vec[i].h);
  }
  for (uint32_t h = 0; h < 65536; h++) {
    uint32_t s = ref_half_to_single_bits((uint16_t)h);
    uint16_t back;
    if (ref_is_nan16((uint16_t)h)) { if (!ref_is_nan32(s)) vh_die("reference self-test: half NaN %04x", h); continue; }
    if (!ref_single_to_half_exact(s, &back) || back != h) vh_die("reference self-test: half round trip %04x", h);
    /* cross-check against the C library's scalbn on the decoded fields (RFC 8949 Appendix D formula) */
    int e = (h >> 10) & 31, m = h & 0x3ff;
    double val = e == 0 ? ldexp(m, -24) : e != 31 ? ldexp(m + 1024, e - 25) : INFINITY;
    float fv = (float)((h & 0x8000) ? -val : val);
    uint32_t fb;
    memcpy(&fb, &fv, 4);
    if (fb != s) vh_die("reference self-test: half %04x -> %08x vs appendix-D %08x", h, s, fb);
  }
  { uint16_t t; if (ref_single_to_half_exact(0x3f800001u, &t) || ref_single_to_half_exact(0x33000000u /* 2^-25 */, &t) || !ref_single_to_half_exact(0x33800000u /* 2^-24 */, &t) || t != 1)
      vh_die("reference self-test: single_to_half_exact boundaries"); }
  for (size_t i = 0; i < sizeof utf8_vec / sizeof utf8_vec[0]; i++) {
    uint8_t* b;
    size_t n = vh_unhex(utf8_vec[i].hex, &b), c = 0;
    bool ok = ref_utf8(b, n, &c);
    if (ok != (utf8_vec[i].valid != 0) || (ok && c != utf8_vec[i].count)) vh_die("reference self-test: utf8 %s", utf8_vec[i].hex);
    free(b);
  }
  /* every scalar value encodes to something the validator accepts; every surrogate is rejected */
  for (uint32_t cp = 0; cp <= 0x110000; cp += (cp < 0x800 ? 1 : 37)) {
    uint8_t u[4]; size_t n;
    if (cp < 0x80) { u[0] = (uint8_t)cp; n = 1; }
    else if (cp < 0x800) { u[0] = (uint8_t)(0xc0 | cp >> 6); u[1] = (uint8_t)(0x80 | (cp & 63)); n = 2; }
    else if (cp < 0x10000) { u[0] = (uint8_t)(0xe0 | cp >> 12); u[1] = (uint8_t)(0x80 | ((cp >> 6) & 63)); u[2] = (uint8_t)(0x80 | (cp & 63)); n = 3; }
    else { u[0] = (uint8_t)(0xf0 | cp >> 18); u[1] = (uint8_t)(0x80 | ((cp >> 12) & 63)); u[2] = (uint8_t)(0x80 | ((cp >> 6) & 63)); u[3] = (uint8_t)(0x80 | (cp & 63)); n = 4; }
    bool scalar = cp < 0x110000 && !(cp >= 0xd800 && cp <= 0xdfff);
    size_t c = 0;
    if (ref_utf8(u, n, &c) != scalar) vh_die("reference self-test: utf8 scalar U+%X", cp);
  }
}
