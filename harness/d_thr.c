/* d_thr.c — driver "thr": threads.
 *   C17 stage "tsan"   : N threads on private data under ThreadSanitizer; per-thread digest vs solo digest
 *   C17 stage "segment": writable PT_LOAD segment of the library DSO compared before/after workloads
 *   C17 stage "digest" : N threads without a sanitizer (real speed, real interleavings), digests vs solo
 *   C18 stage "readers": concurrent readers of one shared tree under ThreadSanitizer
 * The allocator (tsafe: libc pass-through, thread-local counters only) is installed once before threads start. */
#define _GNU_SOURCE
#include <errno.h>
#include <fenv.h>
#include <link.h>
#include <pthread.h>
#include <sched.h>
#include <unistd.h>
#include <time.h>
#include <fcntl.h>
#include <locale.h>
#include <signal.h>
#include <sys/socket.h>
#include <sys/resource.h>
#include <sys/syscall.h>

#include "vh.h"

#define MAXT 16
#define MAXOPS 6000
enum { F_BUILD, F_LOAD, F_COPY, F_SERIALIZE, F_SIZE, F_SERIALIZE_ALLOC, F_DESCRIBE, F_DECREF, F_STREAM, F_ENCODE, F_WALK, F_N };
static const char* const fnames[F_N] = {"build", "cbor_load", "cbor_copy", "cbor_serialize", "cbor_serialized_size", "cbor_serialize_alloc", "cbor_describe", "cbor_decref", "cbor_stream_decode", "cbor_encode_*", "getters"};

struct opstamp { uint8_t fn; uint64_t t0, t1; };
struct tctx {
  int id;
  volatile pid_t tid;     /* kernel thread id, for the blocked-or-merely-slow decision */
  uint64_t seed;
  int nops;
  uint64_t digest;
  uint64_t ops_done[F_N];
  struct opstamp* stamps;
  int nstamps;
  bool record;
  pthread_barrier_t* bar;
  uint64_t allocs, frees;
  FILE* shared_bad;      /* a second shared stream on which every write fails (full device, unbuffered) */
  FILE* shared;          /* one stream all threads of the run describe to (streams are not items: sharing one is legal) */
  uint64_t hist[256];    /* bytes this thread's describe calls are known to produce, per byte value */
  uint64_t shared_calls;
};

static inline uint64_t rdtsc(void) { unsigned lo, hi; __asm__ volatile("rdtsc" : "=a"(lo), "=d"(hi)); return (uint64_t)hi << 32 | lo; }
#define STAMP(fn_, expr)                                                                  \
  do {                                                                                    \
    uint64_t _t0 = c->record ? rdtsc() : 0;                                               \
    expr;                                                                                 \
    if (c->record && c->nstamps < MAXOPS) { c->stamps[c->nstamps].fn = (fn_); c->stamps[c->nstamps].t0 = _t0; c->stamps[c->nstamps].t1 = rdtsc(); c->nstamps++; } \
    c->ops_done[fn_]++;                                                                   \
  } while (0)

static uint64_t nsys_cached;

/* Cold start: the first thing every thread does is to call every entry point once, in the same order, right after the
 * barrier — so that anything the library sets up lazily on first use (a lookup table, a cached pointer, a flag) is set up
 * by several threads at the same moment in the first run of a fresh process. */
static uint64_t cold_touch(struct tctx* c, FILE* df, char** dtext, size_t* dlen) {
  static const uint8_t all[] = {0x9f, 0x01, 0x20, 0x18, 0x64, 0x39, 0x01, 0x00, 0x1a, 0x00, 0x01, 0x00, 0x00, 0x3b, 0, 0, 0, 1, 0, 0, 0, 0, 0x42, 1, 2, 0x64, 'a', 0xc3, 0xa9, 'z', 0x5f, 0x41, 0, 0x40, 0xff,
                                0x7f, 0x61, 'x', 0xff, 0x82, 1, 2, 0xa1, 1, 2, 0xbf, 1, 2, 0xff, 0xc1, 0x00, 0xd8, 0x18, 0x40, 0xf9, 0x3c, 0x00, 0xf9, 0x7e, 0x00, 0xf9, 0x00, 0x01, 0xfa, 0x3f, 0x80, 0, 0,
                                0xfb, 0x3f, 0xf0, 0, 0, 0, 0, 0, 0, 0xf4, 0xf5, 0xf6, 0xf7, 0xff};
  uint64_t dg = 0x1234;
  uint8_t* ex = vh_exact(all, sizeof all);
  struct cbor_load_result lr;
  cbor_item_t* it = NULL;
  STAMP(F_LOAD, it = cbor_load(ex, sizeof all, &lr));
  dg = vh_hash_mix(dg, (uint64_t)lr.error.code << 32 | lr.read);
  if (it) {
    size_t sz = 0, w = 0;
    STAMP(F_SIZE, sz = cbor_serialized_size(it));
    unsigned char* out = malloc(sz ? sz : 1);
    STAMP(F_SERIALIZE, w = cbor_serialize(it, out, sz));
    dg = vh_hash_mix(dg, vh_hash(out, w));
    free(out);
    unsigned char* ab = NULL; size_t abn = 0;
    STAMP(F_SERIALIZE_ALLOC, cbor_serialize_alloc(it, &ab, &abn));
    if (ab) { dg = vh_hash_mix(dg, vh_hash(ab, abn)); _cbor_free(ab); }
    cbor_item_t* cp = NULL;
    STAMP(F_COPY, cp = cbor_copy(it));
    struct vh_buf dump = {0};
    if (cp) { STAMP(F_WALK, walk_dump_item(cp, &dump, WD_REFCOUNTS)); dg = vh_hash_mix(dg, vh_hash(dump.p, dump.n)); STAMP(F_DECREF, cbor_decref(&cp)); }
    vb_free(&dump);
    STAMP(F_DESCRIBE, cbor_describe(it, df));
    fflush(df);
    dg = vh_hash_mix(dg, vh_hash(*dtext, *dlen));
    rewind(df);
    STAMP(F_DECREF, cbor_decref(&it));
  }
  int ctx;
  for (size_t off = 0; off < sizeof all;) {
    struct cbor_decoder_result res;
    STAMP(F_STREAM, res = cbor_stream_decode(ex + off, sizeof all - off, &cbor_empty_callbacks, &ctx));
    dg = vh_hash_mix(dg, (uint64_t)res.status << 40 | res.read);
    if (res.status != CBOR_DECODER_FINISHED || res.read == 0) break;
    off += res.read;
  }
  free(ex);
  static const uint64_t vals[] = {0, 23, 24, 255, 256, 65535, 65536, 0xffffffffull, 0x100000000ull, 0x3c00, 0x7e00, 0x3f800000u, 0x7fc00001u, 0x3ff0000000000000ull, 0x7ff0000000000001ull};
  for (int e = 0; e < E_N; e++)
    for (size_t k = 0; k < sizeof vals / sizeof vals[0]; k++) {
      uint8_t b[16]; size_t w = 0;
      STAMP(F_ENCODE, w = vh_call_encoder(e, vals[k], b, sizeof b));
      dg = vh_hash_mix(dg, vh_hash(b, w));
    }
  /* builders */
  {
    cbor_item_t* a = NULL, * s1 = NULL, * t1 = NULL, * m = NULL, * f = NULL, * tg = NULL;
    STAMP(F_BUILD, a = cbor_new_indefinite_array());
    STAMP(F_BUILD, s1 = cbor_build_string("h\xc3\xa9llo"));
    STAMP(F_BUILD, t1 = cbor_build_bytestring((const unsigned char*)"\x01\x02", 2));
    STAMP(F_BUILD, m = cbor_new_definite_map(1));
    STAMP(F_BUILD, f = cbor_build_float2(1.5f));
    if (a && s1 && t1 && m && f) {
      (void)cbor_array_push(a, s1); (void)cbor_array_push(a, t1);
      (void)cbor_map_add(m, (struct cbor_pair){.key = f, .value = a});
      STAMP(F_BUILD, tg = cbor_build_tag(9, m));
      if (tg) { struct vh_buf dump = {0}; walk_dump_item(tg, &dump, WD_REFCOUNTS); dg = vh_hash_mix(dg, vh_hash(dump.p, dump.n)); vb_free(&dump); cbor_decref(&tg); }
    }
    if (a) cbor_decref(&a);
    if (s1) cbor_decref(&s1);
    if (t1) cbor_decref(&t1);
    if (m) cbor_decref(&m);
    if (f) cbor_decref(&f);
  }
  return dg;
}

/* one thread's workload: everything is private to the thread */
static void workload(struct tctx* c) {
  struct vh_rng r;
  vh_rng_seed(&r, c->seed);
  uint64_t dg = 0xcbf29ce484222325ull;
  char* dtext = NULL;
  size_t dlen = 0;
  FILE* df = open_memstream(&dtext, &dlen); /* private stream */
  struct vh_buf enc = {0}, dump = {0};
  int ctx;
  /* private streams of other kinds too: a pipe and a socket (non-blocking, drained after every call) */
  int pfd[2] = {-1, -1}, sv[2] = {-1, -1};
  FILE* pf = NULL, * sf = NULL;
  if (pipe2(pfd, O_NONBLOCK | O_CLOEXEC) == 0) { pf = fdopen(pfd[1], "w"); if (!pf) { close(pfd[0]); close(pfd[1]); pfd[0] = -1; } }
  if (socketpair(AF_UNIX, SOCK_STREAM | SOCK_NONBLOCK | SOCK_CLOEXEC, 0, sv) == 0) { sf = fdopen(sv[1], "w"); if (!sf) { close(sv[0]); close(sv[1]); sv[0] = -1; } }
  dg = vh_hash_mix(dg, cold_touch(c, df, &dtext, &dlen));
  for (int i = 0; i < c->nops; i++) {
    /* the concurrent run and the solo run of the same workload differ in ambient thread state (errno, rounding mode):
     * a digest difference exposes results that depend on it */
    if (c->record) vh_ambient_scramble((uint64_t)i * 2654435761u + (uint64_t)c->id); else vh_ambient_restore();
    struct gen_cfg cfg = {.max_nodes = 2 + (int)vh_below(&r, 14), .max_depth = 5, .nonminimal = true, .assigned_simple_only = true};
    rnode* t = vh_below(&r, 4) ? gen_tree(&r, &cfg) : gen_systematic(vh_below(&r, nsys_cached));
    cbor_item_t* it = NULL;
    vb_reset(&enc);
    ref_encode_src(t, &enc);
    if (enc.n > 4000) { rn_free(t); continue; }
    if (vh_below(&r, 2)) {
      if (vh_below(&r, 2)) { STAMP(F_BUILD, it = walk_build_from_ref(t)); } else { STAMP(F_BUILD, it = ser_build_variant(t, &r)); } /* all builders, new+set, set_handle, re-tagging */
    } else {
      struct cbor_load_result lr;
      uint8_t* ex = vh_exact(enc.p, enc.n);
      /* sometimes a corrupted input: error paths release partial trees */
      if (vh_below(&r, 5) == 0 && enc.n > 1) ex[vh_below(&r, enc.n)] ^= (uint8_t)(1u << vh_below(&r, 8));
      STAMP(F_LOAD, it = cbor_load(ex, enc.n, &lr));
      dg = vh_hash_mix(dg, (uint64_t)lr.error.code << 32 | (it ? lr.read : lr.error.position));
      free(ex);
    }
    rn_free(t);
    if (vh_below(&r, 8) == 0) sched_yield();
    if (it) {
      size_t sz = 0;
      STAMP(F_SIZE, sz = cbor_serialized_size(it));
      unsigned char* out = malloc(sz ? sz : 1);
      size_t w = 0;
      STAMP(F_SERIALIZE, w = cbor_serialize(it, out, sz));
      dg = vh_hash_mix(dg, vh_hash(out, w));
      free(out);
      if (vh_below(&r, 2)) {
        cbor_item_t* cp = NULL;
        STAMP(F_COPY, cp = cbor_copy(it));
        if (cp) {
          vb_reset(&dump);
          STAMP(F_WALK, walk_dump_item(cp, &dump, WD_REFCOUNTS));
          dg = vh_hash_mix(dg, vh_hash(dump.p, dump.n));
          STAMP(F_DECREF, cbor_decref(&cp));
        }
      }
      if (vh_below(&r, 3) == 0) {
        unsigned char* ab = NULL; size_t abn = 0;
        /* the size out-parameter is optional: exercise both forms */
        if (vh_below(&r, 2)) { STAMP(F_SERIALIZE_ALLOC, cbor_serialize_alloc(it, &ab, &abn)); }
        else { STAMP(F_SERIALIZE_ALLOC, abn = cbor_serialize_alloc(it, &ab, NULL)); }
        if (ab) { dg = vh_hash_mix(dg, vh_hash(ab, abn)); _cbor_free(ab); }
      }
      if (vh_below(&r, 4) == 0) {
        /* the text cbor_describe prints for a float is produced by the C library's printf, whose decimal rounding
         * legitimately follows the current rounding mode: keep the default mode for this call (errno stays scrambled) */
        { int saved_errno = errno; fesetround(FE_TONEAREST); errno = saved_errno; }
        STAMP(F_DESCRIBE, cbor_describe(it, df));
        fflush(df);
        dg = vh_hash_mix(dg, vh_hash(dtext, dlen));
        rewind(df);
        for (int k = 0; k < 2; k++) {
          FILE* kf = k ? sf : pf;
          int kfd = k ? sv[0] : pfd[0];
          if (!kf || dlen > 30000) continue;
          STAMP(F_DESCRIBE, cbor_describe(it, kf));
          fflush(kf);
          clearerr(kf);
          char drain[4096];
          while (read(kfd, drain, sizeof drain) > 0) {}
          c->ops_done[F_DESCRIBE]++;
        }
        if (c->shared_bad) { STAMP(F_DESCRIBE, cbor_describe(it, c->shared_bad)); }
        if (c->shared) {
          for (size_t q = 0; q < dlen; q++) c->hist[(uint8_t)dtext[q]]++;
          STAMP(F_DESCRIBE, cbor_describe(it, c->shared));
          c->shared_calls++;
        }
      }
      if (vh_below(&r, 6) == 0) {
        /* short private texts that matter to character conversion: a sequence cut short at the end, control characters, a lone lead byte */
        static const char* const probes[] = {"ab\xe2\x82", "line1\nline2\x01", "\xf0\x9f", "tab\there\x7f", "\xc3", "\xe2\x82\xac ok"};
        cbor_item_t* pt = cbor_build_string(probes[vh_below(&r, 6)]);
        if (pt) {
          { int saved_errno = errno; fesetround(FE_TONEAREST); errno = saved_errno; }
          STAMP(F_DESCRIBE, cbor_describe(pt, df));
          fflush(df);
          dg = vh_hash_mix(dg, vh_hash(dtext, dlen));
          rewind(df);
          cbor_decref(&pt);
        }
      }
      vb_reset(&dump);
      STAMP(F_WALK, walk_dump_item(it, &dump, WD_REFCOUNTS));
      dg = vh_hash_mix(dg, vh_hash(dump.p, dump.n));
      for (int k = (int)vh_below(&r, 3); k > 0; k--) { volatile int spin = 50; while (spin--) ; }
      STAMP(F_DECREF, cbor_decref(&it));
    }
    /* now and then a private tree nested thousands of levels deep, built through the API and released: whatever the
     * library does differently for very deep trees (iteration instead of recursion, a work list) is private to the call */
    if (vh_below(&r, 60) == 0) {
      size_t depth = 4200 + vh_below(&r, 2000);
      cbor_item_t* cur = NULL;
      STAMP(F_BUILD, cur = cbor_build_uint8(7));
      bool ok = cur != NULL;
      for (size_t lv = 0; lv < depth && ok; lv++) {
        cbor_item_t* outer = (lv & 1) ? cbor_new_indefinite_array() : cbor_new_definite_array(1);
        if (!outer) { ok = false; break; }
        if (!cbor_array_push(outer, cur)) { cbor_decref(&outer); ok = false; break; }
        cbor_decref(&cur);
        cur = outer;
      }
      if (ok) {
        size_t sz = 0;
        STAMP(F_SIZE, sz = cbor_serialized_size(cur));
        dg = vh_hash_mix(dg, sz);
        c->ops_done[F_BUILD] += depth;
      }
      if (cur) STAMP(F_DECREF, cbor_decref(&cur));
    }
    /* streaming layer and encoders on private buffers */
    {
      uint8_t* ex = vh_exact(enc.p, enc.n);
      size_t off = 0;
      while (off < enc.n) {
        struct cbor_decoder_result res;
        STAMP(F_STREAM, res = cbor_stream_decode(ex + off, enc.n - off, &cbor_empty_callbacks, &ctx));
        dg = vh_hash_mix(dg, (uint64_t)res.status << 40 | res.read);
        if (res.status != CBOR_DECODER_FINISHED || res.read == 0) break;
        off += res.read;
      }
      free(ex);
      uint8_t b[16];
      uint64_t v = vh_rand(&r);
      size_t w = 0;
      STAMP(F_ENCODE, w = vh_call_encoder((int)vh_below(&r, E_N), v >> vh_below(&r, 64), b, sizeof b));
      dg = vh_hash_mix(dg, vh_hash(b, w));
    }
  }
  vh_ambient_restore();
  if (pf) { fclose(pf); close(pfd[0]); }
  if (sf) { fclose(sf); close(sv[0]); }
  fclose(df);
  free(dtext);
  vb_free(&enc); vb_free(&dump);
  c->digest = dg;
  c->allocs = TS_allocs; c->frees = TS_frees;
}

static void* thread_main(void* arg) {
  struct tctx* c = arg;
  c->tid = (pid_t)syscall(SYS_gettid);
  TS_allocs = TS_frees = 0;
  pthread_barrier_wait(c->bar);
  workload(c);
  return NULL;
}

/* -------------------------------------------------- TSan report harvesting */
static long g_err_off;
static int harvest_tsan(const char* what, uint64_t* races_lib, uint64_t* races_other) {
  fflush(stderr);
  FILE* f = fopen(vh_errpath(), "r");
  if (!f) return 0;
  fseek(f, g_err_off, SEEK_SET);
  char line[1024];
  struct vh_buf blk = {0};
  bool in = false, lib = false;
  int nrep = 0;
  while (fgets(line, sizeof line, f)) {
    if (strstr(line, "WARNING: ThreadSanitizer:")) { in = true; lib = false; vb_reset(&blk); }
    if (in) {
      if (blk.n < 3000) vb_put(&blk, line, strlen(line));
      if (strstr(line, VH_REPO_SRC) || strstr(line, "/src/cbor")) lib = true;
      if (strstr(line, "SUMMARY: ThreadSanitizer")) {
        in = false;
        nrep++;
        vb_u8(&blk, 0);
        if (lib) { (*races_lib)++; vh_violation("tsan-report", "%s: %.1800s", what, (char*)blk.p); }
        else { (*races_other)++; vh_note("tsan-report-outside-libcbor", "%.480s", (char*)blk.p); }
      }
    }
  }
  g_err_off = ftell(f);
  fclose(f);
  vb_free(&blk);
  return nrep;
}

/* --------------------------------------------------------- overlap matrix */
static uint8_t pair_seen[F_N][F_N];
static void overlaps(struct tctx* cs, int n) {
  for (int i = 0; i < n; i++)
    for (int j = 0; j < n; j++) {
      if (i == j) continue;
      int b = 0;
      for (int a = 0; a < cs[i].nstamps; a++) {
        struct opstamp* A = &cs[i].stamps[a];
        while (b < cs[j].nstamps && cs[j].stamps[b].t1 < A->t0) b++;
        for (int k = b; k < cs[j].nstamps && cs[j].stamps[k].t0 <= A->t1; k++) pair_seen[A->fn][cs[j].stamps[k].fn] = 1;
      }
    }
}

/* ------------------------------------------------ process-wide state outside the library's own segments
 * Signal dispositions, the locale, the environment, resource limits, the working directory, the standard streams'
 * buffering: state that lives in the kernel or in libc, that every thread shares, and that a library call may save,
 * change and restore around its work — correct alone, lossy when two threads overlap. */
extern char** environ;
static uint64_t process_state(char* what, size_t cap) {
  uint64_t h = 0x9e3779b97f4a7c15ull;
  struct vh_buf b = {0};
  for (int sig = 1; sig < 65; sig++) {
    struct sigaction sa;
    if (sig == SIGKILL || sig == SIGSTOP || sigaction(sig, NULL, &sa)) continue;
    vb_printf(&b, "sig%d:%p:%x;", sig, (sa.sa_flags & SA_SIGINFO) ? (void*)sa.sa_sigaction : (void*)sa.sa_handler, (unsigned)sa.sa_flags);
  }
  const char* loc = setlocale(LC_ALL, NULL);
  vb_printf(&b, "locale:%s;", loc ? loc : "?");
  uint64_t eh = 0;
  for (char** e = environ; e && *e; e++) eh = vh_hash_mix(eh, vh_hash(*e, strlen(*e)));
  vb_printf(&b, "environ:%p:%llx;", (void*)environ, (unsigned long long)eh);
  static const int lims[] = {RLIMIT_STACK, RLIMIT_NOFILE, RLIMIT_AS, RLIMIT_DATA, RLIMIT_CORE, RLIMIT_FSIZE};
  for (size_t i = 0; i < sizeof lims / sizeof lims[0]; i++) { struct rlimit rl; if (!getrlimit(lims[i], &rl)) vb_printf(&b, "rlim%d:%llu:%llu;", lims[i], (unsigned long long)rl.rlim_cur, (unsigned long long)rl.rlim_max); }
  char cwd[512];
  vb_printf(&b, "cwd:%s;", getcwd(cwd, sizeof cwd) ? cwd : "?");
  vb_printf(&b, "stdout:%zu:%d;stderr:%zu:%d;", __fbufsize(stdout), __flbf(stdout), __fbufsize(stderr), __flbf(stderr));
  sigset_t cur;
  if (!pthread_sigmask(SIG_SETMASK, NULL, &cur)) for (int sig = 1; sig < 65; sig++) if (sigismember(&cur, sig) == 1) vb_printf(&b, "blocked%d;", sig);
  vb_u8(&b, 0);
  h = vh_hash(b.p, b.n);
  if (what) snprintf(what, cap, "%s", (char*)b.p);
  vb_free(&b);
  return h;
}
static void process_state_diff(const char* a, const char* b, char* out, size_t cap) {
  /* first differing ';'-separated field */
  const char* pa = a, * pb = b;
  out[0] = 0;
  while (*pa && *pb) {
    const char* ea = strchr(pa, ';'), * eb = strchr(pb, ';');
    if (!ea || !eb) break;
    if (ea - pa != eb - pb || memcmp(pa, pb, (size_t)(ea - pa))) { snprintf(out, cap, "before '%.*s', after '%.*s'", (int)(ea - pa), pa, (int)(eb - pb), pb); return; }
    pa = ea + 1; pb = eb + 1;
  }
  snprintf(out, cap, "(fields differ in number)");
}

/* ------------------------------------------------------------- C17 runs */
static uint64_t g_runs, g_digest_mismatch, g_thread_workloads;

/* descriptor: 'T' nthreads, nops(u16), seed(u64) */
/* Blocked or merely slow? The deadline alone is wall-clock time and says nothing on a loaded machine. A thread is called
 * blocked only if, over six samples two seconds apart, the kernel reports it sleeping every time and its consumed CPU
 * time has not moved; anything else (running, runnable, or progressing) is slowness, and the join waits on. */
static bool thread_is_blocked(pid_t tid) {
  unsigned long long cpu0 = 0;
  for (int k = 0; k < 6; k++) {
    char path[64], buf[512];
    snprintf(path, sizeof path, "/proc/self/task/%d/stat", (int)tid);
    FILE* f = fopen(path, "r");
    if (!f) return false; /* gone: it finished */
    size_t n = fread(buf, 1, sizeof buf - 1, f);
    fclose(f);
    buf[n] = 0;
    char* rp = strrchr(buf, ')');
    if (!rp) return false;
    char state = 0; unsigned long long ut = 0, st = 0;
    /* after ") ": state ppid pgrp session tty tpgid flags minflt cminflt majflt cmajflt utime stime */
    if (sscanf(rp + 2, "%c %*d %*d %*d %*d %*d %*u %*u %*u %*u %*u %llu %llu", &state, &ut, &st) != 3) return false;
    if (state != 'S') return false;
    if (k == 0) cpu0 = ut + st; else if (ut + st != cpu0) return false;
    if (k < 5) { struct timespec ts = {2, 0}; nanosleep(&ts, NULL); }
  }
  return true;
}

static void thr_case(int nthreads, int nops, uint64_t seed, bool tsan) {
  uint8_t desc[12] = {'T', (uint8_t)nthreads, (uint8_t)(nops >> 8), (uint8_t)nops};
  for (int i = 0; i < 8; i++) desc[4 + i] = (uint8_t)(seed >> (56 - 8 * i));
  if (!vh_case(desc, 12)) return;
  struct tctx cs[MAXT];
  pthread_t th[MAXT];
  pthread_barrier_t bar;
  pthread_barrier_init(&bar, NULL, (unsigned)nthreads);
  memset(cs, 0, sizeof cs);
  static char ps0[6000], ps1[6000];
  /* the client's process runs in a UTF-8 locale for every other run (set once here, by the client, before any thread
   * starts): whatever the library asks the C library's multibyte / wide-character functions then has shared
   * conversion state behind it, which the "C" locale never has */
  {
    const char* want = (seed & 1) ? "C.UTF-8" : "C";
    if (!setlocale(LC_ALL, want)) { if (seed & 1) { if (!setlocale(LC_ALL, "en_US.UTF-8")) { setlocale(LC_ALL, "C"); VH_COUNT("runs_without_a_utf8_locale_available", 1); } } }
    const char* now = setlocale(LC_CTYPE, NULL);
    if (now && strstr(now, "UTF-8")) VH_COUNT("runs_in_a_utf8_locale", 1);
  }
  uint64_t psh0 = process_state(ps0, sizeof ps0);
  FILE* shared = tmpfile();
  if (!shared) vh_die("tmpfile failed");
  /* once a run has ended with a blocked thread (reported below) the later runs of this shard leave the failing stream out */
  char marker[64];
  snprintf(marker, sizeof marker, "thr-blocked-%d.marker", O.shard);
  FILE* shared_bad = access(marker, F_OK) == 0 ? NULL : fopen("/dev/full", "w");
  if (shared_bad) setvbuf(shared_bad, NULL, _IONBF, 0);
  for (int i = 0; i < nthreads; i++) {
    cs[i].id = i; cs[i].seed = seed * 1000003 + (uint64_t)i; cs[i].nops = nops; cs[i].bar = &bar; cs[i].shared = shared; cs[i].shared_bad = shared_bad;
    cs[i].record = true; cs[i].stamps = malloc(sizeof(struct opstamp) * MAXOPS);
  }
  for (int i = 0; i < nthreads; i++) if (pthread_create(&th[i], NULL, thread_main, &cs[i])) vh_die("pthread_create failed");
  {
    /* every thread must come back: one that blocks for ever on something another thread left behind (a stream lock taken
     * and not released, say) is reported, and the process ends there — stuck threads cannot be recovered */
    struct timespec dl;
    clock_gettime(CLOCK_REALTIME, &dl);
    dl.tv_sec += 90;
    for (int i = 0; i < nthreads; i++)
      for (int round = 0; pthread_timedjoin_np(th[i], NULL, &dl) != 0; round++) {
        if (!thread_is_blocked(cs[i].tid)) { /* slow, not blocked: wait on; after ten more rounds the run is inconclusive, not a violation */
          if (round >= 10) vh_die("thread %d of %d neither finished nor is blocked after %d deadlines of 90 s (machine overloaded?)", i, nthreads, round + 1);
          VH_COUNT("deadline_extensions_for_slow_threads", 1);
          clock_gettime(CLOCK_REALTIME, &dl);
          dl.tv_sec += 90;
          continue;
        }
        vh_violation("thread-blocked", "thread %d of %d (private items; one healthy and one failing shared stream) did not finish within 90 s of workloads that take well under a second, and the kernel reports it asleep with no CPU time consumed over 10 s: it is blocked on state another thread's call left behind", i, nthreads);
        { FILE* mk = fopen(marker, "w"); if (mk) fclose(mk); }
        fflush(NULL);
        _exit(1);
      }
  }
  if (shared_bad) fclose(shared_bad);
  pthread_barrier_destroy(&bar);
  overlaps(cs, nthreads);
  {
    uint64_t psh1 = process_state(ps1, sizeof ps1);
    if (psh1 != psh0) {
      char diff[400];
      process_state_diff(ps0, ps1, diff, sizeof diff);
      vh_violation("process-state-changed", "%d threads ran workloads on private items and private streams; afterwards process-wide state outside the library differs: %s — something saved, changed and restored it around a call, which loses updates when calls overlap", nthreads, diff);
    }
    VH_COUNT("process_state_snapshots_compared", 1);
  }
  /* conservation on the shared stream: every byte the threads' describe calls produce arrives exactly once */
  {
    uint64_t want[256] = {0}, got[256] = {0}, calls = 0, total = 0;
    for (int i = 0; i < nthreads; i++) { calls += cs[i].shared_calls; for (int b = 0; b < 256; b++) want[b] += cs[i].hist[b]; }
    fflush(shared);
    rewind(shared);
    uint8_t blk[8192];
    size_t k;
    while ((k = fread(blk, 1, sizeof blk, shared)) > 0) { total += k; for (size_t q = 0; q < k; q++) got[blk[q]]++; }
    fclose(shared);
    for (int b = 0; b < 256; b++)
      if (want[b] != got[b]) {
        vh_violation("shared-stream-output-lost-or-duplicated", "%d threads described private items to one shared stream (%llu calls): byte 0x%02x was produced %llu times but arrived %llu times — output through a stream shared between threads is not written atomically per call", nthreads,
                     (unsigned long long)calls, b, (unsigned long long)want[b], (unsigned long long)got[b]);
        break;
      }
    VH_COUNT("shared_stream.describe_calls", calls);
    VH_COUNT("shared_stream.bytes_checked", total);
  }
  /* the same workloads, alone */
  for (int i = 0; i < nthreads; i++) {
    struct tctx solo = {.id = i, .seed = cs[i].seed, .nops = nops, .record = false};
    TS_allocs = TS_frees = 0;
    workload(&solo);
    g_thread_workloads++;
    if (solo.digest != cs[i].digest) {
      g_digest_mismatch++;
      vh_violation("result-differs-from-solo-run", "thread %d of %d (seed %llu, %d ops) produced digest %016llx when run concurrently and %016llx when run alone", i, nthreads, (unsigned long long)cs[i].seed, nops,
                   (unsigned long long)cs[i].digest, (unsigned long long)solo.digest);
    }
    if (cs[i].allocs != cs[i].frees) vh_violation("leak", "thread %d: %llu blocks obtained, %llu released", i, (unsigned long long)cs[i].allocs, (unsigned long long)cs[i].frees);
    for (int f = 0; f < F_N; f++) { char nm[48]; snprintf(nm, sizeof nm, "api_calls.%s", fnames[f]); vh_count_dyn(nm, cs[i].ops_done[f]); }
    free(cs[i].stamps);
  }
  if (tsan) {
    uint64_t rl = 0, ro = 0;
    char what[96];
    snprintf(what, sizeof what, "%d threads x %d ops, seed %llu", nthreads, nops, (unsigned long long)seed);
    harvest_tsan(what, &rl, &ro);
    VH_COUNT("tsan.reports_with_libcbor_frames", rl);
    VH_COUNT("tsan.reports_elsewhere", ro);
  }
  g_runs++;
  vh_nontrivial(vh_hash(desc, 12));
}

/* ---------------------------------------------- writable-segment snapshot */
struct seg { uintptr_t lo, hi; bool found; char name[256]; uint8_t* tls; size_t tls_len; };
static int phdr_cb(struct dl_phdr_info* info, size_t size, void* ud) {
  (void)size;
  struct seg* s = ud;
  if (!info->dlpi_name || !strstr(info->dlpi_name, "libcbor-picso")) return 0;
  for (int i = 0; i < info->dlpi_phnum; i++) {
    const ElfW(Phdr)* ph = &info->dlpi_phdr[i];
    if (ph->p_type == PT_TLS && ph->p_memsz) { s->tls = info->dlpi_tls_data; s->tls_len = ph->p_memsz; } /* this thread's copy of the module's thread-local block */
    if (ph->p_type == PT_LOAD && (ph->p_flags & PF_W)) {
      uintptr_t lo = info->dlpi_addr + ph->p_vaddr, hi = lo + ph->p_memsz;
      if (!s->found) { s->lo = lo; s->hi = hi; s->found = true; }
      else { if (lo < s->lo) s->lo = lo; if (hi > s->hi) s->hi = hi; }
      snprintf(s->name, sizeof s->name, "%s", info->dlpi_name);
    }
  }
  return 0;
}
static void segment_case(uint64_t seed, int nthreads, int nops) {
  uint8_t desc[12] = {'S', (uint8_t)nthreads, (uint8_t)(nops >> 8), (uint8_t)nops};
  for (int i = 0; i < 8; i++) desc[4 + i] = (uint8_t)(seed >> (56 - 8 * i));
  if (!vh_case(desc, 12)) return;
  struct seg s = {0};
  dl_iterate_phdr(phdr_cb, &s);
  if (!s.found) vh_die("segment: the library DSO's writable segment was not found (is this the pic-so flavour?)");
  size_t len = s.hi - s.lo;
  uint8_t* before = malloc(len);
  memcpy(before, (void*)s.lo, len);
  /* thread-local objects of the library are hidden state too (per thread instead of per process) */
  uint8_t* tls_before = NULL;
  if (s.tls && s.tls_len) { tls_before = malloc(s.tls_len); memcpy(tls_before, s.tls, s.tls_len); }
  VH_MAX("max_thread_local_bytes_of_the_library", s.tls_len);
  if (nthreads <= 1) {
    struct tctx solo = {.id = 0, .seed = seed, .nops = nops, .record = false};
    workload(&solo);
  } else {
    struct tctx cs[MAXT];
    pthread_t th[MAXT];
    pthread_barrier_t bar;
    pthread_barrier_init(&bar, NULL, (unsigned)nthreads);
    memset(cs, 0, sizeof cs);
    for (int i = 0; i < nthreads; i++) { cs[i].id = i; cs[i].seed = seed * 1000003 + (uint64_t)i; cs[i].nops = nops; cs[i].bar = &bar; }
    for (int i = 0; i < nthreads; i++) if (pthread_create(&th[i], NULL, thread_main, &cs[i])) vh_die("pthread_create failed");
    for (int i = 0; i < nthreads; i++) pthread_join(th[i], NULL);
    pthread_barrier_destroy(&bar);
  }
  size_t changed = 0, first = 0;
  for (size_t i = 0; i < len; i++) if (before[i] != ((uint8_t*)s.lo)[i]) { if (!changed) first = i; changed++; }
  if (changed) vh_violation("library-global-state-changed", "%zu byte(s) of the library's %zu-byte writable segment changed across a workload that only used the public API on private items (first at offset %zu): hidden mutable global state", changed, len, first);
  if (tls_before) {
    size_t tchanged = 0;
    for (size_t i = 0; i < s.tls_len; i++) if (tls_before[i] != s.tls[i]) tchanged++;
    if (tchanged && nthreads <= 1) vh_violation("library-global-state-changed", "%zu byte(s) of the library's %zu-byte thread-local block changed across a single-threaded workload that only used the public API: hidden mutable state", tchanged, s.tls_len);
    free(tls_before);
  }
  VH_MAX("max_writable_segment_bytes", len);
  VH_COUNT("segment_snapshots_compared", 1);
  free(before);
  vh_nontrivial(vh_hash(desc, 12));
}

/* ------------------------------------------------- C18: concurrent readers */
struct rctx { const cbor_item_t* root; pthread_barrier_t* bar; int id; int rounds; uint64_t calls; };
struct rnode_ud { unsigned char* out; size_t outn; struct rctx* c; int phase; };
static void reader_node(const cbor_item_t* it, void* ud_) {
  struct rnode_ud* ud = ud_;
  int n = ro_count();
  for (int k = 0; k < n; k++) { int fn = (k + ud->phase) % n; if (ro_apply(fn, it, ud->out, ud->outn)) ud->c->calls++; }
}
static void* reader_main(void* arg) {
  struct rctx* c = arg;
  size_t outn = 1 << 16;
  unsigned char* out = malloc(outn);
  pthread_barrier_wait(c->bar);
  for (int r = 0; r < c->rounds; r++) {
    struct rnode_ud ud = {out, outn, c, c->id + r};
    ro_each_node(c->root, reader_node, &ud);
  }
  free(out);
  return NULL;
}
static uint64_t g_reader_calls;
static void readers_case(uint64_t u, uint64_t seed, int nthreads) {
  uint8_t desc[18] = {'R', (uint8_t)nthreads};
  for (int i = 0; i < 8; i++) { desc[2 + i] = (uint8_t)(u >> (56 - 8 * i)); desc[10 + i] = (uint8_t)(seed >> (56 - 8 * i)); }
  if (!vh_case(desc, 18)) return;
  struct vh_rng r;
  vh_rng_seed(&r, seed * 0xc18 + u);
  struct gen_cfg cfg = {.max_nodes = 4 + (int)(u % 25), .max_depth = 6, .nonminimal = false, .assigned_simple_only = true};
  rnode* t = u < nsys_cached ? gen_systematic(u) : gen_tree(&r, &cfg);
  if (!t) return;
  struct vh_buf enc = {0};
  ref_encode(t, &enc);
  cbor_item_t* root = NULL;
  if (enc.n <= 60000) root = walk_build_from_ref(t);
  rn_free(t);
  vb_free(&enc);
  if (!root) return;
  struct vh_buf d0 = {0}, d1 = {0};
  walk_dump_item(root, &d0, WD_REFCOUNTS | WD_IDENTITY);
  struct rctx cs[MAXT];
  pthread_t th[MAXT];
  pthread_barrier_t bar;
  pthread_barrier_init(&bar, NULL, (unsigned)nthreads);
  for (int i = 0; i < nthreads; i++) { cs[i] = (struct rctx){root, &bar, i, 3, 0}; if (pthread_create(&th[i], NULL, reader_main, &cs[i])) vh_die("pthread_create failed"); }
  for (int i = 0; i < nthreads; i++) { pthread_join(th[i], NULL); g_reader_calls += cs[i].calls; }
  pthread_barrier_destroy(&bar);
  walk_dump_item(root, &d1, WD_REFCOUNTS | WD_IDENTITY);
  if (d0.n != d1.n || memcmp(d0.p, d1.p, d0.n)) vh_violation("tree-changed", "the shared tree's contents or reference counts differ after %d concurrent readers finished", nthreads);
  uint64_t rl = 0, ro = 0;
  char what[96];
  snprintf(what, sizeof what, "%d concurrent readers of one shared tree (#%llu)", nthreads, (unsigned long long)u);
  harvest_tsan(what, &rl, &ro);
  VH_COUNT("tsan.reports_with_libcbor_frames", rl);
  VH_COUNT("tsan.reports_elsewhere", ro);
  VH_COUNT("shared_trees", 1);
  cbor_decref(&root);
  vb_free(&d0); vb_free(&d1);
  vh_nontrivial(vh_hash(desc, 18));
}

/* ------------------------------------------------------------------ entry */
static void thr_setup(void) {
  ref_selftest();
  nsys_cached = gen_systematic_count(); /* builds the shared, afterwards read-only, leaf table before any thread exists */
  ts_install();
  FILE* f = fopen(vh_errpath(), "r");
  if (f) { fseek(f, 0, SEEK_END); g_err_off = ftell(f); fclose(f); }
}

static void thr_run(void) {
  thr_setup();
  const char* st = O.stage;
  bool is17 = !strcmp(O.prop, "C17"), is18 = !strcmp(O.prop, "C18");
  static const int tcounts[] = {2, 4, 8, 16, 3, 16, 8, 2};
  if (is17 && (!strcmp(st, "tsan") || !strcmp(st, "digest"))) {
    bool tsan = !strcmp(st, "tsan");
    uint64_t runs = O.budget ? O.budget : (O.thorough ? 600 : 40);
    int nops = O.budget2 ? (int)O.budget2 : (tsan ? 250 : 1500);
    for (uint64_t u = 0; u < runs; u++) {
      if ((int)(u % (uint64_t)O.nshards) != O.shard) continue;
      thr_case(tcounts[u % 8], nops, O.seed * 7919 + u, tsan);
    }
    int pairs = 0;
    for (int a = 0; a < F_N; a++) for (int b = 0; b < F_N; b++) pairs += pair_seen[a][b];
    vh_count_dyn("max_distinct_concurrent_api_pairs_observed_by_one_worker", (uint64_t)pairs);
    vh_count_dyn("max_api_pairs_possible", F_N * F_N);
    vh_count_dyn("thread_workloads_compared_with_solo", g_thread_workloads);
    vh_count_dyn("runs", g_runs);
    vh_set_rule("each case is one run of N threads (N in 2..16) released by a barrier, each executing a seeded random workload over the public API on thread-private items; ThreadSanitizer reports with a libcbor frame, and any difference between a thread's result digest and the digest of the same workload run alone, are violations; non-trivial = the run completed; distinct by hash of (N, ops, seed). max_distinct_concurrent_api_pairs_observed_by_one_worker counts (function A in one thread overlapping function B in another) pairs actually seen by rdtsc stamps");
  } else if (is17 && !strcmp(st, "segment")) {
    uint64_t runs = O.budget ? O.budget : (O.thorough ? 400 : 48);
    for (uint64_t u = 0; u < runs; u++) {
      if ((int)(u % (uint64_t)O.nshards) != O.shard) continue;
      segment_case(O.seed * 104729 + u, u % 3 == 0 ? 1 : tcounts[u % 8], 300);
    }
    vh_set_rule("each case snapshots the writable PT_LOAD segment of the libcbor shared object, runs a seeded workload (single- or multi-threaded) over the public API, and compares the segment byte for byte; any change is hidden mutable global state; distinct by hash of the seed");
  } else if (is18 && !strcmp(st, "readers")) {
    uint64_t runs = O.budget ? O.budget : (O.thorough ? 4000 : 400);
    for (uint64_t u = 0; u < runs; u++) {
      if ((int)(u % (uint64_t)O.nshards) != O.shard) continue;
      uint64_t idx = (u * 37) % (nsys_cached + 2000);
      readers_case(idx, O.seed, (u & 1) ? 8 : 4);
    }
    vh_count_dyn("read_only_calls_by_readers", g_reader_calls);
    vh_set_rule("each case is one fully built tree read concurrently by 4 or 8 threads, each applying every read-only function to every node, under ThreadSanitizer; any report with a libcbor frame is a violation; distinct by hash of the tree index");
  } else vh_die("driver thr: unknown prop/stage %s/%s", O.prop, st);
  vh_set_exhaustive(false);
}
static void thr_exec(const uint8_t* d, size_t n) {
  thr_setup();
  if (n == 12 && (d[0] == 'T' || d[0] == 'S')) {
    uint64_t seed = 0;
    for (int i = 0; i < 8; i++) seed = seed << 8 | d[4 + i];
    int nops = d[2] << 8 | d[3];
    if (d[0] == 'T') thr_case(d[1], nops, seed, O.flavour && !strcmp(O.flavour, "tsan")); else segment_case(seed, d[1], nops);
    return;
  }
  if (n == 18 && d[0] == 'R') { uint64_t u = 0, s = 0; for (int i = 0; i < 8; i++) { u = u << 8 | d[2 + i]; s = s << 8 | d[10 + i]; } readers_case(u, s, d[1]); return; }
  printf("unrecognised descriptor\n");
}
const struct vh_driver drv_thr = {"thr", thr_run, thr_exec, "threads: TSan, digests, DSO writable segment, concurrent readers (C17, C18)"};
