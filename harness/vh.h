/* vh.h — shared declarations of the libcbor verification harness.
 *
 * One binary per build flavour (asan-full, asan, plain-O2, ...).  A binary
 * contains every driver; `vh <driver> [options]` runs one.  Every test case of
 * every driver is a byte string (the "descriptor"): an input buffer, an op
 * program, an operand pair...  Descriptors are what breadcrumbs, samples,
 * witnesses and replay files carry.
 *
 * Process model: the supervisor (parent) owns a MAP_SHARED state block, forks a
 * child that runs the driver; if the child dies (sanitizer abort, assertion,
 * signal, hang) the supervisor records the breadcrumb as a violation and forks
 * a new child that resumes after the offending case.  So one defect does not
 * mask the rest, and counters survive crashes.
 */
#ifndef VH_H
#define VH_H
#include <stdbool.h>
#include <stddef.h>
#include <stdint.h>
#include <stdio.h>
#include <stdlib.h>
#include <string.h>

#include "cbor.h"

/* MemorySanitizer interface (clang "msan" flavour only): poison outputs before a call, test them afterwards */
#if defined(__has_feature)
#if __has_feature(memory_sanitizer)
#include <sanitizer/msan_interface.h>
#define VH_MSAN 1
#endif
#endif
#ifdef VH_MSAN
#define VH_POISON(p, n) __msan_poison((p), (n))
#define VH_UNPOISON(p, n) __msan_unpoison((p), (n))
#define VH_UNINIT_AT(p, n) ((long)__msan_test_shadow((p), (n))) /* offset of the first uninitialised byte, -1 if none */
#else
#define VH_POISON(p, n) ((void)0)
#define VH_UNPOISON(p, n) ((void)0)
#define VH_UNINIT_AT(p, n) ((long)-1)
#endif

/* ------------------------------------------------------------------ options */
struct vh_opts {
  const char* driver;
  const char* prop;   /* property id this run decides, e.g. "C01" */
  const char* stage;  /* driver-specific sub-workload name */
  const char* out;    /* result JSON path */
  int thorough;
  uint64_t seed;
  int shard, nshards;
  uint64_t budget;   /* driver-specific size knob (0 = default) */
  uint64_t budget2;  /* second knob */
  const char* replay_hex; /* run exactly this descriptor, verbosely */
  int verbose;
  int hang_secs;      /* per-case watchdog (supervisor) */
  const char* flavour;
  long L;             /* CBOR_MAX_STACK_SIZE of the library linked in */
};
extern struct vh_opts O;

/* ------------------------------------------------------------------ drivers */
struct vh_driver {
  const char* name;
  void (*run)(void);                               /* enumerate + execute cases */
  void (*exec)(const uint8_t* desc, size_t n);     /* execute one descriptor */
  const char* help;
};
extern const struct vh_driver* const vh_drivers[];

/* ---------------------------------------------------------------- framework */
/* Announce the next case.  Writes the breadcrumb, bumps `evaluations`.
 * Returns false if the case must be skipped (resume after a crash). */
bool vh_case(const uint8_t* desc, size_t n);
/* Call when the current case is non-trivial by the driver's rule; `h` is a
 * 64-bit hash identifying the case (use vh_hash of the descriptor). */
void vh_nontrivial(uint64_t h);
/* Exhaustive enumerations are distinct by construction: count without hashing */
void vh_nontrivial_distinct(void);
bool vh_sampling(void);                 /* is the current case being sampled? */
void vh_sample_text(const char* fmt, ...) __attribute__((format(printf, 1, 2)));
/* Record a violation for the current case. `key` is a short stable class name
 * ("accept-mismatch", "leak", ...). Does not stop the run. */
void vh_violation(const char* key, const char* fmt, ...)
    __attribute__((format(printf, 2, 3)));
/* Machinery failure: exit code 2 (never a verdict about libcbor). */
uint64_t vh_violation_count(void);
void vh_die(const char* fmt, ...) __attribute__((format(printf, 1, 2), noreturn));
void vh_set_rule(const char* rule);
void vh_set_exhaustive(bool b);
void vh_note(const char* key, const char* fmt, ...) __attribute__((format(printf, 2, 3)));

int vh_counter_id(const char* name);
extern uint64_t* vh_counters; /* in shared state */
#define VH_COUNT(name, inc)                     \
  do {                                          \
    static int _vh_i = -1;                      \
    if (_vh_i < 0) _vh_i = vh_counter_id(name); \
    vh_counters[_vh_i] += (uint64_t)(inc);      \
  } while (0)
#define VH_MAX(name, v)                                        \
  do {                                                         \
    static int _vh_i = -1;                                     \
    if (_vh_i < 0) _vh_i = vh_counter_id(name);                \
    if ((uint64_t)(v) > vh_counters[_vh_i]) vh_counters[_vh_i] = (uint64_t)(v); \
  } while (0)
void vh_count_dyn(const char* name, uint64_t inc); /* slow path, dynamic names */

uint64_t vh_hash(const void* p, size_t n);
uint64_t vh_hash_mix(uint64_t h, uint64_t v);

/* PRNG (xoshiro256**) */
struct vh_rng { uint64_t s[4]; };
void vh_rng_seed(struct vh_rng* r, uint64_t seed);
uint64_t vh_rand(struct vh_rng* r);
static inline uint64_t vh_below(struct vh_rng* r, uint64_t n) { return n ? vh_rand(r) % n : 0; }

/* a > 8 GiB virtual region (NULL if the address space cannot be had) for buffers whose own size exceeds 2^32 */
uint8_t* vh_huge_region(size_t* len);
/* scramble ambient thread state libcbor must not depend on: errno and the floating-point rounding mode, chosen by `k` */
void vh_ambient_scramble(uint64_t k);
void vh_ambient_restore(void);
/* exactly-sized heap copy (also for n == 0) so over-reads hit a red zone */
uint8_t* vh_exact(const uint8_t* p, size_t n);
uint8_t* vh_exact_mis(const uint8_t* p, size_t n, unsigned k, void** base); /* starts k bytes into its block; free *base */

/* growable byte buffer */
struct vh_buf { uint8_t* p; size_t n, cap; };
void vb_reserve(struct vh_buf* b, size_t extra);
void vb_put(struct vh_buf* b, const void* p, size_t n);
void vb_u8(struct vh_buf* b, uint8_t v);
void vb_u64(struct vh_buf* b, uint64_t v);
void vb_be(struct vh_buf* b, uint64_t v, int nbytes);
void vb_printf(struct vh_buf* b, const char* fmt, ...) __attribute__((format(printf, 2, 3)));
void vb_reset(struct vh_buf* b);
void vb_free(struct vh_buf* b);
char* vh_hex(const uint8_t* p, size_t n, size_t maxbytes); /* static ring of buffers */
size_t vh_unhex(const char* s, uint8_t** out);

/* --------------------------------------------------------------- allocators */
/* "track": libc pass-through + side table + fault policies */
void tg_install_variant(unsigned v); /* one of 8 triples made of two copies of each tagged function */
extern size_t AR_cap;
extern bool AR_bump_mode; /* header-less back-to-back placement instead of the header-carrying zones (set before ar_install) */
extern unsigned TG_variant;
extern uint64_t TG_stale_calls, PT_reallocs, PT_frees;
void pt_install(void);                /* (libc malloc, counting realloc, counting free) */
#define TA_MAX_REALLOC_IDX 4096
extern uint64_t ta_realloc_idx[TA_MAX_REALLOC_IDX]; /* request indices of the realloc calls since the last ta_reset_stats */
extern size_t ta_nrealloc_idx;
void ta_install(void);
void ta_reset_stats(void);
struct ta_stats {
  uint64_t requests, mallocs, reallocs, frees, free_null, realloc_null, refused,
      bad_free, bad_realloc, bytes_requested, max_request;
};
extern struct ta_stats TA;
size_t ta_live_count(void);
void ta_forget_all(void);
uint64_t ta_live_sig(void);   /* order-independent signature of live serials */
void ta_set_cap(size_t cap);  /* refuse any single request > cap (0 = none) */
void ta_fail_at(int64_t k);   /* refuse request #k only (-1 = off)  */
void ta_fail_from(int64_t k); /* refuse request #k and all later (-1 = off) */
bool ta_is_live(const void* p);
size_t ta_block_size(const void* p); /* (size_t)-1 if unknown */
uint64_t ta_block_serial(const void* p);
void ta_set_free_hook(void (*hook)(void* p, size_t size));
void ta_set_record_only(bool on);
void ta_set_zero_null(bool on); /* malloc(0)/realloc(NULL,0) return NULL, as some allocators do */ /* C20: record request sizes then refuse everything */
uint64_t ta_last_request_size(void);
const char* ta_ring_dump(void);   /* last events, for witnesses */
void* ta_malloc(size_t n);
void* ta_realloc(void* p, size_t n);
void ta_free(void* p);
/* A self-check used as positive control */
bool ta_selftest(void);

/* "tagged": hidden 32-byte header in front of every block */
void tg_install(void);
extern uint64_t TG_bad_magic, TG_allocs, TG_frees, TG_live, TG_refused;
extern bool TG_refuse_all;

/* "arena": mmap-backed, no libc behind it; two zones, zone 0 can be frozen */
void ar_install(void);
void ar_reset(void);             /* drop everything in both zones */
void ar_use_zone(int z);
void ar_freeze(bool ro);         /* mprotect zone 0 */
bool ar_contains(const void* p); /* either zone */
int ar_zone_of(const void* p);
bool ar_block_of(const void* addr, uintptr_t* base, size_t* size);
extern uint64_t AR_foreign_free, AR_allocs, AR_frees, AR_live, AR_refused;
extern bool AR_refuse_all;
extern volatile int vh_in_lib; /* set by drivers around libcbor calls (bypass detector) */
extern uint64_t VH_bypass_calls;

/* "tsafe": libc pass-through with thread-local counters only */
void ts_install(void);
extern __thread uint64_t TS_allocs, TS_frees;

/* ---------------------------------------------------------- reference model */
enum rkind { R_UINT, R_NEGINT, R_BYTES, R_TEXT, R_ARRAY, R_MAP, R_TAG, R_FLOAT, R_SIMPLE };
typedef struct rnode {
  uint8_t kind;
  uint8_t width;  /* ints: 0..3 = 1,2,4,8-byte storage; floats: 1,2,3 = half,single,double */
  uint8_t indef;  /* strings, arrays, maps */
  uint8_t headw;  /* source head form: 0 immediate, 1,2,4,8 argument bytes, 31 indefinite; 255 = shortest */
  uint64_t val;   /* int value / tag number / simple value / float bit pattern at its width */
  uint8_t* bytes; /* definite strings */
  size_t len;
  struct rnode** kids; /* array members, map k,v,k,v..., chunks, tag content */
  size_t nkids, cap;
  uint64_t declared; /* declared count for definite arrays/maps (pairs) */
  uint32_t share_of;  /* builder: 1+index of the earlier sibling whose libcbor item is reused (shared sub-item) */
  uint32_t extra_cap; /* builder: spare preallocated slots of a definite container */
} rnode;
rnode* rn_new(int kind);
void rn_add(rnode* parent, rnode* kid);
void rn_free(rnode* n);
rnode* rn_clone(const rnode* n);
size_t rn_count(const rnode* n);
size_t rn_depth(const rnode* n); /* open-nesting depth needed to decode it */

enum rcode { RC_ACCEPT = 0, RC_NOTENOUGHDATA = 1, RC_NODATA = 2, RC_MALFORMATED = 3, RC_MEMERROR = 4, RC_SYNTAXERROR = 5 };
struct rverdict {
  int code;       /* enum rcode; numerically equal to cbor_error_code */
  size_t pos;     /* error position (failures) */
  size_t read;    /* encoded length (accept) */
  rnode* tree;    /* accept && want_tree */
  size_t max_depth; /* deepest open nesting reached */
  size_t heads;     /* heads scanned */
};
enum { RM_EAGER = 0, RM_LAZY = 1 };
/* Classify/decode `in[0..size)` with nesting limit L. head_ends (optional):
 * receives the end offset of every head scanned before the verdict, and
 * head_counts the declared count/length argument of each (for admissibility). */
struct rheads { size_t* start; size_t* end; uint64_t* arg; uint8_t* ib; size_t n, cap; };
struct rverdict ref_decode(const uint8_t* in, size_t size, size_t L, int mode, bool want_tree, struct rheads* heads);
void rheads_free(struct rheads* h);
/* canonical encoding libcbor must produce for the tree */
void ref_encode(const rnode* n, struct vh_buf* out);
/* source encoding honouring headw (possibly non-minimal heads) */
void ref_encode_src(const rnode* n, struct vh_buf* out);
unsigned __int128 ref_encoded_size(const rnode* n);

/* one-head tokeniser (streaming layer) */
enum rtok_status { RT_FINISHED, RT_NEDATA, RT_ERROR };
enum rslot { S_UINT8, S_UINT16, S_UINT32, S_UINT64, S_NEGINT8, S_NEGINT16, S_NEGINT32, S_NEGINT64,
  S_BSTR_START, S_BSTR, S_STR, S_STR_START, S_INDEF_ARRAY, S_ARRAY, S_INDEF_MAP, S_MAP, S_TAG,
  S_FLOAT2, S_FLOAT4, S_FLOAT8, S_UNDEF, S_NULL, S_BOOL, S_BREAK, S_NSLOTS };
extern const char* const rslot_names[S_NSLOTS];
struct rtoken {
  int status;
  int slot;
  uint64_t arg;        /* integer / count / length / tag / bool / float bits at width */
  size_t read;         /* FINISHED: head (+payload) length */
  size_t payload_off;  /* strings: offset of payload */
  unsigned __int128 full; /* total length of head + payload (may exceed size_t) */
  size_t head_len;     /* 1 + argument bytes */
};
struct rtoken ref_tokenize(const uint8_t* in, size_t size);
bool ref_reserved(uint8_t ib);

/* IEEE-754 helpers (bit manipulation only) */
uint32_t ref_half_to_single_bits(uint16_t h);
bool ref_single_to_half_exact(uint32_t f, uint16_t* h); /* true iff representable */
static inline bool ref_is_nan32(uint32_t b) { return (b & 0x7f800000u) == 0x7f800000u && (b & 0x7fffffu); }
static inline bool ref_is_nan64(uint64_t b) { return (b & 0x7ff0000000000000ull) == 0x7ff0000000000000ull && (b & 0xfffffffffffffull); }
static inline bool ref_is_nan16(uint16_t b) { return (b & 0x7c00) == 0x7c00 && (b & 0x3ff); }
/* RFC 3629 validator: returns true if valid, *count = scalar values */
bool ref_utf8(const uint8_t* p, size_t n, size_t* count);
void ref_selftest(void); /* dies (exit 2) on failure */

/* ------------------------------------------------------------------- walker */
/* Canonical dump of a libcbor item (through public getters) and of a reference
 * tree, in the same byte format, so equality is memcmp. flags: */
enum { WD_REFCOUNTS = 1, WD_IDENTITY = 2 };
void walk_dump_item(const cbor_item_t* it, struct vh_buf* out, int flags);
void walk_dump_ref(const rnode* n, struct vh_buf* out);
/* human-readable, for witnesses */
void walk_print_item(const cbor_item_t* it, struct vh_buf* out);
/* every allocator block reachable from the tree: calls cb(ptr,len,what) */
typedef void (*walk_block_cb)(const void* p, size_t len, const char* what, void* ud);
void walk_blocks(const cbor_item_t* it, walk_block_cb cb, void* ud);
size_t walk_count_nodes(const cbor_item_t* it);
/* predicates / getters consistent on every node? NULL if so, else a description */
const char* walk_check_predicates(const cbor_item_t* it);
/* all nodes have refcount 1? */
bool walk_all_rc1(const cbor_item_t* it);
/* build a libcbor tree from a reference tree through the construction API */
cbor_item_t* walk_build_from_ref(const rnode* n);

/* --------------------------------------------------------------- generators */
struct gen_cfg { int max_nodes; int max_depth; bool nonminimal; bool assigned_simple_only; };
rnode* gen_tree(struct vh_rng* r, const struct gen_cfg* cfg);
/* systematic trees: index -> tree, returns NULL past the end */
rnode* gen_systematic(uint64_t idx);
uint64_t gen_systematic_count(void);
uint64_t gen_bigleaf_count(void); /* big single leaves (128 KiB..16 MiB strings, 10 000..400 000 members), outside the systematic index space */
rnode* gen_bigleaf(uint64_t i);
uint64_t gen_dict_count(void); /* the last gen_dict_count() indices are the dictionary of well-known encodings */
/* neighbours of an encoding x (needs its head boundaries): calls cb for each */
typedef void (*gen_bytes_cb)(const uint8_t* p, size_t n, void* ud);
void gen_neighbours(const uint8_t* x, size_t n, bool full256, gen_bytes_cb cb, void* ud);
extern const uint8_t gen_alphabet[16];
extern const uint64_t gen_boundaries[];
extern const int gen_nboundaries;

/* -------------------------------------------------- recording callback table
 * 24 distinct recorders, one per slot of struct cbor_callbacks. */
struct rec_event { int slot; uint64_t arg; const uint8_t* ptr; uint64_t len; };
#define REC_MAX 8
extern struct rec_event rec_ev[REC_MAX]; /* events since rec_reset (first REC_MAX) */
extern int rec_n;                        /* number of callback invocations since rec_reset */
extern const struct cbor_callbacks rec_table;
extern int rec_reenter;               /* callbacks decode an unrelated buffer before returning */
extern uint64_t rec_reentered_calls;
extern int rec_deep_target, rec_deep_level, rec_deep_ok, rec_deep_first_bad; /* recursive-descent client: callbacks re-enter the decoder that many levels deep */
struct cbor_callbacks rec_table_only(int slot); /* only that callback exists, every other slot is NULL */
extern void* rec_expected_ctx;           /* callbacks check the context pointer they receive */
extern int rec_bad_ctx;
void rec_reset(void);

/* nesting chains (C01 deep stage, C19) */
#define CH_HEAVY_BYTES ((size_t)2 << 20)
#define CH_HEAVY_MEMBERS ((size_t)400000)
enum { CH_TAG, CH_DEFARR, CH_INDEFARR, CH_DEFMAP_KEY, CH_DEFMAP_VAL, CH_INDEFMAP_KEY, CH_INDEFMAP_VAL, CH_MIXED, CH_TAG_WIDE, CH_DEFARR_LAST_OF_3, CH_INDEFMAP_2ND_VALUE, CH_SELFDESCRIBED_ARRAYS, CH_TAG24_ARRAYS, CH_DEEP_THEN_SIBLING, CH_NKINDS };
extern const char* const chain_names[CH_NKINDS];
/* leaf: 0 scalar, 1 chunked byte string, 2 chunked text string (each one more open level),
 * 3 empty definite array, 4 empty definite map (complete at their head: no additional level).
 * open_end[k] (k = 1..levels) receives the offset just past the head that opens level k. */
void gen_chain(int kind, size_t depth, int leaf, struct vh_buf* out, size_t* open_end);

/* low-level encoders by index (C07, C10) */
enum { E_UINT8, E_UINT16, E_UINT32, E_UINT64, E_UINT, E_NEGINT8, E_NEGINT16, E_NEGINT32, E_NEGINT64, E_NEGINT, E_BSTART, E_SSTART, E_ASTART, E_MSTART,
       E_TAG, E_BOOL, E_NULL, E_UNDEF, E_BREAK, E_CTRL, E_IBSTART, E_ISSTART, E_IASTART, E_IMSTART, E_HALF, E_SINGLE, E_DOUBLE, E_N };
extern const char* const enc_names[E_N];
size_t vh_call_encoder(int e, uint64_t v, uint8_t* buf, size_t n);

/* construction-API tree builder with variations (d_ser.c), shared with the fault driver */
extern bool g_any_float_in_half;
cbor_item_t* ser_build_variant(const rnode* n, struct vh_rng* r);
rnode* ser_api_shadow(uint64_t u, uint64_t seed, struct vh_rng* r);

/* read-only API groups (d_ro.c), shared with the thread driver */
bool ro_apply(int fn, const cbor_item_t* it, unsigned char* out, size_t outn);
int ro_count(void);
extern const char* const ro_names[];
void ro_each_node(const cbor_item_t* it, void (*cb)(const cbor_item_t*, void*), void* ud);
const char* vh_errpath(void); /* where this child's stderr goes (sanitizer reports) */

#endif
