#include "vh.h"
extern const struct vh_driver drv_load, drv_stream, drv_ser, drv_hist, drv_fault, drv_float, drv_utf8, drv_ro, drv_thr, drv_nest, drv_arith, drv_idiom;
const struct vh_driver* const vh_drivers[] = {&drv_load, &drv_stream, &drv_ser, &drv_hist, &drv_fault, &drv_float, &drv_utf8, &drv_ro, &drv_thr, &drv_nest, &drv_arith, &drv_idiom, NULL};
