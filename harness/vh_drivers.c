#include "vh.h"
extern const struct vh_driver drv_load, drv_stream, drv_ser, drv_hist, drv_fault;
const struct vh_driver* const vh_drivers[] = {&drv_load, &drv_stream, &drv_ser, &drv_hist, &drv_fault, NULL};
