/* d_idiom.c — driver "idiom" (C04, C12): client-shaped straight-line code compiled, optimised, against the tree's own
 * public headers.
 *
 * Every other driver reaches the API through dispatchers with bookkeeping between calls; each of those is an opaque call
 * or a store to escaped memory, so the compiler keeps every library call exactly where it is written. A real client
 * writes `a = cbor_array_get(x, 0); b = cbor_array_get(x, 0);` or `n = cbor_array_size(x); cbor_array_push(x, y);
 * m = cbor_array_size(x);` in one basic block. What the optimiser may do with that depends on what the HEADERS promise
 * (function attributes such as pure / const / malloc / returns_nonnull, static-inline bodies, macros): a promise that
 * goes beyond what the function does changes the client's behaviour although not one byte of the library differs.
 * Each idiom below is such a block; the observed reference counts / values are read through volatile lvalues and
 * compared with the documented rules. The library calls between the two observations are deliberately NOT separated by
 * anything the optimiser must treat as a barrier. */
#include <stdarg.h>
#include "vh.h"

#define RC(x) (((volatile cbor_item_t*)(x))->refcount)
#define NOINLINE __attribute__((noinline))

static const char* const idiom_names[] = {
    "two cbor_array_get of the same slot", "two cbor_tag_item of the same tag", "cbor_array_get in a loop", "two cbor_incref with unused results",
    "cbor_move then cbor_incref", "two cbor_intermediate_decref", "size getters across an insertion", "value getters across a setter",
    "type predicates across cbor_mark_negint", "handle getters across growth", "string getters across set_handle", "chunk getters across add_chunk",
    "cbor_map_handle / size across cbor_map_add", "cbor_copy twice", "cbor_refcount across incref/decref", "constructor results under refusal",
    "cbor_serialized_size across a mutation", "cbor_float_get_float across setters"};
#define NIDIOMS ((int)(sizeof idiom_names / sizeof idiom_names[0]))

static void bad(int id, const char* fmt, ...) __attribute__((format(printf, 2, 3)));
static void bad(int id, const char* fmt, ...) {
  char msg[400];
  va_list ap;
  va_start(ap, fmt);
  vsnprintf(msg, sizeof msg, fmt, ap);
  va_end(ap);
  vh_violation("client-idiom", "%s: %s — straight-line client code compiled against the public headers does not observe what the documented rules say", idiom_names[id], msg);
}

/* ---- the idioms: each returns observations through out[]; no harness call inside ---- */
static NOINLINE void idiom0(cbor_item_t* arr, size_t* out) {
  cbor_item_t* a = cbor_array_get(arr, 0);
  cbor_item_t* b = cbor_array_get(arr, 0);
  out[0] = RC(a);
  out[1] = a == b;
}
static NOINLINE void idiom1(cbor_item_t* tag, size_t* out) {
  cbor_item_t* a = cbor_tag_item(tag);
  cbor_item_t* b = cbor_tag_item(tag);
  out[0] = RC(a);
  out[1] = a == b;
}
static NOINLINE void idiom2(cbor_item_t* arr, cbor_item_t** got, size_t* out) {
  for (int i = 0; i < 3; i++) got[i] = cbor_array_get(arr, 0);
  out[0] = RC(got[0]);
}
static NOINLINE void idiom3(cbor_item_t* x, size_t* out) {
  cbor_incref(x);
  cbor_incref(x);
  out[0] = RC(x);
}
static NOINLINE void idiom4(cbor_item_t* x, size_t* out) {
  cbor_item_t* m = cbor_move(x);
  out[0] = RC(x);
  cbor_item_t* r = cbor_incref(m);
  out[1] = RC(x);
  out[2] = r == x;
}
static NOINLINE void idiom5(cbor_item_t* x, size_t* out) {
  cbor_intermediate_decref(x);
  cbor_intermediate_decref(x);
  out[0] = RC(x);
}
static NOINLINE void idiom6(cbor_item_t* arr, cbor_item_t* map, cbor_item_t* x, size_t* out) {
  size_t n0 = cbor_array_size(arr), a0 = cbor_array_allocated(arr);
  bool ok = cbor_array_push(arr, x);
  size_t n1 = cbor_array_size(arr), a1 = cbor_array_allocated(arr);
  size_t m0 = cbor_map_size(map), ma0 = cbor_map_allocated(map);
  bool ok2 = cbor_map_add(map, (struct cbor_pair){.key = x, .value = x});
  size_t m1 = cbor_map_size(map), ma1 = cbor_map_allocated(map);
  out[0] = n0; out[1] = n1; out[2] = a0; out[3] = a1; out[4] = ok; out[5] = m0; out[6] = m1; out[7] = ma0; out[8] = ma1; out[9] = ok2;
}
static NOINLINE void idiom7(cbor_item_t* u8, cbor_item_t* u64, cbor_item_t* b, cbor_item_t* c, uint64_t* out) {
  uint64_t v0 = cbor_get_uint8(u8), w0 = cbor_get_int(u8);
  cbor_set_uint8(u8, 200);
  uint64_t v1 = cbor_get_uint8(u8), w1 = cbor_get_int(u8);
  uint64_t x0 = cbor_get_uint64(u64);
  cbor_set_uint64(u64, 0x1122334455667788ull);
  uint64_t x1 = cbor_get_uint64(u64), y1 = cbor_get_int(u64);
  bool b0 = cbor_get_bool(b);
  cbor_set_bool(b, !b0);
  bool b1 = cbor_get_bool(b);
  uint8_t c0 = cbor_ctrl_value(c);
  cbor_set_ctrl(c, 99);
  uint8_t c1 = cbor_ctrl_value(c);
  out[0] = v0; out[1] = v1; out[2] = w0; out[3] = w1; out[4] = x0; out[5] = x1; out[6] = y1; out[7] = b0; out[8] = b1; out[9] = c0; out[10] = c1;
}
static NOINLINE void idiom8(cbor_item_t* i, size_t* out) {
  bool u0 = cbor_isa_uint(i), n0 = cbor_isa_negint(i);
  cbor_type t0 = cbor_typeof(i);
  cbor_mark_negint(i);
  bool u1 = cbor_isa_uint(i), n1 = cbor_isa_negint(i);
  cbor_type t1 = cbor_typeof(i);
  cbor_mark_uint(i);
  bool u2 = cbor_isa_uint(i);
  out[0] = u0; out[1] = n0; out[2] = (size_t)t0; out[3] = u1; out[4] = n1; out[5] = (size_t)t1; out[6] = u2;
}
static NOINLINE void idiom9(cbor_item_t* arr, cbor_item_t* x, size_t* out) {
  /* indefinite array: the storage pointer handed out is only good until the next growth */
  cbor_item_t** h0 = cbor_array_handle(arr);
  size_t ok = 0;
  for (int i = 0; i < 40; i++) ok += cbor_array_push(arr, x);
  cbor_item_t** h1 = cbor_array_handle(arr);
  out[0] = ok;
  out[1] = h1 != NULL && h1[39] == x;
  out[2] = cbor_array_size(arr);
  out[3] = (size_t)(h0 == h1); /* informational only */
}
static NOINLINE void idiom10(cbor_item_t* bs, cbor_item_t* ts, unsigned char* blk1, unsigned char* blk2, size_t* out) {
  size_t l0 = cbor_bytestring_length(bs);
  unsigned char* p0 = cbor_bytestring_handle(bs);
  cbor_bytestring_set_handle(bs, blk1, 5);
  size_t l1 = cbor_bytestring_length(bs);
  unsigned char* p1 = cbor_bytestring_handle(bs);
  size_t t0 = cbor_string_length(ts), c0 = cbor_string_codepoint_count(ts);
  cbor_string_set_handle(ts, blk2, 4); /* "a\xc3\xbc" "z": 3 code points */
  size_t t1 = cbor_string_length(ts), c1 = cbor_string_codepoint_count(ts);
  unsigned char* q1 = cbor_string_handle(ts);
  out[0] = l0; out[1] = l1; out[2] = p0 == NULL; out[3] = p1 == blk1; out[4] = t0; out[5] = t1; out[6] = c0; out[7] = c1; out[8] = q1 == blk2;
}
static NOINLINE void idiom11(cbor_item_t* ibs, cbor_item_t* chunk, size_t* out) {
  size_t n0 = cbor_bytestring_chunk_count(ibs);
  bool ok = cbor_bytestring_add_chunk(ibs, chunk);
  size_t n1 = cbor_bytestring_chunk_count(ibs);
  cbor_item_t** h = cbor_bytestring_chunks_handle(ibs);
  bool ok2 = cbor_bytestring_add_chunk(ibs, chunk);
  size_t n2 = cbor_bytestring_chunk_count(ibs);
  cbor_item_t** h2 = cbor_bytestring_chunks_handle(ibs);
  out[0] = n0; out[1] = n1; out[2] = n2; out[3] = ok && ok2; out[4] = h != NULL; out[5] = h2 != NULL && h2[1] == chunk; out[6] = RC(chunk);
}
static NOINLINE void idiom12(cbor_item_t* map, cbor_item_t* k, cbor_item_t* v, size_t* out) {
  size_t ok = 0;
  for (int i = 0; i < 9; i++) ok += cbor_map_add(map, (struct cbor_pair){.key = k, .value = v});
  struct cbor_pair* h = cbor_map_handle(map);
  out[0] = ok; out[1] = cbor_map_size(map); out[2] = h && h[8].key == k && h[8].value == v; out[3] = RC(k); out[4] = RC(v);
}
static NOINLINE void idiom13(cbor_item_t* x, cbor_item_t** c, size_t* out) {
  c[0] = cbor_copy(x);
  c[1] = cbor_copy(x);
  out[0] = c[0] != NULL && c[1] != NULL && c[0] != c[1] && c[0] != x;
}
static NOINLINE void idiom14(cbor_item_t* x, size_t* out) {
  size_t r0 = cbor_refcount(x);
  cbor_incref(x);
  size_t r1 = cbor_refcount(x);
  cbor_item_t* y = x;
  cbor_decref(&y);
  size_t r2 = cbor_refcount(x);
  out[0] = r0; out[1] = r1; out[2] = r2; out[3] = y == x;
}
static NOINLINE void idiom15(size_t* out) {
  /* every constructor may return NULL: the client's test must survive optimisation */
  size_t nulls = 0, calls = 0;
#define TRY(expr) do { cbor_item_t* it_ = (expr); calls++; if (it_ == NULL) nulls++; else cbor_decref(&it_); } while (0)
  TRY(cbor_new_int8()); TRY(cbor_new_int16()); TRY(cbor_new_int32()); TRY(cbor_new_int64());
  TRY(cbor_build_uint8(1)); TRY(cbor_build_uint16(1)); TRY(cbor_build_uint32(1)); TRY(cbor_build_uint64(1));
  TRY(cbor_build_negint8(1)); TRY(cbor_build_negint16(1)); TRY(cbor_build_negint32(1)); TRY(cbor_build_negint64(1));
  TRY(cbor_new_definite_bytestring()); TRY(cbor_new_indefinite_bytestring()); TRY(cbor_build_bytestring((const unsigned char*)"ab", 2));
  TRY(cbor_new_definite_string()); TRY(cbor_new_indefinite_string()); TRY(cbor_build_string("ab")); TRY(cbor_build_stringn("ab", 2));
  TRY(cbor_new_definite_array(2)); TRY(cbor_new_indefinite_array()); TRY(cbor_new_definite_map(2)); TRY(cbor_new_indefinite_map());
  TRY(cbor_new_tag(1)); TRY(cbor_new_ctrl()); TRY(cbor_new_float2()); TRY(cbor_new_float4()); TRY(cbor_new_float8());
  TRY(cbor_new_null()); TRY(cbor_new_undef()); TRY(cbor_build_bool(true)); TRY(cbor_build_ctrl(1));
  TRY(cbor_build_float2(1.0f)); TRY(cbor_build_float4(1.0f)); TRY(cbor_build_float8(1.0));
#undef TRY
  out[0] = calls; out[1] = nulls;
}
static NOINLINE void idiom16(cbor_item_t* arr, cbor_item_t* x, size_t* out) {
  size_t s0 = cbor_serialized_size(arr);
  bool ok = cbor_array_push(arr, x);
  size_t s1 = cbor_serialized_size(arr);
  out[0] = s0; out[1] = s1; out[2] = ok;
}
static NOINLINE void idiom17(cbor_item_t* f4, cbor_item_t* f8, double* out) {
  double a0 = cbor_float_get_float(f4);
  cbor_set_float4(f4, 2.5f);
  double a1 = cbor_float_get_float(f4);
  float a2 = cbor_float_get_float4(f4);
  double b0 = cbor_float_get_float8(f8);
  cbor_set_float8(f8, -0.125);
  double b1 = cbor_float_get_float8(f8), b2 = cbor_float_get_float(f8);
  out[0] = a0; out[1] = a1; out[2] = (double)a2; out[3] = b0; out[4] = b1; out[5] = b2;
}

static void idiom_case(int id) {
  uint8_t desc[2] = {'I', (uint8_t)id};
  if (!vh_case(desc, 2)) return;
  size_t o[16] = {0};
  switch (id) {
    case 0: {
      cbor_item_t* x = cbor_build_uint8(1), * arr = cbor_new_definite_array(1);
      (void)cbor_array_push(arr, x);
      idiom0(arr, o);
      if (o[0] != 4 || !o[1]) bad(id, "the member's reference count is %zu after the client took two references (rules: client 1 + array 1 + 2 = 4)", o[0]);
      if (RC(x) == 4) { cbor_item_t* t = x; cbor_decref(&t); t = x; cbor_decref(&t); }
      cbor_decref(&x); cbor_decref(&arr);
      break;
    }
    case 1: {
      cbor_item_t* x = cbor_build_uint8(1), * tag = cbor_build_tag(7, x);
      idiom1(tag, o);
      if (o[0] != 4 || !o[1]) bad(id, "the tagged item's reference count is %zu after the client took two references (rules: 4)", o[0]);
      if (RC(x) == 4) { cbor_item_t* t = x; cbor_decref(&t); t = x; cbor_decref(&t); }
      cbor_decref(&x); cbor_decref(&tag);
      break;
    }
    case 2: {
      cbor_item_t* x = cbor_build_uint8(1), * arr = cbor_new_indefinite_array(), * got[3];
      (void)cbor_array_push(arr, x);
      idiom2(arr, got, o);
      if (o[0] != 5) bad(id, "the member's reference count is %zu after three gets (rules: 5)", o[0]);
      if (RC(x) == 5) for (int i = 0; i < 3; i++) cbor_decref(&got[i]);
      cbor_decref(&x); cbor_decref(&arr);
      break;
    }
    case 3: {
      cbor_item_t* x = cbor_build_uint8(1);
      idiom3(x, o);
      if (o[0] != 3) bad(id, "reference count %zu after two increfs of a fresh item (rules: 3)", o[0]);
      while (RC(x) > 1) { cbor_item_t* t = x; cbor_decref(&t); }
      cbor_decref(&x);
      break;
    }
    case 4: {
      cbor_item_t* x = cbor_build_uint8(1);
      cbor_incref(x);
      idiom4(x, o);
      if (o[0] != 1 || o[1] != 2 || !o[2]) bad(id, "counts %zu then %zu around cbor_move / cbor_incref of an item held twice (rules: 1 then 2)", o[0], o[1]);
      while (RC(x) > 1) { cbor_item_t* t = x; cbor_decref(&t); }
      cbor_decref(&x);
      break;
    }
    case 5: {
      cbor_item_t* x = cbor_build_uint8(1);
      cbor_incref(x); cbor_incref(x);
      idiom5(x, o);
      if (o[0] != 1) bad(id, "reference count %zu after two intermediate decrefs of an item held three times (rules: 1)", o[0]);
      while (RC(x) > 1) { cbor_item_t* t = x; cbor_decref(&t); }
      cbor_decref(&x);
      break;
    }
    case 6: {
      cbor_item_t* x = cbor_build_uint8(1), * arr = cbor_new_indefinite_array(), * map = cbor_new_indefinite_map();
      idiom6(arr, map, x, o);
      if (o[0] != 0 || o[1] != 1 || !o[4] || o[3] < 1) bad(id, "array size %zu -> %zu, allocated %zu -> %zu across a successful push", o[0], o[1], o[2], o[3]);
      if (o[5] != 0 || o[6] != 1 || !o[9] || o[8] < 1) bad(id, "map size %zu -> %zu, allocated %zu -> %zu across a successful add", o[5], o[6], o[7], o[8]);
      cbor_decref(&arr); cbor_decref(&map); cbor_decref(&x);
      break;
    }
    case 7: {
      cbor_item_t* u8 = cbor_build_uint8(5), * u64 = cbor_build_uint64(9), * b = cbor_build_bool(false), * c = cbor_build_ctrl(40);
      uint64_t q[16] = {0};
      idiom7(u8, u64, b, c, q);
      if (q[0] != 5 || q[1] != 200 || q[2] != 5 || q[3] != 200) bad(id, "uint8 getters gave %llu/%llu before and %llu/%llu after cbor_set_uint8(200)", (unsigned long long)q[0], (unsigned long long)q[2], (unsigned long long)q[1], (unsigned long long)q[3]);
      if (q[4] != 9 || q[5] != 0x1122334455667788ull || q[6] != q[5]) bad(id, "uint64 getters gave %llx then %llx / %llx", (unsigned long long)q[4], (unsigned long long)q[5], (unsigned long long)q[6]);
      if (q[7] != 0 || q[8] != 1) bad(id, "cbor_get_bool gave %llu then %llu across cbor_set_bool(true)", (unsigned long long)q[7], (unsigned long long)q[8]);
      if (q[9] != 40 || q[10] != 99) bad(id, "cbor_ctrl_value gave %llu then %llu across cbor_set_ctrl(99)", (unsigned long long)q[9], (unsigned long long)q[10]);
      cbor_decref(&u8); cbor_decref(&u64); cbor_decref(&b); cbor_decref(&c);
      break;
    }
    case 8: {
      cbor_item_t* i = cbor_build_uint16(300);
      idiom8(i, o);
      if (!o[0] || o[1] || o[2] != CBOR_TYPE_UINT || o[3] || !o[4] || o[5] != CBOR_TYPE_NEGINT || !o[6]) bad(id, "predicates uint/negint/type gave %zu/%zu/%zu before and %zu/%zu/%zu after cbor_mark_negint", o[0], o[1], o[2], o[3], o[4], o[5]);
      cbor_decref(&i);
      break;
    }
    case 9: {
      cbor_item_t* x = cbor_build_uint8(1), * arr = cbor_new_indefinite_array();
      idiom9(arr, x, o);
      if (o[0] != 40 || !o[1] || o[2] != 40) bad(id, "after 40 pushes: %zu succeeded, size %zu, last slot through the fresh handle %s", o[0], o[2], o[1] ? "ok" : "wrong");
      cbor_decref(&arr); cbor_decref(&x);
      break;
    }
    case 10: {
      cbor_item_t* bs = cbor_new_definite_bytestring(), * ts = cbor_new_definite_string();
      unsigned char* b1 = _cbor_malloc(5), * b2 = _cbor_malloc(4);
      memcpy(b1, "hello", 5); memcpy(b2, "a\xc3\xbcz", 4);
      idiom10(bs, ts, b1, b2, o);
      if (o[0] != 0 || o[1] != 5 || !o[2] || !o[3]) bad(id, "byte string length %zu -> %zu across set_handle(5 bytes), handle %s", o[0], o[1], o[3] ? "ok" : "stale");
      if (o[4] != 0 || o[5] != 4 || o[6] != 0 || o[7] != 3 || !o[8]) bad(id, "text string length %zu -> %zu, code points %zu -> %zu across set_handle", o[4], o[5], o[6], o[7]);
      cbor_decref(&bs); cbor_decref(&ts);
      break;
    }
    case 11: {
      cbor_item_t* ibs = cbor_new_indefinite_bytestring(), * ch = cbor_build_bytestring((const unsigned char*)"x", 1);
      idiom11(ibs, ch, o);
      if (o[0] != 0 || o[1] != 1 || o[2] != 2 || !o[3] || !o[4] || !o[5] || o[6] != 3) bad(id, "chunk count %zu -> %zu -> %zu, chunk reference count %zu (rules: 0 -> 1 -> 2, count 3)", o[0], o[1], o[2], o[6]);
      cbor_decref(&ibs); cbor_decref(&ch);
      break;
    }
    case 12: {
      cbor_item_t* map = cbor_new_indefinite_map(), * k = cbor_build_uint8(1), * v = cbor_build_string("v");
      idiom12(map, k, v, o);
      if (o[0] != 9 || o[1] != 9 || !o[2] || o[3] != 10 || o[4] != 10) bad(id, "after 9 adds: %zu succeeded, size %zu, key count %zu, value count %zu (rules: 9, 9, 10, 10)", o[0], o[1], o[3], o[4]);
      cbor_decref(&map); cbor_decref(&k); cbor_decref(&v);
      break;
    }
    case 13: {
      cbor_item_t* x = cbor_build_string("copy me"), * c[2] = {NULL, NULL};
      idiom13(x, c, o);
      if (!o[0]) bad(id, "two cbor_copy calls on the same source did not give two distinct new items");
      if (c[0]) cbor_decref(&c[0]);
      if (c[1] && c[1] != c[0]) cbor_decref(&c[1]);
      cbor_decref(&x);
      break;
    }
    case 14: {
      cbor_item_t* x = cbor_build_uint8(1);
      idiom14(x, o);
      if (o[0] != 1 || o[1] != 2 || o[2] != 1 || !o[3]) bad(id, "cbor_refcount gave %zu, %zu, %zu around incref / decref (rules: 1, 2, 1)", o[0], o[1], o[2]);
      cbor_decref(&x);
      break;
    }
    case 15: {
      ta_fail_from((int64_t)TA.requests);
      idiom15(o);
      ta_fail_from(-1);
      if (o[1] != o[0]) bad(id, "%zu of %zu constructors under an allocator that refuses everything were seen by the client as non-NULL", o[0] - o[1], o[0]);
      ta_fail_from(-1);
      idiom15(o);
      if (o[1] != 0) bad(id, "%zu of %zu constructors returned NULL although nothing was refused", o[1], o[0]);
      break;
    }
    case 16: {
      cbor_item_t* x = cbor_build_uint16(1000), * arr = cbor_new_indefinite_array();
      idiom16(arr, x, o);
      if (o[0] != 2 || o[1] != 5 || !o[2]) bad(id, "cbor_serialized_size gave %zu then %zu across a push of a 3-byte member (exact: 2 then 5)", o[0], o[1]);
      cbor_decref(&arr); cbor_decref(&x);
      break;
    }
    case 17: {
      cbor_item_t* f4 = cbor_build_float4(1.5f), * f8 = cbor_build_float8(3.0);
      double q[8] = {0};
      idiom17(f4, f8, q);
      if (q[0] != 1.5 || q[1] != 2.5 || q[2] != 2.5 || q[3] != 3.0 || q[4] != -0.125 || q[5] != -0.125) bad(id, "float getters gave %g -> %g/%g and %g -> %g/%g across the setters", q[0], q[1], q[2], q[3], q[4], q[5]);
      cbor_decref(&f4); cbor_decref(&f8);
      break;
    }
  }
  if (ta_live_count()) { vh_violation("leak", "%s: %zu block(s) left after the client released what the rules say it holds", idiom_names[id], ta_live_count()); ta_forget_all(); }
  VH_COUNT("idioms_run", 1);
  vh_nontrivial(vh_hash(desc, 2));
}

static void idiom_setup(void) {
  if (strcmp(O.prop, "C04") && strcmp(O.prop, "C12")) vh_die("driver idiom: --prop must be C04 or C12");
  ta_install();
  if (!ta_selftest()) vh_die("track allocator self-test failed");
}
static void idiom_run(void) {
  idiom_setup();
  for (int id = 0; id < NIDIOMS; id++) if (id % O.nshards == O.shard) idiom_case(id);
  vh_set_rule("each case is one block of straight-line client code (no harness call between the library calls) compiled with optimisation against the tree's own headers; reference counts are read through volatile lvalues and values through the getters, and compared with the documented rules; every case non-trivial; distinct by idiom number");
  vh_set_exhaustive(true);
}
static void idiom_exec(const uint8_t* d, size_t n) {
  idiom_setup();
  if (n == 2 && d[0] == 'I' && d[1] < NIDIOMS) idiom_case(d[1]); else printf("bad idiom descriptor\n");
}
const struct vh_driver drv_idiom = {"idiom", idiom_run, idiom_exec, "optimised straight-line client code against the public headers (C04, C12)"};
