#!/usr/bin/env python3
"""Regenerates the seeded-change table in DESIGN.md from /verif/seeded/*/meta.json."""
import glob, json, os, re
root = os.path.dirname(os.path.dirname(os.path.abspath(__file__)))
rows = []
n_total = n_first = n_after = n_design = n_internal = n_other = 0
for f in sorted(glob.glob(os.path.join(root, "seeded", "*", "meta.json"))):
    m = json.load(open(f))
    own = m["property"]
    now, after, silent = [], [], []
    for k, v in m["checks_run"].items():
        if "caught" in v:
            now.append(k)
            if "MISSED" in v or "not run against" in v:
                after.append(k)
        else:
            silent.append(k + (" (by design, §6.8)" if "by design" in v else ""))
    n_total += 1
    owntext = m["checks_run"].get(own, "")
    if "caught" in owntext and own not in after:
        n_first += 1
    elif own in after:
        n_after += 1
    elif "by design" in owntext:
        n_design += 1
    elif "not reported" in owntext:
        n_internal += 1
    elif now:
        n_other += 1
    rows.append("| `%s` | %s | %s | %s | %s |" % (m["name"], m["needs_to_manifest"].replace("|", "/"), ", ".join(now) or "—", ", ".join(after) or "—", ", ".join(silent) or "—"))
summary = ("%d seeded changes: %d caught by their own property's check as it stood; %d reached only after the check was strengthened "
           "(what was added is in each meta.json and in §10); %d caught by other properties' checks only; %d not reported by design (§6.8); %d not reported because it is "
           "unobservable through any public entry point (reason in its meta.json).\n\n" % (n_total, n_first, n_after, n_other, n_design, n_internal))
table = ("<!-- SEEDED-BEGIN -->\n" + summary +
         "| seeded change | what it needs in order to manifest | caught now by (quick tier, exit 1 with witness) | of these, only after strengthening | run but silent |\n|---|---|---|---|---|\n" +
         "\n".join(rows) + "\n<!-- SEEDED-END -->")
p = os.path.join(root, "DESIGN.md")
s = open(p).read()
if "SEEDED_TABLE_PLACEHOLDER" in s:
    s = s.replace("SEEDED_TABLE_PLACEHOLDER", table)
else:
    s = re.sub(r"<!-- SEEDED-BEGIN -->.*?<!-- SEEDED-END -->", lambda _: table, s, flags=re.S)
open(p, "w").write(s)
print("%d seeded changes" % len(rows))
