#!/usr/bin/env python3
"""Regenerates the seeded-change table in DESIGN.md from /verif/seeded/*/meta.json."""
import glob, json, os, re
root = os.path.dirname(os.path.dirname(os.path.abspath(__file__)))
rows = []
for f in sorted(glob.glob(os.path.join(root, "seeded", "*", "meta.json"))):
    m = json.load(open(f))
    caught = [k for k, v in m["checks_run"].items() if v.startswith("caught")]
    missed = [k + " (" + v + ")" for k, v in m["checks_run"].items() if not v.startswith("caught")]
    rows.append("| `%s` | %s | %s | %s |" % (m["name"], m["needs_to_manifest"].replace("|", "/"), ", ".join(caught) or "—", ", ".join(missed) or "—"))
table = "<!-- SEEDED-BEGIN -->\n| seeded change | what it needs in order to manifest | caught by (quick tier, exit 1 with witness) | run but silent |\n|---|---|---|---|\n" + "\n".join(rows) + "\n<!-- SEEDED-END -->"
p = os.path.join(root, "DESIGN.md")
s = open(p).read()
if "SEEDED_TABLE_PLACEHOLDER" in s:
    s = s.replace("SEEDED_TABLE_PLACEHOLDER", table)
else:
    s = re.sub(r"<!-- SEEDED-BEGIN -->.*?<!-- SEEDED-END -->", lambda _: table, s, flags=re.S)
open(p, "w").write(s)
print("%d seeded changes" % len(rows))
