#!/bin/bash
# usage: tools/seed_recheck.sh <seeded-name> <check ids...>  — re-runs checks against a stored seeded change in a fresh scratch worktree
set -u
NAME=$1; shift
WT=/tmp/wt-recheck-$$
git -C /repo worktree add -q --detach $WT HEAD || exit 2
( cd $WT && git apply /verif/seeded/$NAME/patch.diff ) || { echo "patch does not apply"; git -C /repo worktree remove --force $WT; exit 2; }
for id in "$@"; do
  out=$(VERIF_REPO=$WT VERIF_SCRATCH=/var/tmp/verif-mutant/cache /verif/check $id ${TIER:-quick} 2>&1); rc=$?
  echo "recheck $NAME: $id -> rc=$rc  $(echo "$out" | grep -m1 -E 'violation \[' | cut -c1-230)"
  python3 - "$NAME" "$id" "$rc" <<'PY'
import json, sys
name, cid, rc = sys.argv[1:4]
p = '/verif/seeded/%s/meta.json' % name
m = json.load(open(p))
prev = m["checks_run"].get(cid, "")
if rc == "1":
    if prev.startswith("caught"): pass
    elif "MISSED" in prev: pass
    else: m["checks_run"][cid] = ("MISSED by the previous version of the check (%s); " % prev if prev else "") + "caught (exit 1) after strengthening"
else:
    m["checks_run"][cid] = "exit " + rc
json.dump(m, open(p, 'w'), indent=1)
PY
done
git -C /repo worktree remove --force $WT
