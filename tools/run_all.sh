#!/bin/bash
# usage: tools/run_all.sh [quick|thorough] [ids...]   — runs checks sequentially, prints one line each, validates evidence
TIER=${1:-quick}; shift
IDS=${@:-C01 C02 C03 C04 C05 C06 C07 C08 C09 C10 C11 C12 C13 C14 C15 C16 C17 C18 C19 C20}
cd "$(dirname "$0")/.."
for id in $IDS; do
  s=$(date +%s.%N)
  out=$(./check $id $TIER 2>&1); rc=$?
  e=$(date +%s.%N)
  printf "%s rc=%d %.1fs %s\n" $id $rc $(echo "$e - $s" | bc) "$(echo "$out" | grep "^\[$id $TIER\] [0-9]" | tail -1)"
  echo "$out" | grep -E "^VIOLATION|^KNOWN-FINDING|INCONCLUSIVE" | head -5
done
python3-vt - <<'PY' 2>/dev/null
import json, jsonschema, glob
sch = json.load(open('/root/.vp/EVIDENCE.schema.json'))
for f in sorted(glob.glob('/verif/evidence/C*.json')):
    try:
        jsonschema.validate(json.load(open(f)), sch)
    except Exception as e:
        print("EVIDENCE INVALID", f, str(e)[:300])
print("evidence validated")
PY
