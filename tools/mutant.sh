#!/bin/bash
# usage: tools/mutant.sh <patch-file|-e 'sed-expr' file> -- <check ids...>
# Applies a change to a scratch copy of /repo (never /repo itself) and runs the given quick checks against it.
set -u
SCR=/var/tmp/verif-mutant/$$
mkdir -p $SCR
rsync -a --exclude _build --exclude .git /repo/ $SCR/repo/
if [ "$1" = "-e" ]; then
  sed -i -E "$2" "$SCR/repo/$3" || exit 2
  shift 3
else
  (cd $SCR/repo && patch -p1 -s < "$1") || { echo "patch failed"; rm -rf $SCR; exit 2; }
  shift 1
fi
[ "$1" = "--" ] && shift
(cd $SCR/repo && diff -ru /repo/src src | head -30)
for id in "$@"; do
  VERIF_REPO=$SCR/repo VERIF_SCRATCH=/var/tmp/verif-mutant/cache /verif/check $id ${TIER:-quick} 2>&1 | grep -E "^\[C|VIOLATION|violation \[|INCONCLUSIVE|KNOWN" | head -${LINES_SHOWN:-8}
  echo "== $id exit=${PIPESTATUS[0]}"
done
rm -rf $SCR
