#!/bin/bash
# usage: tools/seed_eval.sh <worktree-id e.g. C03> <seeded-name e.g. C03-half-nan-sign> [check ids to run, default: the property]
# Confirms a sub-agent's mutant in its scratch worktree (build, full ctest, demo with/without), runs our checks against it, stores it under /verif/seeded/.
set -u
WT=/tmp/wt-$1; NAME=$2; shift 2
CHECKS=${@:-${NAME:0:3}}
DEST=/verif/seeded/$NAME
[ -f $WT/mutant/patch.diff ] || { echo "no patch in $WT"; exit 2; }
mkdir -p $DEST
cp $WT/mutant/patch.diff $WT/mutant/README.md $DEST/ 2>/dev/null
for f in $WT/mutant/*; do case "$f" in *.c|*.sh|*.h|*.py|*.txt) cp "$f" $DEST/ ;; esac; done
cd $WT
LOG=$DEST/confirm.log; : > $LOG
git stash -q 2>/dev/null; git stash drop -q 2>/dev/null   # make sure tree == HEAD
git checkout -q -- . ; git status --short | grep -v "^??" >> $LOG
echo "== original sources: demo" >> $LOG
( cmake -G Ninja -B _build -DCMAKE_BUILD_TYPE=RelWithDebInfo -DWITH_TESTS=ON -DCMAKE_C_FLAGS=-Wno-error . >/dev/null 2>&1; cmake --build _build >/dev/null 2>&1 )
timeout 600 bash mutant/run_demo.sh >> $LOG 2>&1; DEMO_ORIG=$?
echo "demo exit on original: $DEMO_ORIG" >> $LOG
git apply mutant/patch.diff || { echo "patch does not apply" | tee -a $LOG; exit 2; }
echo "== patched: build + ctest" >> $LOG
cmake --build _build >> $LOG 2>&1; BUILD=$?
CT=$(ctest --test-dir _build -j8 --timeout 900 2>&1 | grep -E "tests passed|tests failed"); echo "$CT" >> $LOG
NT=$(ctest --test-dir _build -N 2>/dev/null | grep -c "Test *#")
timeout 600 bash mutant/run_demo.sh >> $LOG 2>&1; DEMO_MUT=$?
echo "demo exit on mutant: $DEMO_MUT" >> $LOG
echo "build=$BUILD ctest='$CT' demo_orig=$DEMO_ORIG demo_mut=$DEMO_MUT"
RES=""
for id in $CHECKS; do
  out=$(VERIF_REPO=$WT VERIF_SCRATCH=/var/tmp/verif-mutant/cache /verif/check $id ${TIER:-quick} 2>&1); rc=$?
  echo "== check $id rc=$rc" >> $LOG; echo "$out" | grep -E "^\[C|violation \[|^VIOLATION|INCONCLUSIVE" | head -12 >> $LOG
  echo "check $id -> rc=$rc  $(echo "$out" | grep -m1 -E 'violation \[' | cut -c1-220)"
  RES="$RES $id:$rc"
done
python3 - "$NAME" "$BUILD" "$CT" "$DEMO_ORIG" "$DEMO_MUT" "$RES" <<'PY'
import json, sys, os
name, build, ct, do, dm, res = sys.argv[1:7]
dest = '/verif/seeded/' + name
meta = {"name": name, "property": name[:3], "origin": "independent sub-agent given only the property text and a scratch worktree",
        "confirmed": {"compiles": build == "0", "ctest": ct, "demo_exit_on_original_tree": int(do), "demo_exit_with_patch": int(dm)},
        "checks_run": {r.split(':')[0]: ("caught (exit 1)" if r.split(':')[1] == "1" else "exit " + r.split(':')[1]) for r in res.split()},
        "needs_to_manifest": "see README.md", "what_was_run": "tools/seed_eval.sh: original tree -> demo passes; git apply patch.diff -> build, full ctest, demo fails; VERIF_REPO=<worktree> ./check <id> quick"}
old = {}
p = os.path.join(dest, 'meta.json')
if os.path.exists(p):
    old = json.load(open(p))
    meta["needs_to_manifest"] = old.get("needs_to_manifest", meta["needs_to_manifest"])
json.dump(meta, open(p, 'w'), indent=1)
PY
