#!/usr/bin/env python3
"""What the workloads actually reach: line and branch coverage of libcbor's sources per property.

Builds the library with gcc --coverage (flavour "cov", -O0, CBOR_ASSERT live), runs every stage of the
chosen tier of every property against that binary (same drivers, stage names, budgets and shards as the
registered checks; only the instrumentation differs), keeps one set of counters per property
(GCOV_PREFIX), and writes /verif/coverage/summary.json plus /verif/coverage/uncovered.txt.

This is a measurement of reach, not a check: it decides nothing and is not registered in MANIFEST.json.
usage: tools/coverage.py [quick|thorough] [Cnn ...]
"""
import json
import os
import re
import shutil
import subprocess
import sys

sys.path.insert(0, os.path.dirname(os.path.dirname(os.path.abspath(__file__))))
from vlib import build, run  # noqa: E402
from vlib.props import PROPS  # noqa: E402

# stages whose flavour is itself the monitor (linker wrapping, DSO snapshot) or another compiler stay out
SUBSTITUTABLE = {"asan-full", "asan", "plain-O2", "plain-O0", "uchar-O2", "release-O3", "size-Os", "ubsan-O2", "tsan", "msan", "native-O3"}
OUT = os.path.join(build.VERIF, "coverage")


def main(argv):
    tier = argv[1] if len(argv) > 1 and argv[1] in ("quick", "thorough") else "quick"
    ids = [a for a in argv[1:] if a in PROPS] or sorted(PROPS)
    exe = build.ensure("cov", 2048)
    bdir = os.path.dirname(exe)
    objdir = os.path.join(bdir, "obj-cov-2048")
    covroot = os.path.join(build.SCRATCH, "cov")
    shutil.rmtree(covroot, ignore_errors=True)
    strip = objdir.count("/")
    per_prop = {}
    for pid in ids:
        pdir = os.path.join(covroot, pid)
        os.makedirs(pdir)
        rundir = os.path.join(pdir, "run")
        os.makedirs(rundir)
        env = dict(os.environ)
        env.update(run.SAN_ENV)
        env["GCOV_PREFIX"] = pdir
        env["GCOV_PREFIX_STRIP"] = str(strip)
        ran = []
        for idx, st in enumerate(PROPS[pid]["stages"]):
            if tier not in st.get("tiers", ("quick", "thorough")) or st["flavour"] not in SUBSTITUTABLE or st.get("L", 2048) != 2048:
                continue
            nshards = st.get("shards", {}).get(tier, 16) if isinstance(st.get("shards"), dict) else st.get("shards", 16)
            procs = []
            for sh in range(nshards):
                out = os.path.join(rundir, "s%d-%d.json" % (idx, sh))
                procs.append(subprocess.Popen(run._worker_cmd(exe, pid, st, tier, 1, sh, nshards, out), stdout=subprocess.DEVNULL,
                                              stderr=subprocess.DEVNULL, env=env, cwd=rundir))
            rcs = [p.wait() for p in procs]
            ran.append("%s/%s[%s]" % (st["driver"], st.get("stage", ""), st["flavour"]))
            if any(rcs):
                print("%s: stage %s/%s exit codes %s under coverage build" % (pid, st["driver"], st.get("stage", ""), sorted(set(rcs))), file=sys.stderr)
        # gcov: .gcno next to the objects, .gcda under the prefix
        for fn in os.listdir(objdir):
            if fn.startswith("lib_") and fn.endswith(".gcno"):
                shutil.copy(os.path.join(objdir, fn), pdir)
        files = {}
        gcdas = [f for f in os.listdir(pdir) if f.endswith(".gcda")]
        if gcdas:
            r = subprocess.run(["gcov", "-b", "-c", "--json-format", "--stdout"] + gcdas, cwd=pdir, stdout=subprocess.PIPE, stderr=subprocess.DEVNULL, text=True)
            for line in r.stdout.splitlines():
                try:
                    doc = json.loads(line)
                except ValueError:
                    continue
                for f in doc.get("files", []):
                    name = f["file"]
                    if "/src/" not in name or not name.endswith(".c"):
                        continue
                    rel = name[name.index("/src/") + 1:]
                    ent = files.setdefault(rel, {"lines": {}, "branches": {}, "functions": {}})
                    for ln in f["lines"]:
                        ent["lines"][ln["line_number"]] = ent["lines"].get(ln["line_number"], 0) + ln["count"]
                        for bi, b in enumerate(ln.get("branches", [])):
                            k = (ln["line_number"], bi)
                            ent["branches"][k] = ent["branches"].get(k, 0) + b["count"]
                    for fu in f.get("functions", []):
                        ent["functions"][fu["name"]] = ent["functions"].get(fu["name"], 0) + fu["execution_count"]
        per_prop[pid] = {"stages": ran, "files": files}
        shutil.rmtree(rundir, ignore_errors=True)
        tl = sum(len(e["lines"]) for e in files.values())
        cl = sum(1 for e in files.values() for c in e["lines"].values() if c)
        print("%s: %d/%d lines of src/ reached by %d stages" % (pid, cl, tl, len(ran)), flush=True)

    # union over properties
    union = {}
    for pid, d in per_prop.items():
        for rel, e in d["files"].items():
            u = union.setdefault(rel, {"lines": {}, "branches": {}, "functions": {}})
            for k in ("lines", "branches", "functions"):
                for kk, c in e[k].items():
                    u[k][kk] = u[k].get(kk, 0) + c
    os.makedirs(OUT, exist_ok=True)
    summary = {"tier": tier, "build": "gcc --coverage -O0 -DDEBUG=true, CBOR_MAX_STACK_SIZE=2048", "note": "reach of the registered workloads; a measurement, not a check",
               "per_property": {}, "union": {}}
    for pid, d in per_prop.items():
        tl = sum(len(e["lines"]) for e in d["files"].values())
        cl = sum(1 for e in d["files"].values() for c in e["lines"].values() if c)
        fn_hit = sorted(n for e in d["files"].values() for n, c in e["functions"].items() if c)
        summary["per_property"][pid] = {"stages": d["stages"], "lines_reached": cl, "lines_total": tl, "functions_reached": len(fn_hit)}
    unc = []
    unb = []
    for rel in sorted(union):
        e = union[rel]
        tl, cl = len(e["lines"]), sum(1 for c in e["lines"].values() if c)
        tb, cb = len(e["branches"]), sum(1 for c in e["branches"].values() if c)
        tf, cf = len(e["functions"]), sum(1 for c in e["functions"].values() if c)
        summary["union"][rel] = {"lines": [cl, tl], "branch_outcomes": [cb, tb], "functions": [cf, tf],
                                 "functions_never_called": sorted(n for n, c in e["functions"].items() if not c)}
        miss = sorted(ln for ln, c in e["lines"].items() if not c)
        half = {}
        for (ln, bi), c in e["branches"].items():
            if not c and e["lines"].get(ln):
                half.setdefault(ln, []).append(bi)
        if miss:
            try:
                src = open(os.path.join(build.REPO, rel)).read().splitlines()
            except OSError:
                src = []
            unc.append("== %s: %d of %d lines never executed" % (rel, len(miss), tl))
            for ln in miss:
                unc.append("  %5d  %s" % (ln, src[ln - 1].rstrip() if 0 < ln <= len(src) else ""))
        if half:
            try:
                src = open(os.path.join(build.REPO, rel)).read().splitlines()
            except OSError:
                src = []
            unb.append("== %s: executed lines with a branch outcome never taken" % rel)
            for ln in sorted(half):
                unb.append("  %5d  [%s]  %s" % (ln, ",".join(map(str, sorted(half[ln]))), src[ln - 1].strip() if 0 < ln <= len(src) else ""))
    tot = [sum(v["lines"][0] for v in summary["union"].values()), sum(v["lines"][1] for v in summary["union"].values())]
    totb = [sum(v["branch_outcomes"][0] for v in summary["union"].values()), sum(v["branch_outcomes"][1] for v in summary["union"].values())]
    totf = [sum(v["functions"][0] for v in summary["union"].values()), sum(v["functions"][1] for v in summary["union"].values())]
    summary["total"] = {"lines": tot, "branch_outcomes": totb, "functions": totf}
    with open(os.path.join(OUT, "summary.json"), "w") as f:
        json.dump(summary, f, indent=1, sort_keys=True)
    with open(os.path.join(OUT, "uncovered.txt"), "w") as f:
        f.write("\n".join(unc) + "\n")
    with open(os.path.join(OUT, "untaken_branches.txt"), "w") as f:
        f.write("\n".join(unb) + "\n")
    print("union: lines %d/%d, branch outcomes %d/%d, functions %d/%d" % (tot[0], tot[1], totb[0], totb[1], totf[0], totf[1]))
    shutil.rmtree(covroot, ignore_errors=True)
    return 0


if __name__ == "__main__":
    sys.exit(main(sys.argv))
