#!/usr/bin/env python3
"""Regenerates /verif/MANIFEST.json from the registry (vlib/props.py) and the per-property texts below."""
import json, os, sys
sys.path.insert(0, os.path.dirname(os.path.dirname(os.path.abspath(__file__))))
from vlib.props import PROPS

TEXT = {
 "C01": ("sanitizer monitoring (ASan+UBSan and clang MSan builds, CBOR_ASSERT armed) over exhaustive/grammar-directed inputs",
         "Every byte string of <=3 bytes (<=4 thorough), every string over a 16-head alphabet up to 5 (7) symbols, every initial byte in 13 parent contexts with all truncations, ~40k grammar-generated items with their single-edit neighbours, and nesting chains around the limit are run through load, describe, size, serialize, serialize_alloc, copy, release and two streaming passes in exactly-sized heap blocks; any sanitizer report, assertion, signal, hang (30 s, confirmed in a fresh process), leak or third outcome is a violation; a second pass under MemorySanitizer (result struct and output buffers poisoned first) adds reads of uninitialised memory; multi-edit havoc mutations, every string length 0..320 and member counts across 127/128/255/256 are included. Exploration, not proof: paths not driven stay unjudged.", "DESIGN.md §3 C01"),
 "C02": ("differential monitoring against an independent RFC 8949 reference decoder",
         "Same input spaces as C01; cbor_load's accept/reject, tree (types, widths, values, flavour, chunking, order), bytes read, sole ownership and independence from the (scribbled and freed) input buffer are compared with a reference decoder written from RFC 8949 Appendix C that shares no code with libcbor. Exhaustive on short inputs, enumerated shapes beyond; also under scrambled ambient errno/rounding mode, in release (-O3 -DNDEBUG) and -funsigned-char builds, with caller buffers larger than 4 GiB, and with every allocator request refused in turn (must not succeed, crash or leak).", "DESIGN.md §3 C02, Appendix A"),
 "C03": ("differential monitoring against an independent reference encoder; round-trip monitor",
         "Trees returned by the decoder for ~1M accepted inputs and ~30k trees assembled through the construction API alongside a shadow tree (all builders and new+set, spare capacity, shared sub-items, handle-less strings, re-tagging) are serialized and compared byte for byte with the reference encoding, reloaded, compared, and serialized again, under ASan and MSan (output bytes must be initialised); predicates/getters must be mutually consistent on every node and the type-specific serializer must agree with the generic one.", "DESIGN.md §3 C03"),
 "C04": ("model-based runtime monitoring: shadow ownership graph vs cbor_refcount and allocator free events, under ASan",
         "Every precondition-respecting API history of <=5 ops over 4 item slots (2.25M histories; thorough adds length 6 over 3 slots, 31M) plus 100k (2M) random histories of up to 60 ops biased towards sharing; after every step each live item's refcount and the set of blocks the allocator saw released are compared with a shadow graph built from the documented ownership rules; every history ends by dropping all client references and must leave nothing allocated. Random histories include inserting ops run with an allocator that refuses everything (must fail and change nothing), re-attaching a string's own block, and a stage that carries reference counts across 2^16, 2^32, 2^48 and 2^63.", "DESIGN.md §3 C04, Appendix B"),
 "C05": ("differential monitoring of failure code/position against a reference classifier; sentinel-prefilled results",
         "Every rejected input of the C01/C02 spaces (all prefixes of enumerated well-formed items, all single-edit corruptions) is decoded twice with different sentinel fills; NULL result, every result field written, (code, position) within the reference's admissible set {eager, lazy}, MEMERROR only where a refusal was observed / a count exceeds what the allocator could hold / nesting exceeds L, and nothing left allocated.", "DESIGN.md §3 C05, §6.1, Appendix A"),
 "C06": ("exhaustive allocation-fault enumeration with an instrumenting allocator, under ASan+UBSan",
         "For each scenario (cbor_load of each corpus input incl. truncated/corrupted ones, cbor_copy and cbor_serialize_alloc of each corpus and API-built tree, all 44 builder calls, push/set/map_add/add_chunk at 17 growth steps on 7 container kinds, build_tag) the fault-free request count N is measured, then N runs refuse request k only and N runs refuse k and all later: failure through the documented channel, arguments' semantic snapshot (contents, refcounts, identity) unchanged, live-block set unchanged. A refused cbor_load must report MEMERROR just past the very head during which the refused request was made (attributed by request counts of fault-free loads of the cut input). Also run under MSan. Complete for single-fault and fail-stop schedules per scenario; scenarios are sampled.", "DESIGN.md §3 C06"),
 "C07": ("runtime monitoring with ASan red zones on exactly-sized buffers plus sentinel images",
         "For every tree of the C03 space (serialized size <=300 B quick / 5000 B thorough) cbor_serialize is called for every n in 0..size+2 into an exactly n-byte heap block and (selected n) into sentinel-filled oversized buffers; return value must be size or 0, nothing beyond n may change; cbor_serialize_alloc must return exactly size bytes with the same content. All 27 low-level encoders x boundary/exhaustive values x n=0..10: bytes written == return value, untouched on 0. Small trees are also serialized into a >8 GiB region with n = 2^32+k, 3*2^31+k, 2^33+k; API-built trees include partially filled definite containers whose capacity and fill level straddle 23/24, 255/256, 65535/65536.", "DESIGN.md §3 C07"),
 "C08": ("runtime contract monitoring with a 24-slot recording callback table vs a one-head reference tokeniser, ASan+UBSan",
         "256 initial bytes x exhaustive 1- and 2-byte arguments x every buffer length 0..head+1 (and payload lengths around the buffer end), 4/8-byte arguments from every 2^k, 2^k+-1..2, width boundaries, lengths within 24 of 2^64 and seeded random: status, read, required (128-bit bound), exactly-one / no callback, slot, arguments, payload pointer, allocator silence, statelessness, independence from bytes beyond read; plus heads at the start of a >8 GiB region decoded with claimed buffer lengths 2^32-1 .. 2^33+65536.", "DESIGN.md §3 C08"),
 "C09": ("history monitoring: event log of a protocol-following client vs independent tokenisation of the whole stream",
         "5k (100k) streams (item concatenations, truncated tails, raw head sequences incl. stray breaks, reserved bytes and lengths up to 2^64-1) x every single cut point, byte-at-a-time and 8 random fragmentations; the client's buffer is re-allocated to the exact buffered size at every call so stale reads show under ASan.", "DESIGN.md §3 C09"),
 "C10": ("differential monitoring of encoders against independently computed RFC heads, decode-back with recording callbacks",
         "All 27 cbor_encode_* functions: exhaustive 8/16-bit domains (and the first 66000 values of width-agnostic variants), every 2^k, 2^k+-1..2, byte-order-revealing patterns and seeded random 32/64-bit values; exactly-sized output buffers under ASan+UBSan; decoded slot, value and consumed length compared.", "DESIGN.md §3 C10"),
 "C11": ("runtime monitoring of cbor_copy: dump equality, address-set disjointness, refcounts, mutate/release-one-check-other under ASan",
         "Every tree of the C03 space incl. shared sub-items: copy equal in shape and bytes, every copy node refcount 1 and at a distinct address, no block reachable from both trees, source snapshot (contents, refcounts, identity) unchanged; then copy mutated/released with the source re-checked, and source mutated/released with the copy re-checked.", "DESIGN.md §3 C11"),
 "C12": ("model-based runtime monitoring: abstract list model, reallocation counting allocator, ASan",
         "Every sequence of <=5 (6) ops from {push, set(i), replace(i), get(i)} with i in 0..size+2 on definite arrays of capacity 0..8 and indefinite arrays, add-pair on maps, add-chunk on both chunked string kinds (27.6M sequences quick), 200k random histories with out-of-range indices, growth runs to 4k (64k) insertions with reallocations counted against 2*log2(n)+4; inserting ops also run with an allocator that refuses everything; 56 far-out-of-range index values (2^31 .. 2^64-1, low bits hitting existing members) on every array flavour and fill level.", "DESIGN.md §3 C12"),
 "C13": ("allocator-provenance monitoring: hidden-header tagging allocator, libc-free arena with linker --wrap bypass detector, counting allocator",
         "The C04 random histories and ~340k decoded corpus inputs (load, size, serialize, serialize_alloc, copy, describe, release) replayed under a tagging allocator (ASan and plain+MALLOC_CHECK_), an mmap arena with every libc malloc/calloc/realloc/free made from inside libcbor recorded via -Wl,--wrap, and a counting allocator for the allocates-nothing clause; histories include refused allocations and re-attached string blocks under every allocator.", "DESIGN.md §3 C13"),
 "C14": ("metamorphic runtime monitoring under ASan (x alone in an exactly |x|-byte block)",
         "~5k (50k) generated items x (empty, all 256 single bytes, 32 items, 32 garbage strings, truncated copies of x), every accepted input of <=2 bytes and alphabet strings of 3-4 symbols x single bytes, and 20k (200k) concatenations of <=6 items split by repeated cbor_load.", "DESIGN.md §3 C14"),
 "C15": ("differential monitoring against an independent IEEE-754 conversion, UBSan for totality",
         "All 65,536 half patterns (streaming and item path, two builds); singles: every 4096th pattern, every exponent x 18 boundary mantissas x sign, the neighbourhood of every half-representable value and 2M random (all 2^32 in the thorough tier); doubles: every exponent x 17 boundary mantissas x sign, all half values widened, 1M (200M) random. Every case runs under a scrambled errno and rounding mode.", "DESIGN.md §3 C15"),
 "C16": ("differential monitoring against an independent RFC 3629 validator",
         "Every byte sequence of length 0-3 through build_stringn, set_handle and cbor_load (all 2^32 of length 4 in the thorough tier through build_stringn, one in 32 through all three), 20k (200k) random valid texts with one injected fault (overlong, surrogate, >U+10FFFF, stray continuation, truncation) at every scalar position, texts at every length-head width; all strings of up to 7 (9) symbols over an 8-byte UTF-8-significant alphabet; scalars split by runs of other scalars; a second set_handle on an item that held valid text; the sweeps repeated in -funsigned-char and release builds.", "DESIGN.md §3 C16"),
 "C17": ("ThreadSanitizer + per-thread result digests vs solo runs + writable-segment snapshot of the library DSO",
         "40 (600) runs of 2-16 threads released by a barrier, each running a seeded workload over build/load/copy/serialize/size/serialize_alloc/describe/stream-decode/encode/getters/release on private items under TSan; the same in an unsanitized -O2 build with 1500 ops per thread; each thread's digest compared with the same workload run alone; and the writable PT_LOAD segment of libcbor built as a shared object compared byte for byte before/after workloads (schedule-independent detector of hidden global state). All interleavings are sampled, not enumerated; the observed concurrent API-pair matrix is reported. Concurrent and solo runs differ in ambient errno and rounding mode, so dependence on thread-ambient state shows as a digest difference.", "DESIGN.md §3 C17"),
 "C18": ("memory-protection monitoring (mprotect + SIGSEGV attribution) at -O0 and -O2; ThreadSanitizer for concurrent readers",
         "~40k trees (built by construction calls and by cbor_load) inside an arena zone that is write-protected before each of 16 read-only function groups is applied to every node; any store, even one undone before return, faults deterministically and is attributed to block and field (getters are applied to every flavour their precondition allows); plus 800 (8000) shared trees read by 4/8 threads under TSan.", "DESIGN.md §3 C18"),
 "C19": ("runtime monitoring on a fixed, pre-painted thread stack with SIGSEGV on an alternate stack; per-L library builds",
         "Library configured with CBOR_MAX_STACK_SIZE = L for L in {1, 3, 2048} (thorough: {1, 2, 3, 8, 64, 2048}) at -O0 and -O2, plus 70000 (boundary depths only) so that a narrow depth counter would wrap; 9 chain patterns x {scalar, chunked bytes, chunked text, empty definite array, empty definite map} innermost x depths {1, L-1, L, L+1, L+2, 4L} (thorough + 2L+1, 64L): outcome, MEMERROR position just past the head opening level L+1, and the whole pipeline within 64 KiB + 512 B x L of stack.", "DESIGN.md §3 C19"),
 "C20": ("runtime monitoring against 128-bit arithmetic; exhaustive execution of the real source at narrow size_t; size-recording allocator",
         "memory_utils.c re-compiled with 8-bit (all 65,536 pairs) and 16-bit size_t (all a x every 61st b plus all boundary rows; all 2^32 pairs thorough) under UBSan; the compiled 64-bit guards on the (2^i+d, 2^j+e) grid plus 5M (500M) random pairs; end to end: definite containers, 8-byte-count heads, growth from pretended capacities and serialized sizes with 2^k+d, k=20..64; a string head whose payload is absent must not lead to an allocation of the declared length. The SMT proof named in the property's quantifier is outside this technique family and is not reproduced.", "DESIGN.md §3 C20"),
}

props = [json.loads(l) for l in open(os.path.join(os.path.dirname(__file__), "..", "properties.jsonl"))]
checks = []
for p in props:
    pid = p["id"]
    if pid not in PROPS:
        continue
    tech, text, ref = TEXT[pid]
    spec = PROPS[pid]
    checks.append({
        "property_id": pid,
        "quick_cmd": "./check %s quick" % pid,
        "thorough_cmd": "./check %s thorough" % pid,
        "evidence_file": "/verif/evidence/%s.json" % pid,
        "replay_cmd_template": "./check %s --replay {path}" % pid,
        "engine": "vh",
        "level_claimed": {"category": spec["level"], "text": text, "design_ref": ref},
        "level_note": "; ".join(spec.get("assumptions", [])),
        "technique": tech,
    })
manifest = {
    "version": 1,
    "setup_cmd": "./setup.sh",
    "hooks": {
        "guard": "LIBCBOR_VERIF",
        "enable": "no source hooks exist: every monitor attaches through the public API (cbor_set_allocs, callback tables, getters), a real build option (CBOR_MAX_STACK_SIZE), the linker (--wrap, DSO segments) or the OS (mprotect, sigaltstack); checks rebuild the library from $VERIF_REPO (default /repo) working tree per sanitizer flavour",
        "baseline_off_cmd": "cmake --build /repo/_build && ctest --test-dir /repo/_build -j8 --timeout 900",
        "source_commits": [],
        "add_only": True,
    },
    "engines": [{"name": "vh", "path": "/verif/harness", "serves_properties": [c["property_id"] for c in checks],
                 "kind_free_text": "C harness (one binary per sanitizer flavour: asan-full, asan, tsan, ubsan-O2, plain-O0/O2, wrap, pic-so) with a fork-supervised worker model, an independent reference model (decoder, encoder, tokeniser, IEEE-754, UTF-8), instrumenting allocators and per-property drivers; orchestrated by ./check (python3 stdlib)"}],
    "checks": checks,
    "not_applicable": [{"property_id": p["id"], "reason": "no check built"} for p in props if p["id"] not in PROPS],
    "notes": "Repairs of genuine defects found by these checks are unguarded 'fix:' commits in /repo, recorded as status=fixed in /verif/known_findings.json (which suppresses nothing). VERIF_SEED seeds every random choice; exhaustive layers ignore it.",
}
if not manifest["not_applicable"]:
    del manifest["not_applicable"]
json.dump(manifest, open(os.path.join(os.path.dirname(__file__), "..", "MANIFEST.json"), "w"), indent=1)
print("MANIFEST.json: %d checks" % len(checks))
