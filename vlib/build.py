"""Build layer: always from the current working tree of $VERIF_REPO.

A build is identified by the SHA-256 of the repository's build inputs
(CMakeLists.txt, CMakeModules, src/**) plus the harness sources, so a cache hit is
only ever a hit for byte-identical sources.  One real `cmake` configure per
CBOR_MAX_STACK_SIZE value gives the faithful generated headers, source list, -std
and -D flags; the library sources are then compiled directly, per flavour, with
the optimisation / sanitizer flags replaced.  Nothing is written into the repo.
"""
import fcntl
import hashlib
import json
import os
import shlex
import shutil
import subprocess
import sys
import time
from concurrent.futures import ThreadPoolExecutor

VERIF = os.path.dirname(os.path.dirname(os.path.abspath(__file__)))
HARNESS = os.path.join(VERIF, "harness")
REPO = os.environ.get("VERIF_REPO", "/repo")
SCRATCH = os.environ.get("VERIF_SCRATCH", "/var/tmp/verif-libcbor")
JOBS = int(os.environ.get("VERIF_JOBS", "16"))
CC = os.environ.get("VERIF_CC", "gcc")
BUILD_VERSION = "4"

FLAVOURS = {
    # name: (lib cflags, harness cflags, link flags)
    # -fsanitize=float-cast-overflow is undefined behaviour (C11 6.3.1.4) that gcc's "undefined" group leaves out
    "asan-full": ("-O1 -g -fno-omit-frame-pointer -fsanitize=address,undefined -fsanitize=float-cast-overflow -fno-sanitize-recover=all -DDEBUG=true",
                  "-O1 -g -fno-omit-frame-pointer -fsanitize=address,undefined -fno-sanitize-recover=all",
                  "-fsanitize=address,undefined"),
    "asan": ("-O1 -g -fno-omit-frame-pointer -fsanitize=address,undefined -fsanitize=float-cast-overflow -fno-sanitize=nonnull-attribute -fno-sanitize-recover=all -DDEBUG=true",
             "-O1 -g -fno-omit-frame-pointer -fsanitize=address,undefined -fno-sanitize=nonnull-attribute -fno-sanitize-recover=all",
             "-fsanitize=address,undefined"),
    "tsan": ("-O1 -g -fsanitize=thread -DDEBUG=true", "-O1 -g -fsanitize=thread", "-fsanitize=thread"),
    "plain-O2": ("-O2 -g -DDEBUG=true", "-O2 -g", ""),
    "plain-O0": ("-O0 -g -DDEBUG=true", "-O1 -g", ""),
    # plain char is unsigned on AArch64/ARM/PowerPC/s390x/RISC-V Linux: same code, other signedness
    "uchar-O2": ("-O2 -g -funsigned-char -DDEBUG=true", "-O2 -g -funsigned-char", ""),
    # the project's Release flags: assertions compiled out (CBOR_ASSERT and assert() vanish), -O3
    "release-O3": ("-O3 -DNDEBUG", "-O2 -g", ""),
    # CMake's MinSizeRel: -Os defines __OPTIMIZE_SIZE__, which size-conscious code paths key on
    "size-Os": ("-Os -g -DDEBUG=true", "-O2 -g", ""),
    # tuned for the build machine's instruction set (F16C, AVX2, BMI...): code paths under #ifdef __F16C__ / __AVX2__ /
    # __SSE4_2__ exist only here, and the auto-vectoriser gets the wide instructions
    "native-O3": ("-O3 -march=native -g -DDEBUG=true", "-O2 -g", ""),
    # the other compiler: different inlining, different code for atomics/builtins, different treatment of UB
    # a compiler that predefines fewer macros than gcc/clang do (MSVC, IAR, tcc know no __BYTE_ORDER__ family): code that
    # consults such a macro without testing that it exists takes whatever branch "0 == 0" selects
    "bare-O2": ("-O2 -g -DDEBUG=true -U__BYTE_ORDER__ -U__ORDER_BIG_ENDIAN__ -U__ORDER_LITTLE_ENDIAN__ -U__ORDER_PDP_ENDIAN__ -U__FLOAT_WORD_ORDER__", "-O2 -g", ""),
    "clang-O2": ("-O2 -g -DDEBUG=true", "-O2 -g -Wno-unknown-warning-option -Wno-gnu-zero-variadic-macro-arguments", ""),
    "ubsan-O2": ("-O2 -g -fsanitize=undefined -fsanitize=float-cast-overflow -fno-sanitize=nonnull-attribute -fno-sanitize-recover=all -DDEBUG=true",
                 "-O2 -g -fsanitize=undefined -fno-sanitize=nonnull-attribute -fno-sanitize-recover=all", "-fsanitize=undefined"),
    # plain-O2 objects, linked with --wrap so any direct libc allocation call made by libcbor is seen
    "wrap": ("-O2 -g -DDEBUG=true", "-O2 -g -DVH_WRAP=1",
             "-Wl,--wrap=malloc,--wrap=calloc,--wrap=realloc,--wrap=free,--wrap=reallocarray,--wrap=posix_memalign,--wrap=aligned_alloc,--wrap=memalign,--wrap=valloc,--wrap=strdup,--wrap=strndup"),
    # the same, with the library compiled the way projects that vendor it often compile everything: feature-test macros
    # and fortification defined globally (code under #ifdef _GNU_SOURCE / __USE_MISC / _FORTIFY_SOURCE exists only here)
    "vendored": ("-O2 -g -DDEBUG=true -D_GNU_SOURCE -D_DEFAULT_SOURCE -D_FILE_OFFSET_BITS=64 -D_REENTRANT -D_FORTIFY_SOURCE=2", "-O2 -g -DVH_WRAP=1",
                 "-Wl,--wrap=malloc,--wrap=calloc,--wrap=realloc,--wrap=free,--wrap=reallocarray,--wrap=posix_memalign,--wrap=aligned_alloc,--wrap=memalign,--wrap=valloc,--wrap=strdup,--wrap=strndup"),
    # library as a shared object (writable-segment snapshot, C17)
    "pic-so": ("-O2 -g -fPIC -DDEBUG=true", "-O2 -g -DVH_PICSO=1", ""),
    # clang MemorySanitizer: library and harness are the whole program (plain C, only libc/libm outside), so every
    # value that reaches a branch or a pointer dereference is tracked; catches reads of uninitialised memory that ASan cannot see
    "msan": ("-O1 -g -fno-omit-frame-pointer -fsanitize=memory -fsanitize-memory-track-origins=1 -DDEBUG=true",
             "-O1 -g -fno-omit-frame-pointer -fsanitize=memory -fsanitize-memory-track-origins=1 -Wno-unknown-warning-option -Wno-gnu-zero-variadic-macro-arguments",
             "-fsanitize=memory"),
}
FLAVOURS["cov"] = ("-O0 -g --coverage -DDEBUG=true", "-O1 -g -DVH_COV=1", "--coverage")  # tools/coverage.py only
FLAVOUR_CC = {"msan": "clang", "clang-O2": "clang"}
KEEP_OBJ = ("cov",)  # gcov needs the .gcno files next to the objects

STRIP_PREFIXES = ("-O", "-flto", "-fno-fat-lto-objects", "-g", "-fsanitize", "-fno-sanitize", "-DNDEBUG", "-DDEBUG")


def log(msg):
    print("[build] " + msg, file=sys.stderr, flush=True)


def _hash_tree(h, root, rel):
    p = os.path.join(root, rel)
    if os.path.isfile(p):
        h.update(rel.encode() + b"\0")
        with open(p, "rb") as f:
            h.update(f.read())
        h.update(b"\0")
        return
    for dirpath, dirnames, filenames in sorted(os.walk(p)):
        dirnames.sort()
        for fn in sorted(filenames):
            full = os.path.join(dirpath, fn)
            h.update(os.path.relpath(full, root).encode() + b"\0")
            with open(full, "rb") as f:
                h.update(f.read())
            h.update(b"\0")


def source_key():
    h = hashlib.sha256()
    h.update(BUILD_VERSION.encode())
    h.update(json.dumps(FLAVOURS, sort_keys=True).encode())
    for rel in ("CMakeLists.txt", "CMakeModules", "src"):
        if os.path.exists(os.path.join(REPO, rel)):
            _hash_tree(h, REPO, rel)
    _hash_tree(h, VERIF, "harness")
    return h.hexdigest()[:20]


class Lock:
    def __init__(self, name="lock"):
        os.makedirs(SCRATCH, exist_ok=True)
        self.path = os.path.join(SCRATCH, name)

    def __enter__(self):
        self.f = open(self.path, "w")
        fcntl.flock(self.f, fcntl.LOCK_EX)
        return self

    def __exit__(self, *a):
        fcntl.flock(self.f, fcntl.LOCK_UN)
        self.f.close()


def _run(cmd, **kw):
    r = subprocess.run(cmd, stdout=subprocess.PIPE, stderr=subprocess.STDOUT, text=True, **kw)
    return r.returncode, r.stdout


def _prune(keep):
    try:
        ents = [e for e in os.listdir(SCRATCH) if e.startswith("b-") and e != keep]
    except FileNotFoundError:
        return
    ents.sort(key=lambda e: os.path.getmtime(os.path.join(SCRATCH, e)), reverse=True)
    for e in ents[3:]:
        shutil.rmtree(os.path.join(SCRATCH, e), ignore_errors=True)


class BuildError(Exception):
    pass


def _configure(bdir, L):
    cfg = os.path.join(bdir, "cfg-%d" % L)
    stamp = os.path.join(cfg, ".ok")
    if os.path.exists(stamp):
        return cfg
    shutil.rmtree(cfg, ignore_errors=True)
    t0 = time.time()
    rc, out = _run(["cmake", "-S", REPO, "-B", cfg, "-G", "Ninja", "-DWITH_TESTS=OFF", "-DWITH_EXAMPLES=OFF",
                    "-DSANITIZE=OFF", "-DCMAKE_EXPORT_COMPILE_COMMANDS=ON", "-DCBOR_MAX_STACK_SIZE=%d" % L])
    if rc != 0:
        raise BuildError("cmake configure failed:\n" + out[-3000:])
    open(stamp, "w").close()
    log("configured L=%d in %.1fs" % (L, time.time() - t0))
    return cfg


def _lib_commands(cfg):
    with open(os.path.join(cfg, "compile_commands.json")) as f:
        cc = json.load(f)
    cmds = []
    for ent in cc:
        src = ent["file"]
        if not src.startswith(os.path.join(REPO, "src")):
            continue
        args = shlex.split(ent["command"])
        keep = []
        skip = False
        for a in args[1:]:
            if skip:
                skip = False
                continue
            if a in ("-o", "-c"):
                skip = a == "-o"
                continue
            if a == src or a.startswith(STRIP_PREFIXES):
                continue
            keep.append(a)
        cmds.append((src, keep, ent["directory"]))
    if not cmds:
        raise BuildError("no library sources found in compile_commands.json")
    return cmds


def _compile_many(jobs):
    """jobs: list of (argv, cwd). Returns on success, raises BuildError with output otherwise."""
    def one(j):
        rc, out = _run(j[0], cwd=j[1])
        return rc, out, j[0]
    with ThreadPoolExecutor(max_workers=JOBS) as ex:
        for rc, out, argv in ex.map(one, jobs):
            if rc != 0:
                raise BuildError("compile failed: %s\n%s" % (" ".join(argv), out[-4000:]))


def ensure(flavour, L=2048):
    """Return the path of the harness binary for (flavour, L), building if needed."""
    key = source_key()
    bdir = os.path.join(SCRATCH, "b-" + key)
    exe = os.path.join(bdir, "vh-%s-%d" % (flavour, L))
    if os.path.exists(exe):
        return exe
    with Lock():
        if os.path.exists(exe):
            return exe
        os.makedirs(bdir, exist_ok=True)
        _prune("b-" + key)
        t0 = time.time()
        cfg = _configure(bdir, L)
        libflags, hflags, ldflags = FLAVOURS[flavour]
        cc = FLAVOUR_CC.get(flavour, CC)
        objdir = os.path.join(bdir, "obj-%s-%d" % (flavour, L))
        shutil.rmtree(objdir, ignore_errors=True)
        os.makedirs(objdir)
        cmds = _lib_commands(cfg)
        jobs = []
        libobjs = []
        incs = []
        for src, keep, cwd in cmds:
            o = os.path.join(objdir, "lib_" + os.path.relpath(src, REPO).replace("/", "_")[:-2] + ".o")
            libobjs.append(o)
            jobs.append(([cc] + keep + shlex.split(libflags) + ["-c", src, "-o", o], cwd))
            for a in keep:
                if (a.startswith("-I") or a.startswith("-D")) and a not in incs:
                    incs.append(a)
        hobjs = []
        narrow = []
        for fn in sorted(os.listdir(HARNESS)):
            if not fn.endswith(".c"):
                continue
            o = os.path.join(objdir, "h_" + fn[:-2] + ".o")
            hobjs.append(o)
            extra = []
            is_narrow = fn.startswith("d_arith_n")
            (narrow if is_narrow else jobs).append(([cc, "-std=gnu11", "-Wall", "-Wextra", "-Wno-format-truncation", "-Wno-unused-parameter"] + shlex.split(hflags) + incs +
                         ["-I" + HARNESS, "-DVH_REPO_SRC=\"%s\"" % os.path.join(REPO, "src"), "-DVH_L=%d" % L,
                          "-DVH_MEMUTILS_C=\"%s\"" % os.path.join(REPO, "src", "cbor", "internal", "memory_utils.c")] + extra +
                         ["-c", os.path.join(HARNESS, fn), "-o", o], objdir))
        _compile_many(jobs)
        # the narrow-width units re-compile the tree's own memory_utils.c with size_t redefined: whatever that file
        # defines must stay private to the unit (any function added there would otherwise clash with the real
        # object), and a tree whose file does not survive the redefinition costs only C20's narrow stage
        for argv, cwd in narrow:
            rc, out = _run(argv, cwd=cwd)
            if rc != 0:
                log("narrow-width unit does not compile for this tree; building its stub instead:\n" + out[-800:])
                rc, out = _run(argv[:1] + ["-DVH_NARROW_STUB=1"] + argv[1:], cwd=cwd)
                if rc != 0:
                    raise BuildError("compile failed: %s\n%s" % (" ".join(argv), out[-4000:]))
            o = argv[-1]
            pref = "n8_" if "d_arith_n8" in o else "n16_"
            rc, out = _run(["objcopy", "--keep-global-symbol=" + pref + "sweep", o])
            if rc != 0:
                raise BuildError("objcopy failed:\n" + out[-2000:])
        tmp = exe + ".tmp"
        if flavour == "pic-so":
            so = os.path.join(bdir, "libcbor-picso-%d.so" % L)
            rc, out = _run([cc, "-shared", "-Wl,-z,relro,-z,now", "-o", so] + libobjs + ["-lm"])
            if rc != 0:
                raise BuildError("link (shared) failed:\n" + out[-3000:])
            link = [cc] + hobjs + [so, "-Wl,-rpath," + bdir, "-lm", "-lpthread", "-ldl", "-o", tmp]
        else:
            link = [cc] + shlex.split(ldflags) + hobjs + libobjs + ["-lm", "-lpthread", "-ldl", "-o", tmp]
        rc, out = _run(link)
        if rc != 0:
            raise BuildError("link failed:\n" + out[-3000:])
        os.rename(tmp, exe)
        if flavour not in KEEP_OBJ:
            shutil.rmtree(objdir, ignore_errors=True)
        log("built %s (L=%d) in %.1fs [%s]" % (flavour, L, time.time() - t0, key))
        return exe


def ensure_many(pairs):
    """Build several (flavour, L) pairs; sequential under the lock, each parallel inside."""
    return {p: ensure(*p) for p in pairs}


if __name__ == "__main__":
    for fl in sys.argv[1:] or ["asan-full"]:
        print(ensure(fl))
