"""Registry: which stages (driver, workload, build flavour) decide each property."""

TRUST = ["gcc 12 sanitizer runtimes and glibc", "the harness's reference model (pinned by RFC 8949 Appendix A/F and RFC 3629 vectors at every start-up)",
         "public getters report item state faithfully (cross-checked through serialisation)", "x86-64 Linux, IEEE-754 float/double"]

PROPS = {
    "C01": {
        "level": "exploration",
        "assumptions": TRUST + ["paths the workloads do not drive are unjudged; red zones miss far out-of-bounds accesses"],
        "stages": [
            {"driver": "load", "stage": "bytes", "flavour": "asan-full", "hang_secs": 30},
            {"driver": "load", "stage": "alpha", "flavour": "asan-full", "hang_secs": 30, "budget2": {"quick": 4, "thorough": 5}},
            {"driver": "load", "stage": "ctx", "flavour": "asan-full", "hang_secs": 30},
            {"driver": "load", "stage": "gram", "flavour": "asan-full", "hang_secs": 30, "budget": {"quick": 16000, "thorough": 300000}},
            {"driver": "load", "stage": "deep", "flavour": "asan-full", "hang_secs": 60, "shards": 8},
            {"driver": "load", "stage": "ctx", "flavour": "msan", "hang_secs": 30},
            {"driver": "load", "stage": "gram", "flavour": "msan", "hang_secs": 30, "budget": {"quick": 3000, "thorough": 60000}, "budget2": {"quick": 8, "thorough": 1}},
        ],
    },
    "C02": {
        "level": "exploration",
        "assumptions": TRUST,
        "stages": [
            {"driver": "load", "stage": "bytes", "flavour": "plain-O2"},
            {"driver": "load", "stage": "alpha", "flavour": "plain-O2", "budget": {"quick": 6, "thorough": 7}, "budget2": {"quick": 4, "thorough": 5}},
            {"driver": "load", "stage": "ctx", "flavour": "asan"},
            {"driver": "load", "stage": "gram", "flavour": "asan"},
            {"driver": "load", "stage": "deep", "flavour": "asan", "shards": 8},
            {"driver": "fault", "stage": "load", "flavour": "asan"},
            {"driver": "load", "stage": "hugebuf", "flavour": "plain-O2"},
            {"driver": "load", "stage": "ctx", "flavour": "release-O3"},
            {"driver": "load", "stage": "ctx", "flavour": "uchar-O2"},
        ],
    },
    "C05": {
        "level": "exploration",
        "assumptions": TRUST,
        "stages": [
            {"driver": "load", "stage": "bytes", "flavour": "plain-O2"},
            {"driver": "load", "stage": "alpha", "flavour": "plain-O2", "budget": {"quick": 6, "thorough": 7}, "budget2": {"quick": 4, "thorough": 5}},
            {"driver": "load", "stage": "ctx", "flavour": "asan"},
            {"driver": "load", "stage": "gram", "flavour": "asan"},
            {"driver": "load", "stage": "deep", "flavour": "asan", "shards": 8},
        ],
    },
    "C14": {
        "level": "exploration",
        "assumptions": TRUST,
        "stages": [
            {"driver": "load", "stage": "seq", "flavour": "asan"},
            {"driver": "load", "stage": "hugebuf", "flavour": "plain-O2"},
        ],
    },
    "C08": {
        "level": "exploration",
        "assumptions": TRUST,
        "stages": [{"driver": "stream", "stage": "", "flavour": "asan-full"},
                   {"driver": "stream", "stage": "huge", "flavour": "plain-O2"}],
    },
    "C09": {
        "level": "exploration",
        "assumptions": TRUST,
        "stages": [{"driver": "stream", "stage": "", "flavour": "asan", "budget": {"quick": 40000, "thorough": 400000}}],
    },
    "C10": {
        "level": "exploration",
        "assumptions": TRUST,
        "stages": [{"driver": "stream", "stage": "", "flavour": "asan-full", "budget": {"quick": 6000000, "thorough": 200000000}}],
    },
    "C03": {
        "level": "exploration",
        "assumptions": TRUST,
        "stages": [{"driver": "ser", "stage": "dec", "flavour": "asan"},
                   {"driver": "ser", "stage": "api", "flavour": "asan", "budget": {"quick": 150000, "thorough": 1500000}},
                   {"driver": "ser", "stage": "api", "flavour": "msan", "budget": {"quick": 30000, "thorough": 300000}}],
    },
    "C07": {
        "level": "exploration",
        "assumptions": TRUST + ["quick tier caps the n-loop at items of serialized size <= 300 bytes (thorough: 5000)"],
        "stages": [{"driver": "ser", "stage": "dec", "flavour": "asan", "budget": {"quick": 3000, "thorough": 30000}},
                   {"driver": "ser", "stage": "api", "flavour": "asan", "budget": {"quick": 3000, "thorough": 30000}},
                   {"driver": "ser", "stage": "enc", "flavour": "asan-full"}],
    },
    "C11": {
        "level": "exploration",
        "assumptions": TRUST,
        "stages": [{"driver": "ser", "stage": "dec", "flavour": "asan", "budget": {"quick": 60000, "thorough": 600000}},
                   {"driver": "ser", "stage": "api", "flavour": "asan", "budget": {"quick": 150000, "thorough": 1500000}}],
    },
    "C04": {
        "level": "exploration",
        "assumptions": TRUST + ["ownership rules as documented in the headers (cbor_tag_set_item does not release the previous item: that reference passes to the client)"],
        "stages": [{"driver": "hist", "stage": "dfs", "flavour": "asan", "budget": {"quick": 5, "thorough": 5}, "budget2": {"quick": 4, "thorough": 4}},
                   {"driver": "hist", "stage": "dfs", "flavour": "asan", "budget": {"thorough": 6}, "budget2": {"thorough": 3}, "tiers": ("thorough",)},
                   {"driver": "hist", "stage": "random", "flavour": "asan", "budget": {"quick": 100000, "thorough": 2000000}},
                   {"driver": "hist", "stage": "wide", "flavour": "asan", "shards": 2}],
    },
    "C12": {
        "level": "exploration",
        "assumptions": TRUST,
        "stages": [{"driver": "hist", "stage": "seq", "flavour": "asan", "budget": {"quick": 4, "thorough": 5}},
                   {"driver": "hist", "stage": "random", "flavour": "asan", "budget": {"quick": 200000, "thorough": 3000000}},
                   {"driver": "hist", "stage": "hugeidx", "flavour": "asan", "shards": 4},
                   {"driver": "hist", "stage": "growth", "flavour": "asan"}],
    },
    "C13": {
        "level": "exploration",
        "assumptions": TRUST + ["cbor_describe is run outside the bypass detector (stdio may allocate for itself) but under provenance checks"],
        "stages": [{"driver": "hist", "stage": "hist-tagged", "flavour": "asan"}, {"driver": "hist", "stage": "corpus-tagged", "flavour": "asan"},
                   {"driver": "hist", "stage": "hist-arena", "flavour": "wrap"}, {"driver": "hist", "stage": "corpus-arena", "flavour": "wrap"},
                   {"driver": "hist", "stage": "hist-tagged-plain", "flavour": "plain-O2"},
                   {"driver": "hist", "stage": "corpus-count", "flavour": "asan"},
                   {"driver": "hist", "stage": "corpus-count-zeronull", "flavour": "asan", "budget": {"quick": 3000, "thorough": 30000}}],
    },
    "C06": {
        "level": "fault_enumeration",
        "assumptions": TRUST + ["'exactly as they were' is judged on the semantic snapshot (contents, order, sizes, reference counts, identity); spare capacity is excluded"],
        "stages": [{"driver": "fault", "stage": "api", "flavour": "asan", "budget": {"quick": 6000, "thorough": 60000}},
                   {"driver": "fault", "stage": "small", "flavour": "asan", "budget": {"quick": 5, "thorough": 6}},
                   {"driver": "fault", "stage": "corpus", "flavour": "asan", "budget": {"quick": 8000, "thorough": 80000}},
                   {"driver": "fault", "stage": "api", "flavour": "msan", "budget": {"quick": 1500, "thorough": 15000}},
                   {"driver": "fault", "stage": "corpus", "flavour": "msan", "budget": {"quick": 1000, "thorough": 10000}}],
    },
    "C15": {
        "level": "exploration",
        "assumptions": TRUST,
        "stages": [{"driver": "float", "stage": "half", "flavour": "asan-full"},
                   {"driver": "float", "stage": "single", "flavour": "asan-full", "tiers": ("quick",)},
                   {"driver": "float", "stage": "single", "flavour": "ubsan-O2", "tiers": ("thorough",)},
                   {"driver": "float", "stage": "double", "flavour": "asan-full"},
                   {"driver": "float", "stage": "half", "flavour": "plain-O2"}],
    },
    "C16": {
        "level": "exploration",
        "assumptions": TRUST,
        "stages": [{"driver": "utf8", "stage": "bytes", "flavour": "asan", "budget": {"quick": 3, "thorough": 3}},
                   {"driver": "utf8", "stage": "bytes", "flavour": "plain-O2", "budget": {"thorough": 4}, "budget2": {"thorough": 4}, "tiers": ("thorough",)},
                   {"driver": "utf8", "stage": "alpha", "flavour": "asan"},
                   {"driver": "utf8", "stage": "bytes", "flavour": "uchar-O2", "budget": {"quick": 3, "thorough": 3}},
                   {"driver": "utf8", "stage": "alpha", "flavour": "uchar-O2", "budget": {"quick": 6, "thorough": 8}},
                   {"driver": "utf8", "stage": "bytes", "flavour": "release-O3", "budget": {"quick": 3, "thorough": 3}},
                   {"driver": "utf8", "stage": "faults", "flavour": "asan"}],
    },
    "C17": {
        "level": "exploration",
        "assumptions": TRUST + ["'all interleavings' is sampled: ThreadSanitizer is happens-before based, so an unsynchronised access pair is reported whenever both accesses execute in a run, regardless of timing; API-pair coverage is reported"],
        "stages": [{"driver": "thr", "stage": "tsan", "flavour": "tsan", "shards": 4, "budget": {"quick": 120, "thorough": 1200}},
                   {"driver": "thr", "stage": "digest", "flavour": "plain-O2", "shards": 2, "budget": {"quick": 60, "thorough": 600}},
                   {"driver": "thr", "stage": "segment", "flavour": "pic-so", "shards": 4, "budget": {"quick": 96, "thorough": 800}}],
    },
    "C18": {
        "level": "exploration",
        "assumptions": TRUST,
        "stages": [{"driver": "ro", "stage": "", "flavour": "plain-O0"}, {"driver": "ro", "stage": "", "flavour": "plain-O2"},
                   {"driver": "thr", "stage": "readers", "flavour": "tsan", "shards": 4, "budget": {"quick": 800, "thorough": 8000}}],
    },
    "C19": {
        "level": "exploration",
        "assumptions": TRUST + ["stack budget per case: 64 KiB + 512 B x L; empty definite containers are never placed at the boundary (they never become open)"],
        "stages": [{"driver": "nest", "stage": "", "flavour": fl, "L": L, "shards": 8 if L >= 64 else 2, "tiers": tiers}
                   for L, tiers in ((1, ("quick", "thorough")), (2, ("thorough",)), (3, ("quick", "thorough")), (8, ("thorough",)), (64, ("thorough",)), (2048, ("quick", "thorough")))
                   for fl in ("plain-O0", "plain-O2")] +
                  # limits beyond 16 bits: a depth counter narrower than size_t must not wrap
                  [{"driver": "nest", "stage": "", "flavour": "plain-O2", "L": 70000, "shards": 8, "tiers": ("quick", "thorough")},
                   {"driver": "nest", "stage": "", "flavour": "plain-O0", "L": 70000, "shards": 8, "tiers": ("thorough",)}],
    },
    "C20": {
        "level": "exploration",
        "assumptions": TRUST + ["the property's own quantifier cites an SMT proof over 2^128 operand pairs; that is a different technique family and is not used: at 64 bit this is a dense sample, and the narrow-width exhaustion shows the guard algorithm is correct at 8 and 16 bit"],
        "stages": [{"driver": "arith", "stage": "narrow", "flavour": "ubsan-O2"},
                   {"driver": "arith", "stage": "grid", "flavour": "ubsan-O2"},
                   {"driver": "arith", "stage": "e2e", "flavour": "asan"}],
    },
}
