"""Orchestrator: runs the stages of one property check, merges worker results,
writes evidence, matches known findings, prints the verdict.

Exit codes: 0 = held on everything explored; 1 = violation (with a
`VIOLATION property=<id> replay=<path>` line); 2 = inconclusive / machinery failure.
"""
import hashlib
import json
import os
import shutil
import subprocess
import sys
import time

from . import build
from .props import PROPS

VERIF = build.VERIF
# evidence of runs against a scratch copy (VERIF_REPO set: mutants, seeded changes) must not overwrite the registered evidence
EVIDENCE_DIR = os.path.join(VERIF, "evidence") if os.path.realpath(build.REPO) == "/repo" else os.path.join(build.SCRATCH, "evidence-other-repo")
REPLAY_DIR = os.path.join(VERIF, "replays")
KNOWN_FILE = os.path.join(VERIF, "known_findings.json")

SAN_ENV = {
    "ASAN_OPTIONS": "abort_on_error=1:detect_leaks=0:allocator_may_return_null=1:redzone=64:max_malloc_fill_size=0:handle_abort=1:quarantine_size_mb=8:detect_stack_use_after_return=0",
    "UBSAN_OPTIONS": "print_stacktrace=1:halt_on_error=1",
    "TSAN_OPTIONS": "halt_on_error=0:second_deadlock_stack=1:history_size=4",
    "MSAN_OPTIONS": "abort_on_error=1:allocator_may_return_null=1:poison_in_dtor=0",
    "MALLOC_CHECK_": "3",
}


def load_known():
    try:
        with open(KNOWN_FILE) as f:
            return json.load(f).get("findings", [])
    except FileNotFoundError:
        return []


def match_known(known, pid, v):
    """A violation is covered only by an entry with status 'known' naming this
    property, this violation key and this exact case (descriptor hex)."""
    for k in known:
        if k.get("status") != "known" or k.get("property") != pid:
            continue
        if k.get("key") != v["key"]:
            continue
        if k.get("case") is not None and k.get("case") != v["desc"]:
            continue
        if k.get("stage") is not None and k.get("stage") != v.get("stage"):
            continue
        return k
    return None


def _worker_cmd(exe, pid, st, tier, seed, shard, nshards, out):
    cmd = [exe, st["driver"], "--prop", pid, "--stage", st.get("stage", ""), "--tier", tier, "--seed", str(seed),
           "--shard", str(shard), "--nshards", str(nshards), "--out", out, "--flavour", st["flavour"],
           "--L", str(st.get("L", 2048)), "--hang-secs", str(st.get("hang_secs", 600))]
    b = st.get("budget")
    if isinstance(b, dict):
        b = b.get(tier)
    if b:
        cmd += ["--budget", str(b)]
    b2 = st.get("budget2")
    if isinstance(b2, dict):
        b2 = b2.get(tier)
    if b2:
        cmd += ["--budget2", str(b2)]
    return cmd


def run_stage(pid, st, tier, seed, rundir, idx):
    exe = build.ensure(st["flavour"], st.get("L", 2048))
    nshards = st.get("shards", {}).get(tier, 16) if isinstance(st.get("shards"), dict) else st.get("shards", 16)
    env = dict(os.environ)
    env.update(SAN_ENV)
    procs = []
    t0 = time.time()
    for sh in range(nshards):
        out = os.path.join(rundir, "s%d-%d.json" % (idx, sh))
        cmd = _worker_cmd(exe, pid, st, tier, seed, sh, nshards, out)
        try:
            p = subprocess.Popen(cmd, stdout=subprocess.PIPE, stderr=subprocess.STDOUT, env=env, cwd=rundir)
        except FileNotFoundError:
            # the cache entry was pruned by a concurrent build of another tree: rebuild and retry once
            exe = build.ensure(st["flavour"], st.get("L", 2048))
            cmd[0] = exe
            p = subprocess.Popen(cmd, stdout=subprocess.PIPE, stderr=subprocess.STDOUT, env=env, cwd=rundir)
        procs.append((p, out, cmd))
    results = []
    machinery = []
    for p, out, cmd in procs:
        try:
            so, _ = p.communicate(timeout=st.get("timeout", 7200))
        except subprocess.TimeoutExpired:
            p.kill()
            so, _ = p.communicate()
            machinery.append("worker timed out: " + " ".join(cmd))
            continue
        if not os.path.exists(out):
            machinery.append("worker produced no result (exit %s): %s\n%s" % (p.returncode, " ".join(cmd), (so or b"").decode(errors="replace")[-1500:]))
            continue
        with open(out) as f:
            r = json.load(f)
        r["_out"] = out
        r["_stage_idx"] = idx
        results.append(r)
        if r.get("machinery_failure") or p.returncode == 2:
            machinery.append("stage %s/%s shard: %s (%s)" % (st["driver"], st.get("stage", ""), r.get("machinery_msg", ""), r.get("status")))
    return results, machinery, time.time() - t0, nshards


def merge_hashes(exe, files):
    files = [f for f in files if os.path.exists(f)]
    if not files:
        return 0
    env = dict(os.environ)
    env.update(SAN_ENV)
    r = subprocess.run([exe, "merge-hashes"] + files, stdout=subprocess.PIPE, stderr=subprocess.DEVNULL, text=True, env=env)
    try:
        return int(r.stdout.strip())
    except ValueError:
        return 0


def write_replay(pid, st, tier, seed, v):
    os.makedirs(REPLAY_DIR, exist_ok=True)
    h = hashlib.sha256((pid + v["key"] + v["desc"] + st["driver"] + st.get("stage", "")).encode()).hexdigest()[:12]
    path = os.path.join(REPLAY_DIR, "%s-%s.json" % (pid, h))
    with open(path, "w") as f:
        json.dump({"property": pid, "driver": st["driver"], "stage": st.get("stage", ""), "flavour": st["flavour"], "L": st.get("L", 2048),
                   "tier": tier, "seed": seed, "key": v["key"], "case": v["desc"], "case_len": v.get("desc_len"),
                   "message": v["msg"]}, f, indent=1)
    return path


def replay(pid, path):
    with open(path) as f:
        rp = json.load(f)
    exe = build.ensure(rp["flavour"], rp.get("L", 2048))
    env = dict(os.environ)
    env.update(SAN_ENV)
    cmd = [exe, rp["driver"], "--prop", rp["property"], "--stage", rp.get("stage", ""), "--flavour", rp["flavour"], "--L", str(rp.get("L", 2048)),
           "--tier", rp.get("tier", "quick"), "--seed", str(rp.get("seed", 1)), "--replay", rp["case"]]
    print("replaying: " + " ".join(cmd[:12]) + " ...", flush=True)
    r = subprocess.run(cmd, env=env)
    if r.returncode == 0:
        print("replay: the case passes on the current tree")
        return 0
    print("replay: exit %d (violation reproduced%s)" % (r.returncode, "" if r.returncode == 1 else " — process died or monitor aborted"))
    print("VIOLATION property=%s replay=%s" % (pid, path))
    return 1


def run_check(pid, tier):
    if pid not in PROPS:
        print("unknown property " + pid, file=sys.stderr)
        return 2
    spec = PROPS[pid]
    seed = int(os.environ.get("VERIF_SEED", "1") or "1")
    t0 = time.time()
    rundir = os.path.join(build.SCRATCH, "run", "%s-%s-%d" % (pid, tier, os.getpid()))
    shutil.rmtree(rundir, ignore_errors=True)
    os.makedirs(rundir)
    known = load_known()
    all_results = []
    machinery = []
    stage_summaries = []
    try:
        stages = [s for s in spec["stages"] if tier in s.get("tiers", ("quick", "thorough"))]
        # build everything first (under the lock) so workers start together
        for st in stages:
            build.ensure(st["flavour"], st.get("L", 2048))
        for idx, st in enumerate(stages):
            results, mach, wall, nshards = run_stage(pid, st, tier, seed, rundir, idx)
            machinery += mach
            ev = sum(r["evaluations"] for r in results)
            stage_summaries.append({"driver": st["driver"], "stage": st.get("stage", ""), "flavour": st["flavour"], "L": st.get("L", 2048),
                                    "shards": nshards, "evaluations": ev, "wall_s": round(wall, 2),
                                    "exhaustive": all(r.get("exhaustive") for r in results) if results else False,
                                    "violations": sum(r["violations_total"] for r in results)})
            for r in results:
                r["_st"] = st
            all_results += results
            print("[%s %s] stage %s/%s (%s, L=%s): %d cases, %d violation(s), %.1fs" % (
                pid, tier, st["driver"], st.get("stage", ""), st["flavour"], st.get("L", 2048), ev,
                stage_summaries[-1]["violations"], wall), flush=True)
    except build.BuildError as e:
        print("BUILD FAILED (inconclusive): %s" % e, file=sys.stderr)
        shutil.rmtree(rundir, ignore_errors=True)
        return 2

    # ---- merge
    counters = {}
    notes = {}
    evaluations = 0
    by_construction = 0
    hash_overflow = 0
    samples = []
    rule = ""
    hashfiles = []
    for r in all_results:
        evaluations += r["evaluations"]
        by_construction += r["nontrivial_by_construction"]
        hash_overflow += r.get("hash_overflow", 0)
        if r.get("nontrivial_hashed"):
            hashfiles.append(r["_out"] + ".hashes")
        for k, v in r["counters"].items():
            if k.startswith("max") or ".max" in k:
                counters[k] = max(counters.get(k, 0), v)
            else:
                counters[k] = counters.get(k, 0) + v
        for k, v in r.get("notes", {}).items():
            notes.setdefault(r["_st"]["driver"] + "/" + r["_st"].get("stage", "") + ":" + k, v)
        if r.get("rule"):
            rule = r["rule"]
    any_exe = build.ensure(stages[0]["flavour"], stages[0].get("L", 2048)) if stages else None
    hashed = merge_hashes(any_exe, hashfiles) if any_exe else 0
    distinct = by_construction + hashed
    # samples: spread over stages
    per_stage = {}
    for r in all_results:
        per_stage.setdefault(r["_stage_idx"], []).append(r)
    for idx in sorted(per_stage):
        got = 0
        for r in per_stage[idx]:
            for s in r["samples"]:
                if got >= 4:
                    break
                ent = {"stage": r["_st"]["driver"] + "/" + r["_st"].get("stage", ""), "case_hex": s["desc"], "case_len": s["len"]}
                if s.get("text"):
                    ent["observed"] = s["text"]
                samples.append(ent)
                got += 1
            if got >= 4:
                break

    # ---- violations
    viols = []
    for r in all_results:
        for v in r["violations"]:
            v = dict(v)
            v["stage"] = r["_st"].get("stage", "")
            v["_st"] = r["_st"]
            viols.append(v)
    total_viol = sum(r["violations_total"] for r in all_results)
    new_viols = []
    known_hits = {}
    for v in viols:
        k = match_known(known, pid, v)
        if k is not None:
            known_hits[id(k)] = k
        else:
            new_viols.append(v)
    # violations counted but not individually recorded (beyond per-key caps) are new unless every recorded one is known
    unrecorded = total_viol - len(viols)

    wall = time.time() - t0
    status = 0
    lines = []
    for k in known_hits.values():
        lines.append("KNOWN-FINDING: property=%s %s" % (pid, k.get("what", k.get("key"))))
    seen_replays = set()
    if new_viols or (unrecorded > 0 and not viols):
        status = 1
    for v in new_viols[:12]:
        path = write_replay(pid, v["_st"], tier, seed, v)
        if path in seen_replays:
            continue
        seen_replays.add(path)
        print("  violation [%s] %s\n    case=%s" % (v["key"], v["msg"][:700].replace("\n", "\n    "), v["desc"][:200] + ("..." if len(v["desc"]) > 200 else "")))
        lines.append("VIOLATION property=%s replay=%s" % (pid, path))
    if machinery:
        for m in machinery[:5]:
            print("INCONCLUSIVE: " + m[:1200], file=sys.stderr)
        if status == 0:
            status = 2
    if evaluations == 0 and status == 0:
        print("INCONCLUSIVE: the run observed nothing", file=sys.stderr)
        status = 2

    # ---- evidence
    os.makedirs(EVIDENCE_DIR, exist_ok=True)
    coverage = {
        "evaluations": evaluations,
        "distinct_nontrivial": distinct,
        "rule": rule + (" [hash set overflowed in %d insertions: distinct count is a lower bound]" % hash_overflow if hash_overflow else ""),
        "samples": samples if samples else [{"note": "no case sampled"}],
        "exhaustive": bool(stage_summaries) and all(s["exhaustive"] for s in stage_summaries),
        "stages": stage_summaries,
        "observed": counters,
        "notes": notes,
        "repo": build.REPO,
        "source_key": build.source_key(),
    }
    evidence = {
        "property_id": pid, "tier": tier, "seed": seed, "level": spec["level"], "coverage": coverage,
        "assumptions": spec.get("assumptions", []), "wall_s": round(wall, 2), "violations": total_viol,
        "known_findings_matched": [k.get("what") for k in known_hits.values()],
        "verdict": {0: "held on everything explored", 1: "violated", 2: "inconclusive"}[status],
    }
    tmp = os.path.join(EVIDENCE_DIR, pid + ".json.tmp")
    with open(tmp, "w") as f:
        json.dump(evidence, f, indent=1)
    os.rename(tmp, os.path.join(EVIDENCE_DIR, pid + ".json"))

    print("[%s %s] %d evaluations, %d distinct non-trivial, %d violation(s), %.1fs -> %s" % (
        pid, tier, evaluations, distinct, total_viol, wall, evidence["verdict"]), flush=True)
    for ln in lines:
        print(ln)
    if status != 1 or os.environ.get("VERIF_KEEP_RUN"):
        pass
    if not os.environ.get("VERIF_KEEP_RUN"):
        shutil.rmtree(rundir, ignore_errors=True)
    return status


def main(argv):
    if len(argv) < 2:
        print("usage: check <ID> [quick|thorough] | check <ID> --replay FILE", file=sys.stderr)
        return 2
    pid = argv[1]
    if len(argv) >= 4 and argv[2] == "--replay":
        return replay(pid, argv[3])
    tier = argv[2] if len(argv) > 2 else os.environ.get("VERIF_TIER", "quick")
    if tier not in ("quick", "thorough"):
        print("tier must be quick or thorough", file=sys.stderr)
        return 2
    return run_check(pid, tier)
